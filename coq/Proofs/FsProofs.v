(** FsProofs.v — facts about Model/Fs.v: split/join, normpath (shape, idempotence, one more
    component), resolution (unfolding, monotone in fuel, deterministic), get_dir, well-formed trees. *)
From InToto.Model Require Import Base Fs.
Local Arguments N.eqb : simpl never.

(* ------------------------------------------------------------------ *)
(** * small list / string facts *)
Lemma is_nil_true : forall {A} (l : list A), is_nil l = true <-> l = [].
Proof. destruct l; simpl; split; intro H; congruence. Qed.
Lemma is_nil_false : forall {A} (l : list A), is_nil l = false <-> l <> [].
Proof. destruct l; simpl; split; intro H; congruence. Qed.

Definition noslash (s : str) : Prop := ~ In c_slash s.

Lemma existsb_slash_false : forall s, existsb (N.eqb c_slash) s = false <-> noslash s.
Proof.
  unfold noslash. induction s as [|c s IH]; simpl.
  - split; [tauto | reflexivity].
  - rewrite orb_false_iff, IH. split.
    + intros [H1 H2] [E|E]; [apply N.eqb_neq in H1; congruence | tauto].
    + intro H. split; [apply N.eqb_neq; intro E; apply H; left; congruence | intro; apply H; right; assumption].
Qed.

Lemma split_on_nonempty : forall sep s, split_on sep s <> [].
Proof.
  induction s as [|c s IH]; simpl; [discriminate|].
  destruct (N.eqb c sep); [discriminate|]. destruct (split_on sep s); discriminate.
Qed.

Lemma split_on_noslash : forall s, noslash s -> split_on c_slash s = [s].
Proof.
  unfold noslash. induction s as [|c s IH]; intro H; simpl; [reflexivity|].
  destruct (N.eqb c c_slash) eqn:E.
  - apply N.eqb_eq in E. exfalso. apply H. left. congruence.
  - rewrite IH; [reflexivity | intro; apply H; right; assumption].
Qed.

Lemma split_on_app : forall sep a b, split_on sep (a ++ sep :: b) = split_on sep a ++ split_on sep b.
Proof.
  induction a as [|c a IH]; intro b; simpl.
  - rewrite N.eqb_refl. reflexivity.
  - destruct (N.eqb c sep); [rewrite IH; reflexivity|].
    rewrite IH. destruct (split_on sep a) eqn:E; [exfalso; eapply split_on_nonempty; eauto|]. reflexivity.
Qed.

Lemma split_on_parts_noslash : forall s, Forall noslash (split_on c_slash s).
Proof.
  induction s as [|c s IH]; simpl.
  - constructor; [intros []|constructor].
  - destruct (N.eqb c c_slash) eqn:E.
    + constructor; [intros []|assumption].
    + destruct (split_on c_slash s) as [|h t]; [constructor; [|constructor]|].
      * intros [H|[]]. subst. rewrite N.eqb_refl in E. discriminate.
      * inversion IH; subst. constructor; [|assumption].
        intros [H|H]; [subst; rewrite N.eqb_refl in E; discriminate | contradiction].
Qed.

Lemma join_with_snoc : forall sep cs n, cs <> [] -> join_with sep (cs ++ [n]) = join_with sep cs ++ sep :: n.
Proof.
  induction cs as [|c cs IH]; intros n H; [congruence|].
  destruct cs as [|c' cs]; [reflexivity|].
  change (join_with sep ((c :: c' :: cs) ++ [n])) with (c ++ sep :: join_with sep ((c' :: cs) ++ [n])).
  rewrite IH by discriminate. change (join_with sep (c :: c' :: cs)) with (c ++ sep :: join_with sep (c' :: cs)).
  rewrite <- app_assoc. reflexivity.
Qed.

Lemma split_join : forall cs, cs <> [] -> Forall noslash cs -> split_on c_slash (join_with c_slash cs) = cs.
Proof.
  induction cs as [|c cs IH]; intros H F; [congruence|].
  inversion F; subst. destruct cs as [|c' cs].
  - simpl. apply split_on_noslash. assumption.
  - change (join_with c_slash (c :: c' :: cs)) with (c ++ c_slash :: join_with c_slash (c' :: cs)).
    rewrite split_on_app, IH by (assumption || discriminate). rewrite split_on_noslash by assumption. reflexivity.
Qed.

(* ------------------------------------------------------------------ *)
(** * normpath on relative paths *)
Definition path_of (cs : list str) : str := if is_nil cs then s_dot else join_with c_slash cs.

Lemma initial_slashes_rel : forall p, absolute p = false -> initial_slashes p = 0%nat.
Proof.
  intros [|a [|b [|c p]]] H; simpl in *; try reflexivity; rewrite H; reflexivity.
Qed.

(** a component that survives: not empty, not ".", no slash *)
Definition okc (c : str) : Prop := c <> [] /\ c <> s_dot /\ noslash c.
Definition normalc (c : str) : Prop := okc c /\ c <> s_dotdot.

Lemma norm_step_normal : forall init st c, normalc c -> norm_step init st c = c :: st.
Proof.
  intros init st c [[H1 [H2 H3]] H4]. unfold norm_step.
  apply is_nil_false in H1. rewrite H1. apply eqs_neq in H2. rewrite H2. apply eqs_neq in H4. rewrite H4.
  reflexivity.
Qed.

(** shape of the stack for relative paths: normal components on top of ".."s *)
Definition shape (st : list str) : Prop :=
  exists ns k, st = rev ns ++ repeat s_dotdot k /\ Forall normalc ns.

Lemma normalc_dotdot : ~ normalc s_dotdot.
Proof. intros [_ H]. congruence. Qed.

Lemma shape_step : forall st c, noslash c -> shape st -> shape (norm_step false st c).
Proof.
  intros st c Hc [ns [k [-> F]]]. unfold norm_step.
  destruct (is_nil c) eqn:E1; [exists ns, k; auto|].
  destruct (eqs c s_dot) eqn:E2; [exists ns, k; auto|]. simpl orb.
  destruct (eqs c s_dotdot) eqn:E3.
  - apply eqs_eq in E3. subst c. simpl negb. simpl orb.
    destruct ns as [|n ns] using rev_ind.
    + simpl rev. rewrite app_nil_l. destruct k as [|k].
      * simpl. exists [], 1%nat. split; [reflexivity|constructor].
      * simpl repeat. simpl is_nil. cbv beta iota. rewrite eqs_refl. simpl.
        exists [], (S (S k)). split; [reflexivity|constructor].
    + clear IHns. rewrite rev_app_distr. simpl rev. simpl app.
      apply Forall_app in F. destruct F as [F1 F2]. inversion F2; subst.
      assert (En : eqs n s_dotdot = false).
      { apply eqs_neq. intro; subst. eapply normalc_dotdot; eauto. }
      rewrite En. simpl. exists ns, k. auto.
  - simpl negb. simpl orb. exists (ns ++ [c]), k. split.
    + rewrite rev_app_distr. reflexivity.
    + apply Forall_app. split; [assumption|]. constructor; [|constructor].
      split; [split; [apply is_nil_false; assumption | split; [apply eqs_neq; assumption | assumption]]
             | apply eqs_neq; assumption].
Qed.

Lemma shape_fold : forall cs st, Forall noslash cs -> shape st -> shape (fold_left (norm_step false) cs st).
Proof.
  induction cs as [|c cs IH]; intros st F S; simpl; [assumption|].
  inversion F; subst. apply IH; [assumption|]. apply shape_step; assumption.
Qed.

(** re-normalising a stack of that shape reproduces it *)
Lemma fold_shape_id : forall ns k st0,
  Forall normalc ns -> (st0 = [] \/ exists st1, st0 = s_dotdot :: st1) ->
  fold_left (norm_step false) (repeat s_dotdot k ++ ns) st0 = rev ns ++ repeat s_dotdot k ++ st0.
Proof.
  intros ns k. induction k as [|k IH]; intros st0 F H0.
  - simpl. clear H0. revert st0. induction F as [|n ns Hn F IHF]; intro st0; [reflexivity|].
    simpl. rewrite norm_step_normal by assumption. rewrite IHF. rewrite <- app_assoc. reflexivity.
  - simpl repeat. simpl app. simpl fold_left.
    assert (E : norm_step false st0 s_dotdot = s_dotdot :: st0).
    { destruct H0 as [->|[st1 ->]]; reflexivity. }
    rewrite E, IH by (assumption || (right; eexists; reflexivity)).
    f_equal. clear. induction k; simpl; [reflexivity | rewrite IHk; reflexivity].
Qed.

Lemma repeat_rev : forall {A} (x : A) k, rev (repeat x k) = repeat x k.
Proof.
  intros A x k. induction k as [|k IH]; [reflexivity|]. simpl. rewrite IH.
  clear. induction k; simpl; [reflexivity | rewrite IHk; reflexivity].
Qed.

Lemma normalc_noslash : forall c, normalc c -> noslash c.
Proof. intros c [[_ [_ H]] _]. exact H. Qed.

Lemma dotdot_noslash : noslash s_dotdot.
Proof. intros [H|[H|[]]]; discriminate. Qed.

Lemma join_not_dot : forall cs, cs <> [] -> Forall (fun c => c <> [] /\ c <> s_dot) cs ->
  join_with c_slash cs <> s_dot.
Proof.
  intros [|c [|c' cs]] H F; [congruence| |].
  - inversion F; subst. simpl. tauto.
  - inversion F as [|? ? [Hc _] _]; subst.
    change (join_with c_slash (c :: c' :: cs)) with (c ++ c_slash :: join_with c_slash (c' :: cs)).
    destruct c as [|x [|y c]]; [congruence| |]; simpl; discriminate.
Qed.

(** the components of a normalised relative path, again *)
Lemma norm_comps_shape : forall p,
  exists ns k, norm_comps false (split_on c_slash p) = repeat s_dotdot k ++ ns /\ Forall normalc ns.
Proof.
  intro p. destruct (shape_fold (split_on c_slash p) [] (split_on_parts_noslash p)) as [ns [k [E F]]].
  { exists [], 0%nat. split; [reflexivity|constructor]. }
  exists ns, k. split; [|assumption]. unfold norm_comps. rewrite E, rev_app_distr, rev_involutive, repeat_rev.
  reflexivity.
Qed.

Lemma comps_facts : forall ns k, Forall normalc ns ->
  Forall noslash (repeat s_dotdot k ++ ns) /\ Forall (fun c => c <> [] /\ c <> s_dot) (repeat s_dotdot k ++ ns).
Proof.
  intros ns k F. split; apply Forall_app; split.
  - clear. induction k; simpl; constructor; [apply dotdot_noslash | assumption].
  - eapply Forall_impl; [|exact F]. apply normalc_noslash.
  - clear. induction k; simpl; constructor; [split; discriminate | assumption].
  - eapply Forall_impl; [|exact F]. intros c [[H1 [H2 _]] _]. tauto.
Qed.

Lemma normpath_rel : forall p, absolute p = false ->
  normpath p = path_of (norm_comps false (split_on c_slash p)).
Proof.
  intros p H. unfold normpath. destruct p as [|c p]; [reflexivity|].
  rewrite initial_slashes_rel by assumption. simpl repeat. simpl negb. cbv beta zeta.
  unfold path_of. rewrite app_nil_l.
  destruct (norm_comps_shape (c :: p)) as [ns [k [E F]]]. rewrite E.
  destruct (comps_facts ns k F) as [_ F2].
  destruct (repeat s_dotdot k ++ ns) as [|x l]; [reflexivity|].
  inversion F2 as [|? ? [Hx _] _]; subst.
  remember (join_with c_slash (x :: l)) as j eqn:J.
  simpl is_nil. destruct j; [|reflexivity].
  exfalso. destruct l; simpl in J; [congruence | destruct x; discriminate].
Qed.

Lemma norm_comps_fixed : forall ns k, Forall normalc ns ->
  norm_comps false (split_on c_slash (path_of (repeat s_dotdot k ++ ns))) = repeat s_dotdot k ++ ns.
Proof.
  intros ns k F. unfold path_of. destruct (repeat s_dotdot k ++ ns) as [|x l] eqn:E.
  - reflexivity.
  - simpl is_nil. cbv iota. rewrite <- E. destruct (comps_facts ns k F) as [F1 F2].
    rewrite split_join by (first [assumption | rewrite E; discriminate]).
    unfold norm_comps. rewrite fold_shape_id by (assumption || (left; reflexivity)).
    rewrite app_nil_r, rev_app_distr, rev_involutive, repeat_rev. reflexivity.
Qed.

Lemma path_of_rel : forall ns k, Forall normalc ns -> absolute (path_of (repeat s_dotdot k ++ ns)) = false.
Proof.
  intros ns k F. unfold path_of. destruct (repeat s_dotdot k ++ ns) as [|x l] eqn:E; [reflexivity|].
  destruct (comps_facts ns k F) as [F1 F2]. rewrite E in F1, F2. inversion F1; subst. inversion F2 as [|? ? [Hx _] _]; subst.
  simpl is_nil. cbv iota. destruct x as [|a x]; [congruence|].
  assert (a <> c_slash) by (intro; subst; apply H1; left; reflexivity).
  destruct l; simpl; apply N.eqb_neq; assumption.
Qed.

Theorem normpath_idem_rel : forall p, absolute p = false -> normpath (normpath p) = normpath p.
Proof.
  intros p H. rewrite (normpath_rel p H).
  destruct (norm_comps_shape p) as [ns [k [E F]]]. rewrite E.
  rewrite normpath_rel by (apply path_of_rel; assumption).
  rewrite norm_comps_fixed by assumption. reflexivity.
Qed.

Lemma normpath_rel_abs : forall p, absolute p = false -> absolute (normpath p) = false.
Proof.
  intros p H. rewrite (normpath_rel p H). destruct (norm_comps_shape p) as [ns [k [E F]]]. rewrite E.
  apply path_of_rel. assumption.
Qed.

Lemma normpath_nonempty : forall p, normpath p <> [].
Proof.
  intro p. unfold normpath. destruct p; [discriminate|].
  match goal with |- (if is_nil ?r then _ else _) <> _ => destruct r eqn:E end; simpl; [discriminate|discriminate].
Qed.

(** ** one more component: what os.walk + normpath(join(base, name)) produce *)
Definition child (p n : str) : str := if eqs p s_dot then n else p ++ c_slash :: n.

Definition gname (n : str) : Prop := normalc n.

Lemma good_name_gname : forall n, good_name n = true -> gname n.
Proof.
  intros n H. unfold good_name in H.
  apply andb_true_iff in H. destruct H as [H _].
  apply andb_true_iff in H. destruct H as [H Hs].
  apply andb_true_iff in H. destruct H as [H Hdd].
  apply andb_true_iff in H. destruct H as [Hn Hd].
  apply negb_true_iff in Hn, Hd, Hdd, Hs.
  split; [split; [apply is_nil_false; assumption | split; [apply eqs_neq; assumption|]] | apply eqs_neq; assumption].
  apply existsb_slash_false. assumption.
Qed.

(** a walk base: relative, non-empty, not ending in a slash *)
Definition base_ok (b : str) : Prop := b <> [] /\ absolute b = false /\ ends_with_c c_slash b = false.

Lemma ends_with_app : forall c a x b, ends_with_c c (a ++ x :: b) = ends_with_c c (x :: b).
Proof.
  induction a as [|y a IH]; intros x b; [reflexivity|].
  simpl app. change (ends_with_c c (y :: a ++ x :: b)) with
    (match a ++ x :: b with [] => N.eqb y c | _ :: _ => ends_with_c c (a ++ x :: b) end).
  destruct (a ++ x :: b) eqn:E; [destruct a; discriminate|]. rewrite <- E. apply IH.
Qed.

Lemma ends_with_noslash : forall n, n <> [] -> noslash n -> ends_with_c c_slash n = false.
Proof.
  induction n as [|x n IH]; intros H1 H2; [congruence|].
  destruct n as [|y n].
  - simpl. apply N.eqb_neq. intro; subst. apply H2. left. reflexivity.
  - change (ends_with_c c_slash (x :: y :: n)) with (ends_with_c c_slash (y :: n)).
    apply IH; [discriminate | intro; apply H2; right; assumption].
Qed.

Lemma join_base : forall b n, base_ok b -> gname n -> join b n = b ++ c_slash :: n.
Proof.
  intros b n [B1 [B2 B3]] [[N1 [N2 N3]] N4]. unfold join.
  assert (absolute n = false).
  { destruct n as [|x n]; [reflexivity|]. simpl. apply N.eqb_neq. intro; subst. apply N3. left. reflexivity. }
  rewrite H. apply is_nil_false in B1. rewrite B1, B3. reflexivity.
Qed.

Lemma base_ok_join : forall b n, base_ok b -> gname n -> base_ok (join b n).
Proof.
  intros b n B G. rewrite join_base by assumption. destruct B as [B1 [B2 B3]]. destruct G as [[N1 [N2 N3]] N4].
  split; [destruct b; discriminate|]. split.
  - destruct b; [congruence|]. exact B2.
  - rewrite ends_with_app. destruct n as [|x n]; [congruence|].
    change (ends_with_c c_slash (c_slash :: x :: n)) with (ends_with_c c_slash (x :: n)).
    apply ends_with_noslash; [discriminate|assumption].
Qed.

Theorem normpath_child : forall b n, base_ok b -> gname n ->
  normpath (join b n) = child (normpath b) n.
Proof.
  intros b n B G. rewrite join_base by assumption.
  assert (A : absolute (b ++ c_slash :: n) = false).
  { destruct B as [B1 [B2 _]]. destruct b; [congruence | exact B2]. }
  rewrite normpath_rel by assumption. destruct B as [B1 [B2 B3]]. rewrite (normpath_rel b B2).
  rewrite split_on_app. rewrite (split_on_noslash n) by (apply normalc_noslash; assumption).
  unfold norm_comps. rewrite fold_left_app. simpl fold_left. rewrite norm_step_normal by assumption.
  simpl rev.
  destruct (norm_comps_shape b) as [ns [k [E F]]]. unfold norm_comps in E. rewrite E.
  unfold path_of, child. destruct (repeat s_dotdot k ++ ns) as [|x l] eqn:E2.
  - simpl. reflexivity.
  - simpl is_nil. cbv iota.
    assert (NE : (x :: l) ++ [n] <> []) by (destruct l; discriminate).
    destruct ((x :: l) ++ [n]) eqn:E3; [congruence|]. simpl is_nil. cbv iota. rewrite <- E3.
    rewrite join_with_snoc by discriminate.
    destruct (comps_facts ns k F) as [_ F2]. rewrite E2 in F2.
    assert (J : join_with c_slash (x :: l) <> s_dot) by (apply join_not_dot; [discriminate|assumption]).
    apply eqs_neq in J. rewrite J. reflexivity.
Qed.

Lemma base_ok_normpath : forall p, absolute p = false -> base_ok (normpath p).
Proof.
  intros p H. split; [apply normpath_nonempty|]. split; [apply normpath_rel_abs; assumption|].
  rewrite (normpath_rel p H). destruct (norm_comps_shape p) as [ns [k [E F]]]. rewrite E.
  unfold path_of. destruct (repeat s_dotdot k ++ ns) as [|x l] eqn:E2; [reflexivity|].
  simpl is_nil. cbv iota. rewrite <- E2.
  destruct (comps_facts ns k F) as [F1 F2]. rewrite E2 in *. clear E2 E.
  revert x F1 F2. induction l as [|y l IH]; intros x F1 F2.
  - simpl. inversion F1; inversion F2; subst. apply ends_with_noslash; tauto.
  - change (join_with c_slash (x :: y :: l)) with (x ++ c_slash :: join_with c_slash (y :: l)).
    inversion F1; inversion F2; subst.
    destruct (join_with c_slash (y :: l)) as [|z r] eqn:J.
    + exfalso. destruct l; simpl in J.
      * inversion H7 as [|? ? [Hy _] _]; subst. congruence.
      * destruct y; discriminate.
    + rewrite ends_with_app.
      change (ends_with_c c_slash (c_slash :: z :: r)) with (ends_with_c c_slash (z :: r)).
      rewrite <- J. apply IH; assumption.
Qed.

(* ------------------------------------------------------------------ *)
(** * resolution *)
Section R.
  Variable root : entries.

  Lemma resolve_eq : forall fuel loc cs,
    resolve root fuel loc cs =
    match cs with
    | [] => RDir loc
    | c :: rest =>
        if is_nil c || eqs c s_dot then resolve root fuel loc rest
        else if eqs c s_dotdot then
          match loc with [] => ROutside | _ => resolve root fuel (removelast loc) rest end
        else
          match get_dir root loc with
          | None => RNone
          | Some es =>
              match lookup c es with
              | None => RNone
              | Some (File content) => if is_nil rest then RFile content else RNone
              | Some (Dir _) => resolve root fuel (loc ++ [c]) rest
              | Some (Symlink t) =>
                  match fuel with
                  | O => RDiverge
                  | S f =>
                      if is_nil t then RNone
                      else if absolute t then ROutside
                      else resolve root f loc (split_on c_slash t ++ rest)
                  end
              end
          end
    end.
  Proof. intros fuel loc cs. destruct fuel; destruct cs; reflexivity. Qed.

  Lemma resolve_mono : forall f loc cs r,
    resolve root f loc cs = r -> r <> RDiverge -> forall f', f <= f' -> resolve root f' loc cs = r.
  Proof.
    induction f as [|f IHf]; intros loc cs; revert loc.
    - induction cs as [|c rest IH]; intros loc r H Hr f' Hle; rewrite resolve_eq in *; [assumption|].
      destruct (is_nil c || eqs c s_dot); [eapply IH; eauto|].
      destruct (eqs c s_dotdot); [destruct loc; [assumption | eapply IH; eauto]|].
      destruct (get_dir root loc); [|assumption].
      destruct (lookup c e) as [[?|?|?]|]; try assumption; [eapply IH; eauto | congruence].
    - induction cs as [|c rest IH]; intros loc r H Hr f' Hle; rewrite resolve_eq in *; [assumption|].
      destruct (is_nil c || eqs c s_dot); [eapply IH; eauto|].
      destruct (eqs c s_dotdot); [destruct loc; [assumption | eapply IH; eauto]|].
      destruct (get_dir root loc); [|assumption].
      destruct (lookup c e) as [[?|?|t]|]; try assumption; [eapply IH; eauto|].
      destruct f' as [|f']; [lia|].
      destruct (is_nil t); [assumption|]. destruct (absolute t); [assumption|].
      eapply IHf; eauto. lia.
  Qed.

  (** two terminating resolutions of the same path agree *)
  Lemma resolve_det : forall f1 f2 loc cs r1 r2,
    resolve root f1 loc cs = r1 -> resolve root f2 loc cs = r2 -> r1 <> RDiverge -> r2 <> RDiverge -> r1 = r2.
  Proof.
    intros f1 f2 loc cs r1 r2 H1 H2 N1 N2.
    pose proof (resolve_mono _ _ _ _ H1 N1 (max f1 f2) (Nat.le_max_l _ _)) as A.
    pose proof (resolve_mono _ _ _ _ H2 N2 (max f1 f2) (Nat.le_max_r _ _)) as B. congruence.
  Qed.

  Lemma get_dir_snoc : forall loc es n es',
    get_dir root loc = Some es -> lookup n es = Some (Dir es') -> get_dir root (loc ++ [n]) = Some es'.
  Proof.
    intros loc. generalize root. induction loc as [|x loc IH]; intros r es n es' H L; simpl in *.
    - inversion H; subst. rewrite L. reflexivity.
    - destruct (lookup x r) as [[?|e|?]|]; try discriminate. eapply IH; eauto.
  Qed.

  (** the stat of one entry name *)
  Lemma resolve_entry : forall fuel loc es n node,
    get_dir root loc = Some es -> gname n -> lookup n es = Some node ->
    resolve root fuel loc [n] =
    match node with
    | File c => RFile c
    | Dir _ => RDir (loc ++ [n])
    | Symlink t =>
        match fuel with
        | O => RDiverge
        | S f => if is_nil t then RNone else if absolute t then ROutside
                 else resolve root f loc (split_on c_slash t)
        end
    end.
  Proof.
    intros fuel loc es n node G [[N1 [N2 _]] N4] L. rewrite resolve_eq.
    apply is_nil_false in N1. apply eqs_neq in N2, N4. rewrite N1, N2, N4, G, L. simpl.
    destruct node; [reflexivity | rewrite resolve_eq; reflexivity |].
    destruct fuel; [reflexivity|]. rewrite app_nil_r. reflexivity.
  Qed.

  Lemma resolve_entry_missing : forall fuel loc es n,
    get_dir root loc = Some es -> gname n -> lookup n es = None -> resolve root fuel loc [n] = RNone.
  Proof.
    intros fuel loc es n G [[N1 [N2 _]] N4] L. rewrite resolve_eq.
    apply is_nil_false in N1. apply eqs_neq in N2, N4. rewrite N1, N2, N4, G, L. reflexivity.
  Qed.
End R.

(* ------------------------------------------------------------------ *)
(** * association lists with distinct keys *)
Lemma nodup_str_NoDup : forall l, nodup_str l = true <-> NoDup l.
Proof.
  induction l as [|x l IH]; simpl.
  - split; [constructor | reflexivity].
  - rewrite andb_true_iff, negb_true_iff, mem_str_false, IH. split.
    + intros [A B]. constructor; assumption.
    + intro H. inversion H; subst. tauto.
Qed.

Lemma lookup_In : forall {A} k (l : list (str * A)) v, lookup k l = Some v -> In (k, v) l.
Proof.
  induction l as [|[k' v'] l IH]; intros v H; simpl in *; [discriminate|].
  destruct (eqs k k') eqn:E.
  - apply eqs_eq in E. inversion H; subst. left. reflexivity.
  - right. apply IH. assumption.
Qed.

Lemma In_lookup : forall {A} k (l : list (str * A)) v, NoDup (map fst l) -> In (k, v) l -> lookup k l = Some v.
Proof.
  induction l as [|[k' v'] l IH]; intros v N H; simpl in *; [contradiction|].
  inversion N; subst. destruct H as [H|H].
  - inversion H; subst. rewrite eqs_refl. reflexivity.
  - destruct (eqs k k') eqn:E.
    + apply eqs_eq in E. subst. exfalso. apply H2. change k' with (fst (k', v)). apply in_map. assumption.
    + apply IH; assumption.
Qed.

Lemma lookup_None : forall {A} k (l : list (str * A)), lookup k l = None <-> ~ In k (map fst l).
Proof.
  induction l as [|[k' v'] l IH]; simpl; [tauto|].
  destruct (eqs k k') eqn:E.
  - apply eqs_eq in E. subst. split; [discriminate | intro H; exfalso; apply H; left; reflexivity].
  - apply eqs_neq in E. rewrite IH. split; [intros H [X|X]; [congruence|tauto] | tauto].
Qed.

(* ------------------------------------------------------------------ *)
(** * well-formed trees *)
Definition dir_ok (es : entries) : Prop := NoDup (map fst es) /\ forall n, In n (map fst es) -> gname n.
Definition wf_tree (root : entries) : Prop := forall loc es, get_dir root loc = Some es -> dir_ok es.

Lemma wf_node_dir : forall es, wf_node (Dir es) = true ->
  dir_ok es /\ forall n c, In (n, c) es -> wf_node c = true.
Proof.
  intros es H. simpl in H. apply andb_true_iff in H. destruct H as [H1 H2].
  apply nodup_str_NoDup in H1. split; [split; [assumption|]|].
  - clear H1. induction es as [|[k c] es IH]; simpl; [tauto|].
    apply andb_true_iff in H2. destruct H2 as [H2 H3]. apply andb_true_iff in H2. destruct H2 as [H2 _].
    intros n [E|E]; [subst; apply good_name_gname; assumption | apply IH; assumption].
  - clear H1. induction es as [|[k c] es IH]; simpl; [tauto|].
    apply andb_true_iff in H2. destruct H2 as [H2 H3]. apply andb_true_iff in H2. destruct H2 as [_ H2].
    intros n c0 [E|E]; [inversion E; subst; assumption | eapply IH; eauto].
Qed.

Theorem wf_fs_tree : forall root, wf_fs root = true -> wf_tree root.
Proof.
  unfold wf_fs, wf_tree. intros root H loc. revert root H.
  induction loc as [|x loc IH]; intros root H es G; simpl in G.
  - inversion G; subst. apply wf_node_dir. assumption.
  - destruct (lookup x root) as [[?|e|?]|] eqn:L; try discriminate.
    apply (IH e); [|assumption]. apply wf_node_dir in H. destruct H as [_ H].
    eapply H. apply lookup_In. eassumption.
Qed.
