(** StreamsProofs.v — lemmas for C13 (Model/Streams.v):
    chunk-boundary independence of the incremental UTF-8 decoder and of the universal-newlines decoder,
    the loop invariant  acc ++ held = translate(decode(prefix read)),  exactness, timeout, cleanup. *)
From Coq Require Import List NArith ZArith Bool Lia.
From InToto.Model Require Import Base Utf8 Streams.
Import ListNotations.
Local Open Scope N_scope.

(* ------------------------------------------------------------------------------------------ *)
(** * A. incremental UTF-8: feeding is a fold, so chunk boundaries do not matter *)

Lemma u8_feed_app : forall a b p,
  u8_feed p (a ++ b) =
  match u8_feed p a with
  | None => None
  | Some (p', t) => match u8_feed p' b with
                    | None => None
                    | Some (p'', t') => Some (p'', t ++ t')
                    end
  end.
Proof.
  induction a as [|x a IH]; intros b p.
  - cbn [app u8_feed]. destruct (u8_feed p b) as [[p'' t']|]; reflexivity.
  - cbn [app u8_feed]. destruct (u8_step p x) as [[p1 e]|]; [|reflexivity].
    rewrite IH. destruct (u8_feed p1 a) as [[p2 t]|]; [|reflexivity].
    destruct (u8_feed p2 b) as [[p3 t']|]; [|reflexivity].
    rewrite app_assoc. reflexivity.
Qed.

(** a state the decoder can be in: re-decoding the held bytes from scratch holds them again *)
Definition pend_ok (p : bytes) : Prop := u8_feed [] p = Some (p, []).

Lemma pend_ok_nil : pend_ok [].
Proof. reflexivity. Qed.

Lemma u8_step_shape : forall p b p' e,
  u8_step p b = Some (p', e) -> (p' = [] /\ exists c, e = [c]) \/ (p' = p ++ [b] /\ e = []).
Proof.
  intros p b p' e H. unfold u8_step in H.
  destruct p as [|l [|b1 [|b2 [|b3 p]]]];
    repeat match type of H with
    | (if ?c then _ else _) = _ => destruct c
    end; inversion H; subst; eauto.
Qed.

Lemma pend_ok_step : forall p b p' e, pend_ok p -> u8_step p b = Some (p', e) -> pend_ok p'.
Proof.
  intros p b p' e Hp H. destruct (u8_step_shape _ _ _ _ H) as [[-> _]|[-> ->]].
  - apply pend_ok_nil.
  - unfold pend_ok. rewrite u8_feed_app. rewrite Hp. cbn [u8_feed]. rewrite H. reflexivity.
Qed.

Lemma pend_ok_feed : forall bs p p' t, pend_ok p -> u8_feed p bs = Some (p', t) -> pend_ok p'.
Proof.
  induction bs as [|b bs IH]; intros p p' t Hp H; cbn [u8_feed] in H.
  - inversion H; subst. exact Hp.
  - destruct (u8_step p b) as [[p1 e]|] eqn:E; [|discriminate].
    destruct (u8_feed p1 bs) as [[p2 t2]|] eqn:F; [|discriminate].
    inversion H; subst. eapply IH; [eapply pend_ok_step; eassumption | eassumption].
Qed.

(** [data = self.buffer + input] re-decodes the held bytes: same as continuing from the state *)
Lemma utf8_step_feed : forall p c, pend_ok p -> utf8_step p c = u8_feed p c.
Proof.
  intros p c Hp. unfold utf8_step. rewrite u8_feed_app, Hp.
  destruct (u8_feed p c) as [[p' t]|]; reflexivity.
Qed.

(** KEY LEMMA (UTF-8): decoding [a ++ b] in one go = decoding [a], then [b] with the state left by [a] *)
Theorem utf8_step_app : forall p a b, pend_ok p ->
  utf8_step p (a ++ b) =
  match utf8_step p a with
  | None => None
  | Some (p', t) => match utf8_step p' b with
                    | None => None
                    | Some (p'', t') => Some (p'', t ++ t')
                    end
  end.
Proof.
  intros p a b Hp. rewrite !utf8_step_feed by exact Hp. rewrite u8_feed_app.
  destruct (u8_feed p a) as [[p' t]|] eqn:E; [|reflexivity].
  rewrite utf8_step_feed by (eapply pend_ok_feed; eassumption). reflexivity.
Qed.

Lemma utf8_step_pend_ok : forall p c p' t, pend_ok p -> utf8_step p c = Some (p', t) -> pend_ok p'.
Proof.
  intros p c p' t Hp H. rewrite utf8_step_feed in H by exact Hp. eapply pend_ok_feed; eassumption.
Qed.

(** an error is permanent: no continuation of an invalid prefix is valid *)
Lemma u8_feed_none_app : forall a b p, u8_feed p a = None -> u8_feed p (a ++ b) = None.
Proof. intros a b p H. rewrite u8_feed_app, H. reflexivity. Qed.

(* ------------------------------------------------------------------------------------------ *)
(** * B. universal newlines *)

(** the eager machine: [cr] = the previous character was CR (already turned into LF) *)
Fixpoint nlm (cr : bool) (s : str) : str :=
  match s with
  | [] => []
  | c :: t =>
      if c =? 13 then 10 :: nlm true t
      else if c =? 10 then (if cr then nlm false t else 10 :: nlm false t)
      else c :: nlm false t
  end.

Fixpoint nlm_end (cr : bool) (s : str) : bool :=
  match s with
  | [] => cr
  | c :: t => nlm_end (c =? 13) t
  end.

Lemma nlm_true_cons : forall d r, (d =? 10) = false -> nlm true (d :: r) = nlm false (d :: r).
Proof. intros d r H. cbn [nlm]. rewrite H. reflexivity. Qed.

Lemma replace_c_cons : forall x l, replace_c 13 10 (x :: l) = (if x =? 13 then 10 else x) :: replace_c 13 10 l.
Proof. reflexivity. Qed.

Lemma replace_crlf_cons : forall c t, replace_crlf (c :: t) =
  if c =? 13 then match t with
                  | d :: r => if d =? 10 then 10 :: replace_crlf r else c :: replace_crlf t
                  | [] => [c]
                  end
  else c :: replace_crlf t.
Proof. reflexivity. Qed.

Lemma translate_nlm_aux : forall s, translate s = nlm false s /\ forall c, translate (c :: s) = nlm false (c :: s).
Proof.
  unfold translate.
  induction s as [|d r [IH1 IH2]].
  - split; [reflexivity|]. intro c. cbn [replace_crlf nlm].
    destruct (c =? 13) eqn:E13.
    + rewrite replace_c_cons, E13. reflexivity.
    + rewrite replace_c_cons, E13. destruct (c =? 10) eqn:E10; [|reflexivity].
      apply N.eqb_eq in E10. subst. reflexivity.
  - split; [apply IH2|]. intro c.
    rewrite (replace_crlf_cons c (d :: r)). destruct (c =? 13) eqn:E13.
    + destruct (d =? 10) eqn:E10.
      * apply N.eqb_eq in E10. subst d.
        rewrite replace_c_cons. change (10 =? 13) with false. cbv iota.
        cbn [nlm]. rewrite E13. change (10 =? 13) with false. change (10 =? 10) with true. cbv iota.
        f_equal. exact IH1.
      * rewrite replace_c_cons, E13, (IH2 d). cbn [nlm]. rewrite E13. f_equal.
        destruct (d =? 13) eqn:D13; [reflexivity|]. rewrite E10. reflexivity.
    + rewrite replace_c_cons, E13, (IH2 d). cbn [nlm]. rewrite E13.
      destruct (c =? 10) eqn:E10; [|reflexivity].
      apply N.eqb_eq in E10. subst. reflexivity.
Qed.

(** the whole-text translation (replace CRLF, then CR) is what the machine computes *)
Lemma translate_nlm : forall s, translate s = nlm false s.
Proof. intro s. apply translate_nlm_aux. Qed.

Lemma nlm_app : forall a b cr, nlm cr (a ++ b) = nlm cr a ++ nlm (nlm_end cr a) b.
Proof.
  induction a as [|c a IH]; intros b cr; [reflexivity|].
  cbn [app nlm nlm_end]. destruct (c =? 13) eqn:E13.
  - rewrite IH. reflexivity.
  - destruct (c =? 10); [destruct cr|]; rewrite IH; reflexivity.
Qed.

Lemma nlm_end_app : forall a b cr, nlm_end cr (a ++ b) = nlm_end (nlm_end cr a) b.
Proof. induction a as [|c a IH]; intros b cr; [reflexivity|]. cbn [app nlm_end]. apply IH. Qed.

Lemma ends_with_c_snoc : forall s, ends_with_c 13 s = true -> s = removelast s ++ [13].
Proof.
  induction s as [|c s IH]; intro H; [discriminate|].
  destruct s as [|d s].
  - cbn in H. apply N.eqb_eq in H. subst. reflexivity.
  - change (ends_with_c 13 (c :: d :: s)) with (ends_with_c 13 (d :: s)) in H.
    change (removelast (c :: d :: s)) with (c :: removelast (d :: s)).
    cbn [app]. f_equal. apply IH. exact H.
Qed.

Lemma nlm_end_ends : forall s cr, s <> [] -> nlm_end cr s = ends_with_c 13 s.
Proof.
  induction s as [|c s IH]; intros cr H; [congruence|].
  destruct s as [|d s]; [reflexivity|].
  change (nlm_end cr (c :: d :: s)) with (nlm_end (c =? 13) (d :: s)).
  change (ends_with_c 13 (c :: d :: s)) with (ends_with_c 13 (d :: s)).
  apply IH. discriminate.
Qed.

Definition held (p : bool) : str := if p then [10] else [].

(** what one call of the Python decoder does, in terms of the machine: the text it returns plus the CR it
    holds back is what the machine had emitted; its flag is the machine state *)
Lemma nl_decode_spec : forall p o final t p',
  nl_decode p o final = (t, p') ->
  held p ++ nlm p o = t ++ held p' /\ p' = (if final then false else nlm_end p o).
Proof.
  intros p o final t p' H. unfold nl_decode in H.
  destruct p.
  - (* a CR is held *)
    destruct o as [|c o].
    + destruct final; cbn in H; inversion H; subst; split; reflexivity.
    + cbn [andb negb is_nil orb] in H.
      assert (A : held true ++ nlm true (c :: o) = nlm false (13 :: c :: o)) by reflexivity.
      rewrite A.
      destruct (ends_with_c 13 (13 :: c :: o) && negb final) eqn:E.
      * apply andb_true_iff in E. destruct E as [E1 E2]. apply negb_true_iff in E2. subst final.
        inversion H; subst. rewrite translate_nlm.
        rewrite (ends_with_c_snoc _ E1) at 1. rewrite nlm_app. cbn [nlm]. split; [reflexivity|].
        rewrite (nlm_end_ends (c :: o)) by discriminate. symmetry. exact E1.
      * inversion H; subst. rewrite translate_nlm. cbn [held]. rewrite app_nil_r. split; [reflexivity|].
        destruct final; [reflexivity|]. rewrite andb_true_r in E.
        rewrite (nlm_end_ends (c :: o)) by discriminate. symmetry. exact E.
  - cbn [andb] in H. cbn [held app].
    destruct (ends_with_c 13 o && negb final) eqn:E.
    + apply andb_true_iff in E. destruct E as [E1 E2]. apply negb_true_iff in E2. subst final.
      inversion H; subst. rewrite translate_nlm.
      rewrite (ends_with_c_snoc _ E1) at 1. rewrite nlm_app. cbn [nlm]. split; [reflexivity|].
      destruct o as [|c o]; [discriminate|]. rewrite nlm_end_ends by discriminate. symmetry. exact E1.
    + inversion H; subst. rewrite translate_nlm, app_nil_r. split; [reflexivity|].
      destruct final; [reflexivity|]. rewrite andb_true_r in E.
      destruct o as [|c o]; [reflexivity|]. rewrite nlm_end_ends by discriminate. symmetry. exact E.
Qed.

(** KEY LEMMA (newlines): the texts returned for [a] and then [b], plus the final flush, are the
    translation of [a ++ b] — wherever the boundary falls (between CR and LF included) *)
Theorem nl_decode_app : forall a b ta pa tb pb tf pf,
  nl_decode false a false = (ta, pa) ->
  nl_decode pa b false = (tb, pb) ->
  nl_decode pb [] true = (tf, pf) ->
  ta ++ tb ++ tf = translate (a ++ b).
Proof.
  intros a b ta pa tb pb tf pf Ha Hb Hf.
  apply nl_decode_spec in Ha. destruct Ha as [Ha1 Ha2].
  apply nl_decode_spec in Hb. destruct Hb as [Hb1 Hb2].
  apply nl_decode_spec in Hf. destruct Hf as [Hf1 Hf2]. subst pf. cbn [held nlm] in Hf1.
  rewrite !app_nil_r in Hf1. cbn [held app] in Ha1.
  rewrite translate_nlm, nlm_app, <- Ha2, Ha1, <- app_assoc, Hb1, Hf1. reflexivity.
Qed.

(* ------------------------------------------------------------------------------------------ *)
(** * C. one captured stream *)

Lemma takeN_app : forall {A} (l : list A) n a b, takeN n l = (a, b) -> l = a ++ b.
Proof.
  induction l as [|x l IH]; intros n a b H; cbn [takeN] in H.
  - inversion H; reflexivity.
  - destruct (n =? 0); [inversion H; reflexivity|].
    destruct (takeN (N.pred n) l) as [a' b'] eqn:E. inversion H; subst.
    cbn [app]. f_equal. eapply IH. eassumption.
Qed.

Lemma takeN_nil : forall {A} (l : list A) n b, 0 < n -> takeN n l = ([], b) -> l = [].
Proof.
  intros A l n b Hn H. destruct l as [|x l]; [reflexivity|]. cbn [takeN] in H.
  assert (n =? 0 = false) as E by (apply N.eqb_neq; lia). rewrite E in H.
  destruct (takeN (N.pred n) l). discriminate.
Qed.

(** [w] = everything the child wrote to this stream so far *)
Definition sinv (w : bytes) (s : sstate) : Prop :=
  exists rd o, w = rd ++ unread s /\ u8_feed [] rd = Some (pend s, o) /\
               acc s ++ held (pcr s) = nlm false o /\ pcr s = nlm_end false o.

Definition invalid (w : bytes) : Prop := forall r, u8_feed [] (w ++ r) = None.

Lemma sinv_init : sinv [] s_init.
Proof. exists [], []. repeat split; reflexivity. Qed.

Lemma sinv_append : forall w s b, sinv w s -> sinv (w ++ b) (s_append s b).
Proof.
  intros w s b (rd & o & Hw & Hf & Ha & Hp). exists rd, o. cbn [s_append unread pend acc pcr].
  subst w. rewrite app_assoc. auto.
Qed.

Lemma sinv_pend_ok : forall w s, sinv w s -> pend_ok (pend s).
Proof.
  intros w s (rd & o & _ & Hf & _). eapply pend_ok_feed; [apply pend_ok_nil | exact Hf].
Qed.

(** one non-final read + decode keeps the invariant, or the stream is invalid for good *)
Lemma sinv_read_decode : forall w s n c s1,
  sinv w s -> s_read n s = (c, s1) ->
  match s_decode s1 c false with
  | None => invalid w
  | Some (s2, t) => sinv w s2 /\ unread s = c ++ unread s2 /\ acc s2 = acc s ++ t
  end.
Proof.
  intros w s n c s1 Hinv Hr. pose proof (sinv_pend_ok _ _ Hinv) as Hok.
  destruct Hinv as (rd & o & Hw & Hf & Ha & Hp).
  unfold s_read in Hr. destruct (takeN n (unread s)) as [c' u] eqn:E. inversion Hr; subst c' s1. clear Hr.
  apply takeN_app in E.
  unfold s_decode, utf8_decode_inc. cbn [pend pcr acc unread off].
  rewrite utf8_step_feed by exact Hok.
  destruct (u8_feed (pend s) c) as [[p' o']|] eqn:F.
  - destruct (nl_decode (pcr s) o' false) as [t cr'] eqn:D.
    apply nl_decode_spec in D. destruct D as [D1 D2].
    split; [|split; [exact E | reflexivity]].
    exists (rd ++ c), (o ++ o'). cbn [unread pend acc pcr].
    split; [rewrite <- app_assoc, <- E; exact Hw|].
    split; [rewrite u8_feed_app, Hf, F; reflexivity|].
    rewrite nlm_app, nlm_end_app, <- Hp, <- Ha, <- !app_assoc, D1. split; [reflexivity | exact D2].
  - intro r. subst w. rewrite E, <- !app_assoc, u8_feed_app, Hf, u8_feed_app, F. reflexivity.
Qed.

(** the final read + flush on an exhausted stream yields exactly [text_of w], or the error *)
Lemma sinv_final : forall w s n c s1,
  sinv w s -> unread s = [] -> s_read n s = (c, s1) ->
  match s_decode s1 c true with
  | None => text_of w = None
  | Some (s2, t) => text_of w = Some (acc s2)
  end.
Proof.
  intros w s n c s1 Hinv Hu Hr. pose proof (sinv_pend_ok _ _ Hinv) as Hok.
  destruct Hinv as (rd & o & Hw & Hf & Ha & Hp).
  unfold s_read in Hr. rewrite Hu in Hr. cbn [takeN] in Hr. inversion Hr; subst c s1. clear Hr.
  rewrite Hu, app_nil_r in Hw. subst rd.
  unfold s_decode, utf8_decode_inc. cbn [pend pcr acc unread off].
  rewrite utf8_step_feed by exact Hok. cbn [u8_feed].
  unfold text_of, utf8_decode. rewrite Hf.
  destruct (pend s) as [|x p]; cbn [utf8_final].
  - destruct (nl_decode (pcr s) [] true) as [t cr'] eqn:D.
    apply nl_decode_spec in D. destruct D as [D1 D2]. subst cr'. cbn [held nlm] in D1.
    rewrite !app_nil_r in D1. cbn [acc]. rewrite <- D1, Ha, translate_nlm. reflexivity.
  - reflexivity.
Qed.

(* ------------------------------------------------------------------------------------------ *)
(** * D. both streams, the drain, the loop *)

Definition inv2 (wo we : bytes) (st : state) : Prop := sinv wo (s_out st) /\ sinv we (s_err st).

Definition spec_outcome (rc : Z) (wo we : bytes) : outcome :=
  match text_of wo, text_of we with
  | Some a, Some b => Done rc a b
  | _, _ => DecodeErr
  end.

Lemma invalid_text_of : forall w r, invalid w -> text_of (w ++ r) = None.
Proof. intros w r H. unfold text_of, utf8_decode. rewrite (H r). reflexivity. Qed.

Lemma spec_outcome_invalid : forall rc wo we ro re,
  invalid wo \/ invalid we -> spec_outcome rc (wo ++ ro) (we ++ re) = DecodeErr.
Proof.
  intros rc wo we ro re [H|H]; unfold spec_outcome; rewrite (invalid_text_of _ _ H); [reflexivity|].
  destruct (text_of (wo ++ ro)); reflexivity.
Qed.

Definition unread_len (st : state) : nat := (length (unread (s_out st)) + length (unread (s_err st)))%nat.

Lemma dup_nonfinal : forall n st wo we,
  inv2 wo we st ->
  match dup n st false with
  | None => invalid wo \/ invalid we
  | Some (st', more, _) =>
      inv2 wo we st' /\ now st' = now st /\
      (more = true -> (unread_len st' < unread_len st)%nat) /\
      (more = false -> 0 < n -> unread (s_out st') = [] /\ unread (s_err st') = [])
  end.
Proof.
  intros n st wo we [Ho He]. unfold dup.
  destruct (s_read n (s_out st)) as [co so1] eqn:Ro.
  destruct (s_read n (s_err st)) as [ce se1] eqn:Re.
  pose proof (sinv_read_decode _ _ _ _ _ Ho Ro) as Po.
  pose proof (sinv_read_decode _ _ _ _ _ He Re) as Pe.
  destruct (s_decode so1 co false) as [[so2 po]|]; [|left; exact Po].
  destruct (s_decode se1 ce false) as [[se2 pe]|]; [|right; exact Pe].
  destruct Po as (Po1 & Po2 & _). destruct Pe as (Pe1 & Pe2 & _).
  split; [split; assumption|]. split; [reflexivity|]. unfold unread_len. cbn [s_out s_err].
  split.
  - intro M. rewrite Po2, Pe2, !app_length.
    destruct co, ce; cbn [is_nil negb orb] in M; try discriminate; cbn [length]; lia.
  - intros M Hn. apply orb_false_iff in M. destruct M as [M1 M2].
    destruct co; [|discriminate]. destruct ce; [|discriminate].
    unfold s_read in Ro, Re.
    destruct (takeN n (unread (s_out st))) as [a b] eqn:Eo. inversion Ro; subst a.
    destruct (takeN n (unread (s_err st))) as [a' b'] eqn:Ee. inversion Re; subst a'.
    apply takeN_nil in Eo; [|exact Hn]. apply takeN_nil in Ee; [|exact Hn].
    rewrite Eo in Po2. rewrite Ee in Pe2. cbn [app] in Po2, Pe2. split; congruence.
Qed.

Lemma drain_spec : forall fuel n st wo we,
  inv2 wo we st -> 0 < n -> (unread_len st < fuel)%nat ->
  match fst (drain fuel n st) with
  | DrErr => invalid wo \/ invalid we
  | DrFuel => False
  | DrOk st' => inv2 wo we st' /\ unread (s_out st') = [] /\ unread (s_err st') = []
  end.
Proof.
  induction fuel as [|f IH]; intros n st wo we Hinv Hn Hf; [lia|].
  cbn [drain]. pose proof (dup_nonfinal n st wo we Hinv) as D.
  destruct (dup n st false) as [[[st' more] [po pe]]|]; [|exact D].
  destruct D as (D1 & _ & D3 & D4).
  destruct more.
  - specialize (D3 eq_refl).
    specialize (IH n st' wo we D1 Hn ltac:(lia)).
    destruct (drain f n st') as [r fx]. exact IH.
  - cbn [fst]. split; [exact D1 | exact (D4 eq_refl Hn)].
Qed.

Lemma dup_final : forall n st wo we,
  inv2 wo we st -> unread (s_out st) = [] -> unread (s_err st) = [] ->
  match dup n st true with
  | None => text_of wo = None \/ text_of we = None
  | Some (st', _, _) => text_of wo = Some (acc (s_out st')) /\ text_of we = Some (acc (s_err st'))
  end.
Proof.
  intros n st wo we [Ho He] Uo Ue. unfold dup.
  destruct (s_read n (s_out st)) as [co so1] eqn:Ro.
  destruct (s_read n (s_err st)) as [ce se1] eqn:Re.
  pose proof (sinv_final _ _ _ _ _ Ho Uo Ro) as Po.
  pose proof (sinv_final _ _ _ _ _ He Ue Re) as Pe.
  destruct (s_decode so1 co true) as [[so2 po]|]; [|left; exact Po].
  destruct (s_decode se1 ce true) as [[se2 pe]|]; [|right; exact Pe].
  cbn [s_out s_err]. split; assumption.
Qed.

Lemma drain_fuel_enough : forall st, (unread_len st < drain_fuel st)%nat.
Proof. intro st. unfold drain_fuel, unread_len. lia. Qed.

(** the code after the loop records exactly what both files contain *)
Lemma after_exit_spec : forall c st rc wo we,
  inv2 wo we st -> 0 < chunk c -> fst (after_exit c st rc) = spec_outcome rc wo we.
Proof.
  intros c st rc wo we Hinv Hn. unfold after_exit.
  pose proof (drain_spec (drain_fuel st) (chunk c) st wo we Hinv Hn (drain_fuel_enough st)) as D.
  destruct (drain (drain_fuel st) (chunk c) st) as [r fx]. cbn [fst] in D.
  destruct r as [| |st1].
  - cbn [fst]. symmetry.
    rewrite <- (app_nil_r wo), <- (app_nil_r we). apply spec_outcome_invalid. exact D.
  - contradiction.
  - destruct D as (D1 & U1 & U2).
    pose proof (dup_final (chunk c) st1 wo we D1 U1 U2) as F.
    destruct (dup (chunk c) st1 true) as [[[st2 m] [po pe]]|].
    + destruct F as [F1 F2]. cbn [fst]. unfold spec_outcome. rewrite F1, F2. reflexivity.
    + cbn [fst]. unfold spec_outcome. destruct F as [F|F]; rewrite F; [reflexivity|].
      destruct (text_of wo); reflexivity.
Qed.

Lemma inv2_append : forall wo we st s b,
  inv2 wo we st ->
  inv2 (match s with SOut => wo ++ b | SErr => wo end) (match s with SOut => we | SErr => we ++ b end) (st_append st s b).
Proof.
  intros wo we st s b [Ho He]. destruct s; cbn [st_append]; split; cbn [s_out s_err];
    try assumption; apply sinv_append; assumption.
Qed.

(** the invariant through the poll loop: whatever the interleaving of writes, polls and ticks *)
Lemma loop_exact : forall c sched st wo we rc,
  inv2 wo we st -> 0 < chunk c ->
  deadline_hit_from c (now st) sched = false -> exit_code sched = Some rc ->
  fst (loop c st sched) = spec_outcome rc (wo ++ written SOut sched) (we ++ written SErr sched).
Proof.
  intros c sched. induction sched as [|e sched IH]; intros st wo we rc Hinv Hn Hd Hx; [discriminate|].
  destruct e as [s b| |rc'|dt].
  - (* Append *)
    cbn [loop]. cbn [deadline_hit_from exit_code] in Hd, Hx.
    pose proof (inv2_append wo we st s b Hinv) as Hinv'.
    assert (now (st_append st s b) = now st) as Hnow by (destruct s; reflexivity).
    rewrite <- Hnow in Hd.
    rewrite (IH _ _ _ rc Hinv' Hn Hd Hx).
    destruct s; cbn [written]; rewrite <- ?app_assoc; reflexivity.
  - (* Poll *)
    cbn [loop]. cbn [deadline_hit_from exit_code written] in *.
    assert (expired c st = false /\ deadline_hit_from c (now st) sched = false) as [Hexp Hd'].
    { unfold expired. destruct (timeout c) as [lim|]; [|split; [reflexivity | exact Hd]].
      destruct (Z.gtb (now st) (t0 c + lim)); [discriminate | split; [reflexivity | exact Hd]]. }
    rewrite Hexp.
    pose proof (dup_nonfinal (chunk c) st wo we Hinv) as D.
    destruct (dup (chunk c) st false) as [[[st' more] [po pe]]|].
    + destruct D as (D1 & D2 & _). rewrite <- D2 in Hd'.
      specialize (IH st' wo we rc D1 Hn Hd' Hx).
      destruct (loop c st' sched) as [o fx]. exact IH.
    + cbn [fst]. symmetry. apply spec_outcome_invalid. exact D.
  - (* Exit *)
    cbn [loop exit_code written] in *. inversion Hx; subst rc'. rewrite !app_nil_r.
    apply after_exit_spec; assumption.
  - (* Tick *)
    cbn [loop]. cbn [deadline_hit_from exit_code written] in *.
    apply (IH (mkSt (s_out st) (s_err st) (now st + dt)%Z) wo we rc); assumption.
Qed.

Definition env_ok (c : cfg) : bool := popen_ok c && mk1_ok c && mk2_ok c && rm_out_ok c && rm_err_ok c.

Lemma inv2_init : forall c, inv2 [] [] (st_init c).
Proof. intro c. split; apply sinv_init. Qed.

Theorem run_exact : forall c sched rc,
  env_ok c = true -> 0 < chunk c -> deadline_hit c sched = false -> exit_code sched = Some rc ->
  fst (run c sched) = spec_outcome rc (written SOut sched) (written SErr sched).
Proof.
  intros c sched rc He Hn Hd Hx. unfold env_ok in He.
  repeat (apply andb_true_iff in He; destruct He as [He ?]).
  unfold run, body, finally_rm. rewrite H, H0, H1, H2, He. cbn [negb andb].
  pose proof (loop_exact c sched (st_init c) [] [] rc (inv2_init c) Hn Hd Hx) as L.
  destruct (loop c (st_init c) sched) as [o fx]. cbn [fst app] in *. exact L.
Qed.

(* ------------------------------------------------------------------------------------------ *)
(** * E. the time limit *)

Definition prefix_ok (w : bytes) : Prop := u8_feed [] w <> None.

Lemma prefix_ok_not_invalid : forall w r, prefix_ok (w ++ r) -> ~ invalid w.
Proof. intros w r H I. apply H. apply I. Qed.

(** deadline seen by a poll while the child runs => TimeoutExpired after kill and wait
    (unless a decoding error came first; excluded when what was written is decodable so far) *)
Lemma loop_timeout : forall c sched st wo we,
  inv2 wo we st -> deadline_hit_from c (now st) sched = true ->
  prefix_ok (wo ++ written SOut sched) -> prefix_ok (we ++ written SErr sched) ->
  exists pre, loop c st sched = (TimedOut, pre ++ [Kill; Wait]).
Proof.
  intros c sched. induction sched as [|e sched IH]; intros st wo we Hinv Hd Po Pe; [discriminate|].
  destruct e as [s b| |rc'|dt].
  - cbn [loop]. cbn [deadline_hit_from] in Hd.
    pose proof (inv2_append wo we st s b Hinv) as Hinv'.
    assert (now (st_append st s b) = now st) as Hnow by (destruct s; reflexivity).
    rewrite <- Hnow in Hd.
    apply (IH _ _ _ Hinv' Hd); destruct s; cbn [written] in Po, Pe; rewrite <- ?app_assoc; assumption.
  - cbn [loop]. cbn [deadline_hit_from written] in *. unfold expired.
    destruct (timeout c) as [lim|] eqn:T.
    + destruct (Z.gtb (now st) (t0 c + lim)) eqn:G; [exists []; reflexivity|].
      pose proof (dup_nonfinal (chunk c) st wo we Hinv) as D.
      destruct (dup (chunk c) st false) as [[[st' more] [po pe]]|].
      * destruct D as (D1 & D2 & _). rewrite <- D2 in Hd.
        destruct (IH st' wo we D1 Hd Po Pe) as [pre Hpre]. rewrite Hpre.
        exists (Dup po pe :: pre). reflexivity.
      * exfalso. destruct D as [D|D]; [eapply prefix_ok_not_invalid in Po | eapply prefix_ok_not_invalid in Pe]; contradiction.
    + pose proof (dup_nonfinal (chunk c) st wo we Hinv) as D.
      destruct (dup (chunk c) st false) as [[[st' more] [po pe]]|].
      * destruct D as (D1 & D2 & _). rewrite <- D2 in Hd.
        destruct (IH st' wo we D1 Hd Po Pe) as [pre Hpre]. rewrite Hpre.
        exists (Dup po pe :: pre). reflexivity.
      * exfalso. destruct D as [D|D]; [eapply prefix_ok_not_invalid in Po | eapply prefix_ok_not_invalid in Pe]; contradiction.
  - discriminate.
  - cbn [loop]. cbn [deadline_hit_from written] in *.
    apply (IH (mkSt (s_out st) (s_err st) (now st + dt)%Z) wo we); assumption.
Qed.

Lemma dup_now : forall n st f st' m p, dup n st f = Some (st', m, p) -> now st' = now st.
Proof.
  intros n st f st' m p H. unfold dup in H.
  destruct (s_read n (s_out st)) as [co so1]. destruct (s_read n (s_err st)) as [ce se1].
  destruct (s_decode so1 co f) as [[so2 po]|]; [|discriminate].
  destruct (s_decode se1 ce f) as [[se2 pe]|]; [|discriminate].
  inversion H; reflexivity.
Qed.

(** without any assumption on the bytes: the deadline leads to TimeoutExpired or to an earlier UnicodeDecodeError *)
Lemma loop_timeout_weak : forall c sched st,
  deadline_hit_from c (now st) sched = true ->
  fst (loop c st sched) = TimedOut \/ fst (loop c st sched) = DecodeErr.
Proof.
  intros c sched. induction sched as [|e sched IH]; intros st Hd; [discriminate|].
  destruct e as [s b| |rc'|dt].
  - cbn [loop]. cbn [deadline_hit_from] in Hd. apply IH. destruct s; exact Hd.
  - cbn [loop]. cbn [deadline_hit_from] in Hd. unfold expired.
    assert (forall st', now st' = now st -> deadline_hit_from c (now st) sched = true ->
            fst (loop c st' sched) = TimedOut \/ fst (loop c st' sched) = DecodeErr) as K.
    { intros st' E H. rewrite <- E in H. apply IH. exact H. }
    destruct (timeout c) as [lim|].
    + destruct (Z.gtb (now st) (t0 c + lim)); [left; reflexivity|].
      destruct (dup (chunk c) st false) as [[[st' more] [po pe]]|] eqn:D; [|right; reflexivity].
      specialize (K st' (dup_now _ _ _ _ _ _ D) Hd). destruct (loop c st' sched). exact K.
    + destruct (dup (chunk c) st false) as [[[st' more] [po pe]]|] eqn:D; [|right; reflexivity].
      specialize (K st' (dup_now _ _ _ _ _ _ D) Hd). destruct (loop c st' sched). exact K.
  - discriminate.
  - cbn [loop]. cbn [deadline_hit_from] in Hd. apply IH. exact Hd.
Qed.

Lemma after_exit_not_timeout : forall c st rc, fst (after_exit c st rc) <> TimedOut.
Proof.
  intros c st rc. unfold after_exit.
  destruct (drain (drain_fuel st) (chunk c) st) as [[| |st1] fx]; cbn [fst]; try discriminate.
  destruct (dup (chunk c) st1 true) as [[[st2 m] [po pe]]|]; cbn [fst]; discriminate.
Qed.

(** no spurious timeouts: TimeoutExpired only if a poll saw the clock past the limit while the child ran *)
Lemma loop_timeout_only_if : forall c sched st,
  fst (loop c st sched) = TimedOut -> deadline_hit_from c (now st) sched = true.
Proof.
  intros c sched. induction sched as [|e sched IH]; intros st H; [discriminate|].
  destruct e as [s b| |rc'|dt].
  - cbn [loop] in H. cbn [deadline_hit_from]. apply IH in H. destruct s; exact H.
  - cbn [loop] in H. cbn [deadline_hit_from]. unfold expired in H.
    assert (K : forall st', now st' = now st -> fst (loop c st' sched) = TimedOut ->
                deadline_hit_from c (now st) sched = true).
    { intros st' E F. rewrite <- E. apply IH. exact F. }
    destruct (timeout c) as [lim|].
    + destruct (Z.gtb (now st) (t0 c + lim)); [reflexivity|].
      destruct (dup (chunk c) st false) as [[[st' more] [po pe]]|] eqn:D; [|discriminate].
      apply (K st' (dup_now _ _ _ _ _ _ D)). destruct (loop c st' sched). exact H.
    + destruct (dup (chunk c) st false) as [[[st' more] [po pe]]|] eqn:D; [|discriminate].
      apply (K st' (dup_now _ _ _ _ _ _ D)). destruct (loop c st' sched). exact H.
  - cbn [loop] in H. exfalso. eapply after_exit_not_timeout. exact H.
  - cbn [loop] in H. cbn [deadline_hit_from]. apply IH in H. exact H.
Qed.

Theorem run_timeout : forall c sched,
  env_ok c = true -> deadline_hit c sched = true ->
  prefix_ok (written SOut sched) -> prefix_ok (written SErr sched) ->
  exists pre, run c sched = (TimedOut, Mk SOut :: Mk SErr :: Spawn :: pre ++ [Kill; Wait; Rm SOut; Rm SErr]).
Proof.
  intros c sched He Hd Po Pe. unfold env_ok in He.
  repeat (apply andb_true_iff in He; destruct He as [He ?]).
  unfold run, body, finally_rm. rewrite H, H0, H1, H2, He. cbn [negb andb].
  destruct (loop_timeout c sched (st_init c) [] [] (inv2_init c) Hd Po Pe) as [pre L].
  rewrite L. exists pre. cbn [app]. rewrite <- app_assoc. reflexivity.
Qed.

Theorem run_timeout_weak : forall c sched,
  env_ok c = true -> deadline_hit c sched = true ->
  fst (run c sched) = TimedOut \/ fst (run c sched) = DecodeErr.
Proof.
  intros c sched He Hd. unfold env_ok in He.
  repeat (apply andb_true_iff in He; destruct He as [He ?]).
  unfold run, body, finally_rm. rewrite H, H0, H1, H2, He. cbn [negb andb].
  pose proof (loop_timeout_weak c sched (st_init c) Hd) as L.
  destruct (loop c (st_init c) sched) as [o fx]. exact L.
Qed.

Theorem run_timeout_only_if : forall c sched,
  fst (run c sched) = TimedOut -> deadline_hit c sched = true.
Proof.
  intros c sched H. unfold run, body, finally_rm in H.
  destruct (mk1_ok c); [|discriminate]. destruct (mk2_ok c); [|discriminate]. cbn [negb] in H.
  destruct (popen_ok c).
  - pose proof (loop_timeout_only_if c sched (st_init c)) as L.
    destruct (loop c (st_init c) sched) as [o fx]. cbn [fst] in *.
    destruct (rm_out_ok c && rm_err_ok c); [apply L; exact H | discriminate].
  - destruct (rm_out_ok c && rm_err_ok c); discriminate.
Qed.

(* ------------------------------------------------------------------------------------------ *)
(** * F. fuel, cleanup *)

Lemma dup_len : forall n st st' more p, dup n st false = Some (st', more, p) ->
  more = true -> (unread_len st' < unread_len st)%nat.
Proof.
  intros n st st' more p H M. unfold dup in H.
  destruct (s_read n (s_out st)) as [co so1] eqn:Ro. destruct (s_read n (s_err st)) as [ce se1] eqn:Re.
  unfold s_read in Ro, Re.
  destruct (takeN n (unread (s_out st))) as [a b] eqn:Eo. inversion Ro; subst a so1. clear Ro.
  destruct (takeN n (unread (s_err st))) as [a' b'] eqn:Ee. inversion Re; subst a' se1. clear Re.
  apply takeN_app in Eo. apply takeN_app in Ee.
  unfold s_decode in H. cbn [pend pcr acc unread off] in H.
  destruct (utf8_decode_inc (pend (s_out st)) co false) as [[p1 o1]|]; [|discriminate].
  destruct (nl_decode (pcr (s_out st)) o1 false) as [t1 c1].
  destruct (utf8_decode_inc (pend (s_err st)) ce false) as [[p2 o2]|]; [|discriminate].
  destruct (nl_decode (pcr (s_err st)) o2 false) as [t2 c2].
  inversion H; subst. unfold unread_len. cbn [s_out s_err unread]. rewrite Eo, Ee, !app_length.
  destruct co, ce; cbn [is_nil negb orb] in *; try discriminate; cbn [length]; lia.
Qed.

Lemma drain_no_fuel : forall fuel n st, (unread_len st < fuel)%nat -> fst (drain fuel n st) <> DrFuel.
Proof.
  induction fuel as [|f IH]; intros n st Hf; [lia|]. cbn [drain].
  destruct (dup n st false) as [[[st' more] [po pe]]|] eqn:D; [|discriminate].
  destruct more; [|discriminate].
  pose proof (dup_len _ _ _ _ _ D eq_refl) as L.
  specialize (IH n st' ltac:(lia)). destruct (drain f n st'). exact IH.
Qed.

Lemma after_exit_fuel : forall c st rc, fst (after_exit c st rc) <> OutOfFuel.
Proof.
  intros c st rc. unfold after_exit.
  pose proof (drain_no_fuel (drain_fuel st) (chunk c) st (drain_fuel_enough st)) as D.
  destruct (drain (drain_fuel st) (chunk c) st) as [[| |st1] fx]; cbn [fst] in *; try discriminate; try congruence.
  destruct (dup (chunk c) st1 true) as [[[st2 m] [po pe]]|]; discriminate.
Qed.

Lemma loop_fuel : forall c sched st, fst (loop c st sched) <> OutOfFuel.
Proof.
  intros c sched. induction sched as [|e sched IH]; intro st; [discriminate|].
  destruct e as [s b| |rc'|dt]; cbn [loop].
  - apply IH.
  - destruct (expired c st); [discriminate|].
    destruct (dup (chunk c) st false) as [[[st' more] [po pe]]|]; [|discriminate].
    specialize (IH st'). destruct (loop c st' sched). exact IH.
  - apply after_exit_fuel.
  - apply IH.
Qed.

(** the fuel of the drain loop is always enough (for every chunk size, 0 included) *)
Theorem run_never_out_of_fuel : forall c sched, fst (run c sched) <> OutOfFuel.
Proof.
  intros c sched. unfold run, body, finally_rm.
  destruct (mk1_ok c); [|discriminate]. destruct (mk2_ok c); [|discriminate]. cbn [negb].
  destruct (popen_ok c).
  - pose proof (loop_fuel c sched (st_init c)) as L. destruct (loop c (st_init c) sched) as [o fx].
    cbn [fst] in *. destruct (rm_out_ok c && rm_err_ok c); [exact L | discriminate].
  - destruct (rm_out_ok c && rm_err_ok c); discriminate.
Qed.

(** effects of the body never touch the capture files *)
Definition no_file (e : effect) : bool :=
  match e with Mk _ | Rm _ | RmFail _ => false | _ => true end.

Lemma drain_no_file : forall fuel n st, forallb no_file (snd (drain fuel n st)) = true.
Proof.
  induction fuel as [|f IH]; intros n st; [reflexivity|]. cbn [drain].
  destruct (dup n st false) as [[[st' more] [po pe]]|]; [|reflexivity].
  destruct more; [|reflexivity].
  specialize (IH n st'). destruct (drain f n st'). cbn [snd forallb no_file] in *. exact IH.
Qed.

Lemma after_exit_no_file : forall c st rc, forallb no_file (snd (after_exit c st rc)) = true.
Proof.
  intros c st rc. unfold after_exit.
  pose proof (drain_no_file (drain_fuel st) (chunk c) st) as D.
  destruct (drain (drain_fuel st) (chunk c) st) as [[| |st1] fx]; cbn [snd] in *; try exact D.
  destruct (dup (chunk c) st1 true) as [[[st2 m] [po pe]]|]; cbn [snd]; [|exact D].
  rewrite forallb_app, D. reflexivity.
Qed.

Lemma loop_no_file : forall c sched st, forallb no_file (snd (loop c st sched)) = true.
Proof.
  intros c sched. induction sched as [|e sched IH]; intro st; [reflexivity|].
  destruct e as [s b| |rc'|dt]; cbn [loop].
  - apply IH.
  - destruct (expired c st); [reflexivity|].
    destruct (dup (chunk c) st false) as [[[st' more] [po pe]]|]; [|reflexivity].
    specialize (IH st'). destruct (loop c st' sched). cbn [snd forallb no_file] in *. exact IH.
  - apply after_exit_no_file.
  - apply IH.
Qed.

Lemma live_no_file : forall fx rest files, forallb no_file fx = true -> live (fx ++ rest) files = live rest files.
Proof.
  induction fx as [|e fx IH]; intros rest files H; [reflexivity|].
  cbn [forallb] in H. apply andb_true_iff in H. destruct H as [H1 H2].
  destruct e; cbn [no_file] in H1; try discriminate; cbn [app live]; apply IH; exact H2.
Qed.

Lemma created_no_file : forall fx, forallb no_file fx = true -> created fx = [].
Proof.
  induction fx as [|e fx IH]; intro H; [reflexivity|].
  cbn [forallb] in H. apply andb_true_iff in H. destruct H as [H1 H2].
  unfold created in *. cbn [flat_map]. rewrite (IH H2). destruct e; cbn [no_file] in H1; try discriminate; reflexivity.
Qed.

Lemma body_no_file : forall c sched, forallb no_file (snd (body c sched)) = true.
Proof.
  intros c sched. unfold body. destruct (popen_ok c); [|reflexivity].
  pose proof (loop_no_file c sched (st_init c)) as L. destruct (loop c (st_init c) sched). exact L.
Qed.

(** which capture files exist after the call — in EVERY outcome (normal return, TimeoutExpired,
    UnicodeDecodeError, OSError from Popen or mkstemp, schedule cut short): none, unless the operating
    system refused the removal itself *)
Theorem run_cleanup_full : forall c sched,
  live (snd (run c sched)) [] =
  if mk1_ok c && mk2_ok c
  then (if rm_out_ok c then [] else [SOut]) ++ (if rm_err_ok c then [] else [SErr])
  else [].
Proof.
  intros c sched. unfold run, finally_rm.
  destruct (mk1_ok c); [|reflexivity]. destruct (mk2_ok c); [|reflexivity]. cbn [negb andb].
  pose proof (body_no_file c sched) as B. destruct (body c sched) as [o fx]. cbn [snd] in *.
  cbn [live app]. rewrite (live_no_file fx _ _ B).
  destruct (rm_out_ok c), (rm_err_ok c); reflexivity.
Qed.

Theorem run_created : forall c sched,
  created (snd (run c sched)) =
  if mk1_ok c then (if mk2_ok c then [SOut; SErr] else [SOut]) else [].
Proof.
  intros c sched. unfold run, finally_rm.
  destruct (mk1_ok c); [|reflexivity]. destruct (mk2_ok c); [|reflexivity]. cbn [negb].
  pose proof (body_no_file c sched) as B. destruct (body c sched) as [o fx]. cbn [snd] in *.
  unfold created in *. cbn [flat_map app]. rewrite flat_map_app.
  change (flat_map (fun e => match e with Mk s => [s] | _ => [] end) fx) with (created fx).
  rewrite (created_no_file fx B).
  destruct (rm_out_ok c), (rm_err_ok c); reflexivity.
Qed.

(** the statement of C13_exact, unfolded from [run_exact] *)
Theorem run_exact_cases : forall c sched rc,
  env_ok c = true -> 0 < chunk c -> exit_code sched = Some rc -> deadline_hit c sched = false ->
  (forall tout terr, text_of (written SOut sched) = Some tout -> text_of (written SErr sched) = Some terr ->
     fst (run c sched) = Done rc tout terr) /\
  (text_of (written SOut sched) = None \/ text_of (written SErr sched) = None ->
     fst (run c sched) = DecodeErr).
Proof.
  intros c sched rc He Hn Hx Hd. rewrite (run_exact c sched rc He Hn Hd Hx). unfold spec_outcome. split.
  - intros tout terr -> ->. reflexivity.
  - intros [-> | ->]; [reflexivity|]. destruct (text_of (written SOut sched)); reflexivity.
Qed.

Theorem run_env_fault : forall c sched,
  env_ok c = false ->
  (mk1_ok c && mk2_ok c && popen_ok c = false -> fst (run c sched) = OsErr) /\
  (rm_out_ok c && rm_err_ok c = false -> fst (run c sched) = OsErr).
Proof.
  intros c sched _. unfold run, body, finally_rm. split; intro H.
  - destruct (mk1_ok c); [|reflexivity]. destruct (mk2_ok c); [|reflexivity]. cbn [andb negb] in *.
    rewrite H. destruct (rm_out_ok c && rm_err_ok c); reflexivity.
  - destruct (mk1_ok c); [|reflexivity]. destruct (mk2_ok c); [|reflexivity]. cbn [negb].
    destruct (if popen_ok c then _ else _) as [o fx]. rewrite H. reflexivity.
Qed.

Theorem execute_link_norecord : forall c sched r,
  execute_link false c sched r =
  match r with RunDone rc => (Done rc [] [], []) | RunTimeout => (TimedOut, []) | RunOsErr => (OsErr, []) end.
Proof. reflexivity. Qed.

Theorem execute_link_record : forall c sched r, execute_link true c sched r = run c sched.
Proof. reflexivity. Qed.
