(** RuleProofs.v — declarative grammar of artifact rules and the lemmas behind C17. *)
From InToto.Model Require Import Base Json Rule.

(** The documented grammar, written independently of the parser:
      (CREATE|MODIFY|DELETE|ALLOW|DISALLOW|REQUIRE) <pattern>
      MATCH <pattern> [IN <src>] WITH (MATERIALS|PRODUCTS) [IN <dst>] FROM <step>
    keywords case-insensitive, operands verbatim. *)
Inductive parses : list str -> meaning -> Prop :=
| P_generic t p k :
    kw_generic (lower t) = Some k ->
    parses [t; p] (Generic k p)
| P_match_plain t p w d f s d' :
    lower t = k_match -> lower w = k_with -> kw_dst (lower d) = Some d' -> lower f = k_from ->
    parses [t; p; w; d; f; s] (Match p [] d' [] s)
| P_match_src t p i sp w d f s d' :
    lower t = k_match -> lower i = k_in -> lower w = k_with -> kw_dst (lower d) = Some d' -> lower f = k_from ->
    parses [t; p; i; sp; w; d; f; s] (Match p sp d' [] s)
| P_match_dst t p w d i dp f s d' :
    lower t = k_match -> lower w = k_with -> kw_dst (lower d) = Some d' -> lower i = k_in -> lower f = k_from ->
    parses [t; p; w; d; i; dp; f; s] (Match p [] d' dp s)
| P_match_both t p i sp w d i' dp f s d' :
    lower t = k_match -> lower i = k_in -> lower w = k_with -> kw_dst (lower d) = Some d' ->
    lower i' = k_in -> lower f = k_from ->
    parses [t; p; i; sp; w; d; i'; dp; f; s] (Match p sp d' dp s).

Lemma is_kw_true : forall k t, is_kw k t = true <-> lower t = k.
Proof. intros. unfold is_kw. apply eqs_eq. Qed.

Lemma all_strs_map : forall r, all_strs (map JStr r) = Some r.
Proof. induction r as [|x r IH]; simpl; [reflexivity | rewrite IH; reflexivity]. Qed.

Lemma all_strs_inv : forall l r, all_strs l = Some r -> l = map JStr r.
Proof.
  induction l as [|x l IH]; intros r H; simpl in H.
  - inversion H. reflexivity.
  - destruct x; try discriminate. destruct (all_strs l) eqn:E; try discriminate.
    inversion H; subst. simpl. f_equal. apply IH. reflexivity.
Qed.

Ltac kw_split :=
  repeat match goal with
  | H : (_ && _)%bool = true |- _ => apply andb_true_iff in H; destruct H
  | H : is_kw _ _ = true |- _ => apply is_kw_true in H
  end.

(** soundness: whatever the parser returns is a parse of the grammar *)
Lemma unpack_tokens_sound : forall r m, unpack_tokens r = Ok m -> parses r m.
Proof.
  intros r m H.
  destruct r as [|t0 [|p rest]]; try discriminate.
  unfold unpack_tokens in H.
  destruct (kw_generic (lower t0)) as [k|] eqn:Ek.
  - destruct rest; try discriminate. inversion H; subst. constructor. assumption.
  - destruct (is_kw k_match t0) eqn:Em; try discriminate.
    apply is_kw_true in Em.
    destruct rest as [|a2 [|a3 [|a4 [|a5 [|a6 [|a7 [|a8 [|a9 [|a10 rest]]]]]]]]]; try discriminate.
    + (* length 6 *)
      destruct (is_kw k_with a2 && is_kw k_from a4)%bool eqn:E1; try discriminate.
      destruct (kw_dst (lower a3)) eqn:Ed; try discriminate.
      inversion H; subst. kw_split. constructor; assumption.
    + (* length 8 *)
      destruct (is_kw k_in a2 && is_kw k_with a4 && is_kw k_from a6)%bool eqn:E1.
      * destruct (kw_dst (lower a5)) eqn:Ed; try discriminate.
        inversion H; subst. kw_split. constructor; assumption.
      * destruct (is_kw k_with a2 && is_kw k_in a4 && is_kw k_from a6)%bool eqn:E2; try discriminate.
        destruct (kw_dst (lower a3)) eqn:Ed; try discriminate.
        inversion H; subst. kw_split. constructor; assumption.
    + (* length 10 *)
      destruct (is_kw k_in a2 && is_kw k_with a4 && is_kw k_in a6 && is_kw k_from a8)%bool eqn:E1; try discriminate.
      destruct (kw_dst (lower a5)) eqn:Ed; try discriminate.
      inversion H; subst. kw_split. constructor; assumption.
Qed.

Lemma kw_generic_match : kw_generic k_match = None.
Proof. reflexivity. Qed.

(** completeness: every parse of the grammar is what the parser returns *)
Lemma unpack_tokens_complete : forall r m, parses r m -> unpack_tokens r = Ok m.
Proof.
  intros r m H. destruct H; unfold unpack_tokens.
  - rewrite H. reflexivity.
  - rewrite H, kw_generic_match. unfold is_kw. rewrite H, H0, H2, H1. reflexivity.
  - rewrite H, kw_generic_match. unfold is_kw. rewrite H, H0, H1, H3, H2. reflexivity.
  - rewrite H, kw_generic_match. unfold is_kw. rewrite H, H0, H2, H3, H1. reflexivity.
  - rewrite H, kw_generic_match. unfold is_kw. rewrite H, H0, H1, H3, H4, H2. reflexivity.
Qed.

Lemma unpack_grammar : forall r m, unpack_rule (JList (map JStr r)) = Ok m <-> parses r m.
Proof.
  intros r m. unfold unpack_rule, check_str_list. rewrite all_strs_map. simpl.
  split; [apply unpack_tokens_sound | apply unpack_tokens_complete].
Qed.

(** the grammar is unambiguous: a token list has at most one meaning *)
Lemma parses_functional : forall r m1 m2, parses r m1 -> parses r m2 -> m1 = m2.
Proof.
  intros r m1 m2 H1 H2.
  apply unpack_tokens_complete in H1. apply unpack_tokens_complete in H2. congruence.
Qed.

(** totality: a parse or FormatError, never anything else *)
Lemma unpack_tokens_total : forall r, (exists m, unpack_tokens r = Ok m) \/ unpack_tokens r = Err EFormat.
Proof.
  intros r. unfold unpack_tokens.
  destruct r as [|t0 [|p rest]]; auto.
  destruct (kw_generic (lower t0)).
  - destruct rest; eauto.
  - destruct (is_kw k_match t0); auto.
    destruct rest as [|a2 [|a3 [|a4 [|a5 [|a6 [|a7 [|a8 [|a9 [|a10 rest]]]]]]]]]; auto.
    + destruct (is_kw k_with a2 && is_kw k_from a4)%bool; auto.
      destruct (kw_dst (lower a3)); eauto.
    + destruct (is_kw k_in a2 && is_kw k_with a4 && is_kw k_from a6)%bool.
      * destruct (kw_dst (lower a5)); eauto.
      * destruct (is_kw k_with a2 && is_kw k_in a4 && is_kw k_from a6)%bool; auto.
        destruct (kw_dst (lower a3)); eauto.
    + destruct (is_kw k_in a2 && is_kw k_with a4 && is_kw k_in a6 && is_kw k_from a8)%bool; auto.
      destruct (kw_dst (lower a5)); eauto.
Qed.

Lemma unpack_total : forall j, (exists m, unpack_rule j = Ok m) \/ unpack_rule j = Err EFormat.
Proof.
  intros j. unfold unpack_rule, check_str_list.
  destruct j; simpl; auto.
  destruct (all_strs l); simpl; auto. apply unpack_tokens_total.
Qed.

(** keywords are recognised whatever their letter case: replacing any token by
    one with the same lower-casing at a keyword position keeps the meaning;
    stated for the parser as a whole through [lower] being all that is read
    of keyword positions. *)
Lemma lower_idem_ascii : forall c, lower_c (lower_c c) = lower_c c.
Proof.
  intros c. unfold lower_c.
  destruct (N.leb 65 c && N.leb c 90)%bool eqn:E1.
  - apply andb_true_iff in E1. destruct E1 as [A B]. apply N.leb_le in A, B.
    assert (N.leb 65 (c + 32) && N.leb (c + 32) 90 = false)%bool as ->.
    { apply andb_false_iff. right. apply N.leb_gt. lia. }
    assert (N.eqb (c + 32) 8490 = false) as ->. { apply N.eqb_neq. lia. }
    reflexivity.
  - destruct (N.eqb c 8490) eqn:E2.
    + reflexivity.
    + rewrite E1, E2. reflexivity.
Qed.

Lemma lower_idem : forall s, lower (lower s) = lower s.
Proof.
  induction s as [|c s IH]; simpl; [reflexivity|].
  rewrite lower_idem_ascii. f_equal. exact IH.
Qed.

Lemma lower_upper_kw : forall s, is_ascii s = true -> lower (upper s) = lower s.
Proof.
  induction s as [|c s IH]; simpl; intro H; [reflexivity|].
  apply andb_true_iff in H. destruct H as [Hc Hs]. apply N.ltb_lt in Hc.
  f_equal; [|apply IH; assumption].
  unfold upper_c, lower_c.
  destruct (N.leb 97 c && N.leb c 122)%bool eqn:E1.
  - apply andb_true_iff in E1. destruct E1 as [A B]. apply N.leb_le in A, B.
    assert (N.leb 65 (c - 32) && N.leb (c - 32) 90 = true)%bool as ->.
    { apply andb_true_iff. split; apply N.leb_le; lia. }
    assert (N.leb 65 c && N.leb c 90 = false)%bool as ->.
    { apply andb_false_iff. right. apply N.leb_gt. lia. }
    assert (N.eqb c 8490 = false) as ->. { apply N.eqb_neq. lia. }
    lia.
  - reflexivity.
Qed.

(** round trip: writing a parsed rule back out and parsing it again gives the same meaning *)
Lemma lower_upper_gkind : forall k, kw_generic (lower (upper (gkind_name k))) = Some k.
Proof. destruct k; reflexivity. Qed.
Lemma lower_upper_dkind : forall d, kw_dst (lower (upper (dkind_name d))) = Some d.
Proof. destruct d; reflexivity. Qed.

Lemma pack_unpack : forall m r', pack_rule m = Ok r' -> unpack_tokens r' = Ok m.
Proof.
  intros m r' H. apply unpack_tokens_complete.
  destruct m as [k p | p sp d dp step]; simpl in H.
  - inversion H; subst. constructor. apply lower_upper_gkind.
  - destruct step as [|c step]; try discriminate.
    destruct sp as [|x sp]; destruct dp as [|y dp]; inversion H; subst; simpl;
      constructor; try reflexivity; apply lower_upper_dkind.
Qed.

Lemma roundtrip : forall j m, unpack_rule j = Ok m ->
  (forall p sp d dp, m <> Match p sp d dp []) ->
  exists r', pack_rule m = Ok r' /\ unpack_rule (JList (map JStr r')) = Ok m.
Proof.
  intros j m H Hne.
  assert (exists r', pack_rule m = Ok r') as [r' Hr].
  { destruct m as [k p | p sp d dp step]; simpl; eauto.
    destruct step; [exfalso; eapply Hne; reflexivity | eauto]. }
  exists r'. split; [assumption|].
  unfold unpack_rule, check_str_list. rewrite all_strs_map. simpl.
  apply pack_unpack. assumption.
Qed.

Lemma pack_empty_step : forall p sp d dp, pack_rule (Match p sp d dp []) = Err EFormat.
Proof. reflexivity. Qed.

