(** VerifyIgnored.v — C02, non-interference: a bad-but-well-formed file in the link directory
    changes neither the verdict nor the verified set; the one observable effect is on the
    preliminary file count (LinkNotFoundError may become another rejection). *)
From InToto.Model Require Import Base Json Strs Utf8 Canon Rule Glob Rules Expiry Subst Meta Verify.
From InToto.Proofs Require Import VerifySpec ThresholdSpec VerifyThreshold.

Lemma filter_length_le : forall {A} (q : A -> bool) l, length (filter q l) <= length l.
Proof. induction l as [|x l IH]; simpl; [lia|]. destruct (q x); simpl; lia. Qed.

(** a key id that gets a verification key is one of those whose files are loaded *)
Lemma vk_some_tried : forall l mk s kid,
  verification_key l mk s kid <> None -> In kid (flat_map (keyids_to_try l) (st_pubkeys s)).
Proof.
  intros l mk s kid. unfold verification_key. induction (st_pubkeys s) as [|a auth IH]; intro H; [congruence|].
  cbn [flat_map]. apply in_or_app. cbn beta iota in H. unfold keyids_to_try at 1.
  destruct (lookup a (ly_keys l)) as [k|] eqn:Ek.
  - destruct (jtruthy k).
    + destruct (eqs kid a) eqn:E1; [apply eqs_eq in E1; left; left; congruence|].
      destruct (mem_str kid (subkey_ids k)) eqn:E2; [left; right; apply mem_str_In; exact E2|].
      right. apply IH. exact H.
    + destruct (lookup a mk) as [m|]; [destruct (jtruthy m)|]; try (right; apply IH; exact H).
      destruct (eqs kid a) eqn:E1; [apply eqs_eq in E1; left; left; congruence|right; apply IH; exact H].
  - destruct (lookup a mk) as [m|]; [destruct (jtruthy m)|]; try (right; apply IH; exact H).
    destruct (eqs kid a) eqn:E1; [apply eqs_eq in E1; left; left; congruence|right; apply IH; exact H].
Qed.

Section Ignored.
  Variable b64dec : str -> option (list N).
  Variable loads : list N -> option json.
  Variable sig_ok : str -> list N -> str -> bool.
  Variable now_s : Z.
  Variable now_us : Z.
  Variable exec : list json -> exec_result.

  Notation vsl := (verify_step_links sig_ok now_s).
  Notation link_ok := (link_ok sig_ok now_s).
  Notation link_skipped := (link_skipped sig_ok now_s).
  Notation vlst := (verify_link_signature_thresholds sig_ok now_s).
  Notation load_file := (load_file b64dec loads).
  Notation load_keyids := (load_keyids b64dec loads).
  Notation load_step := (load_step b64dec loads).
  Notation load_links := (load_links_for_layout b64dec loads).
  Notation stage_pre := (stage_pre b64dec loads sig_ok now_s now_us).
  Notation vbody := (verify_body b64dec loads sig_ok now_s now_us exec).
  Notation pre_layout := (pre_layout sig_ok now_s now_us).
  Notation bad_file_b := (bad_file_b sig_ok now_s).
  Notation mkof := main_keys_for_subkeys.

  Variables (files files' : list (str * file)) (fn : str) (j : json) (md : metadata).
  Hypothesis HA : file_added fn (FJson j) files files'.
  Hypothesis HJ : from_dict b64dec loads j = Ok md.

  (** key ids whose link file for step name [n] is NOT the added file *)
  Definition qk (n : str) (k : str) : bool := negb (eqs (link_filename n k) fn).
  Definition qn (n : str) (kv : str * metadata) : bool := qk n (fst kv).

  (** [f] is [f'] without the entries that come from the added file *)
  Definition Rn (n : str) (f' f : list (str * metadata)) : Prop :=
    f = filter (qn n) f' /\ forall kv, In kv f' -> qn n kv = false -> snd kv = md.

  Lemma load_file_new : load_file files' fn = Ok (Some md) /\ load_file files fn = Ok None.
  Proof.
    destruct HA as [H1 H2]. unfold Verify.load_file. rewrite H1, (H2 fn), eqs_refl, HJ. split; reflexivity.
  Qed.

  Lemma load_file_other : forall n, eqs n fn = false -> load_file files' n = load_file files n.
  Proof. intros n H. destruct HA as [_ H2]. unfold Verify.load_file. rewrite (H2 n), H. reflexivity. Qed.

  Lemma load_keyids_added : forall n kids acc' acc, Rn n acc' acc ->
    match load_keyids files' n kids acc', load_keyids files n kids acc with
    | Ok f', Ok f => Rn n f' f
    | Err e', Err e => e' = e
    | _, _ => False
    end.
  Proof.
    induction kids as [|kid kids IH]; intros acc' acc HR; simpl; [exact HR|].
    destruct (eqs (link_filename n kid) fn) eqn:E.
    - apply eqs_eq in E. rewrite E. destruct load_file_new as [-> ->]. cbn [bind]. apply IH.
      destruct HR as [HR1 HR2]. split.
      + unfold qn. rewrite filter_dict_set_drop; [exact HR1|]. unfold qk. rewrite E, eqs_refl. reflexivity.
      + intros [k v] Hin Hq. apply dict_set_In in Hin. destruct Hin as [[_ ->]|Hin]; [reflexivity|].
        apply (HR2 (k, v) Hin Hq).
    - rewrite (load_file_other _ E). destruct (load_file files (link_filename n kid)) as [[md0|]|e]; cbn [bind];
        [|apply IH; exact HR|reflexivity].
      apply IH. destruct HR as [HR1 HR2]. split.
      + unfold qn. rewrite filter_dict_set_keep; [rewrite HR1; reflexivity|]. unfold qk. rewrite E. reflexivity.
      + intros [k v] Hin Hq. apply dict_set_In in Hin. destruct Hin as [[-> _]|Hin].
        * unfold qn, qk in Hq. cbn [fst] in Hq. rewrite E in Hq. discriminate.
        * apply (HR2 (k, v) Hin Hq).
  Qed.

  (** one step: the added file can only lengthen the loaded list *)
  Lemma load_step_added : forall l s,
    match load_step files' l s, load_step files l s with
    | Ok f', Ok f => Rn (st_name s) f' f
    | Ok f', Err e => e = ELinkNotFound /\
                      (Z.of_nat (length (filter (qn (st_name s)) f')) < st_threshold s)%Z
    | Err e', Ok f => False
    | Err e', Err e => e' = e
    end.
  Proof.
    intros l s. unfold Verify.load_step. destruct (negb (name_ok (st_name s))); [reflexivity|].
    assert (HR0 : Rn (st_name s) [] []) by (split; [reflexivity|intros ? []]).
    pose proof (load_keyids_added (st_name s) (flat_map (keyids_to_try l) (st_pubkeys s)) [] [] HR0) as H.
    destruct (load_keyids files' (st_name s) (flat_map (keyids_to_try l) (st_pubkeys s)) []) as [f'|e'];
      destruct (load_keyids files (st_name s) (flat_map (keyids_to_try l) (st_pubkeys s)) []) as [f|e];
      try contradiction; cbn [bind]; [|exact H].
    pose proof H as [Hf _]. pose proof (filter_length_le (qn (st_name s)) f') as Hlen. rewrite <- Hf in Hlen.
    destruct (Z.of_nat (length f') <? st_threshold s)%Z eqn:E1;
      destruct (Z.of_nat (length f) <? st_threshold s)%Z eqn:E2; try reflexivity; try exact H.
    - apply Z.ltb_lt in E1. apply Z.ltb_ge in E2. lia.
    - split; [reflexivity|]. rewrite <- Hf. apply Z.ltb_lt in E2. exact E2.
  Qed.

  Definition sm_rel (sm' sm : list (str * list (str * metadata))) : Prop :=
    Forall2 (fun e' e => fst e' = fst e /\ Rn (fst e') (snd e') (snd e)) sm' sm.

  (** loading all steps *)
  Lemma load_links_added_ok : forall l sm, load_links files l = Ok sm ->
    exists sm', load_links files' l = Ok sm' /\ sm_rel sm' sm.
  Proof.
    intros l. unfold load_links_for_layout. induction (ly_steps l) as [|s steps IH]; intros sm H; simpl in H.
    - inversion H; subst. exists []. split; [reflexivity|constructor].
    - pose proof (load_step_added l s) as HS.
      destruct (load_step files l s) as [f|e]; [|discriminate]. cbn [bind] in H.
      destruct (mapM (fun s0 => do f0 <- load_step files l s0; Ok (st_name s0, f0)) steps) as [rest|e] eqn:E; [|discriminate].
      cbn [bind] in H. inversion H; subst.
      destruct (load_step files' l s) as [f'|e'] eqn:E'; [|contradiction].
      destruct (IH rest eq_refl) as [rest' [Hr1 Hr2]].
      exists ((st_name s, f') :: rest'). split.
      + simpl. rewrite E'. cbn [bind]. rewrite Hr1. reflexivity.
      + constructor; [split; [reflexivity|exact HS]|exact Hr2].
  Qed.

  Lemma load_links_added_err : forall l e, load_links files l = Err e -> e <> ELinkNotFound ->
    load_links files' l = Err e.
  Proof.
    intros l e. unfold load_links_for_layout. induction (ly_steps l) as [|s steps IH]; intros H Hne; simpl in H; [discriminate|].
    pose proof (load_step_added l s) as HS. simpl.
    destruct (load_step files l s) as [f|e0]; cbn [bind] in H.
    - destruct (load_step files' l s) as [f'|e']; [|contradiction]. cbn [bind].
      destruct (mapM (fun s0 => do f0 <- load_step files l s0; Ok (st_name s0, f0)) steps) as [rest|e1] eqn:E; [discriminate|].
      cbn [bind] in H. inversion H; subst. rewrite (IH eq_refl Hne). reflexivity.
    - inversion H; subst. destruct (load_step files' l s) as [f'|e']; [destruct HS; contradiction|]. subst. reflexivity.
  Qed.

  Lemma load_links_removed_ok : forall l sm',
    (forall s f', In s (ly_steps l) -> load_step files' l s = Ok f' ->
                  (st_threshold s <= Z.of_nat (length (filter (qn (st_name s)) f')))%Z) ->
    load_links files' l = Ok sm' ->
    exists sm, load_links files l = Ok sm /\ sm_rel sm' sm.
  Proof.
    intros l. unfold load_links_for_layout. induction (ly_steps l) as [|s steps IH]; intros sm' Hthr H; simpl in H.
    - inversion H; subst. exists []. split; [reflexivity|constructor].
    - pose proof (load_step_added l s) as HS.
      destruct (load_step files' l s) as [f'|e'] eqn:E'; [|discriminate]. cbn [bind] in H.
      destruct (mapM (fun s0 => do f0 <- load_step files' l s0; Ok (st_name s0, f0)) steps) as [rest'|e] eqn:E; [|discriminate].
      cbn [bind] in H. inversion H; subst.
      destruct (load_step files l s) as [f|e0] eqn:E0.
      + destruct (IH rest' (fun s0 f0 Hs0 => Hthr s0 f0 (or_intror Hs0)) eq_refl) as [rest [Hr1 Hr2]].
        exists ((st_name s, f) :: rest). split.
        * simpl. rewrite E0. cbn [bind]. rewrite Hr1. reflexivity.
        * constructor; [split; [reflexivity|exact HS]|exact Hr2].
      + destruct HS as [_ HS]. specialize (Hthr s f' (or_introl eq_refl) E'). lia.
  Qed.

  (** the signature stage does not see the added file, provided it is bad-but-well-formed *)
  Lemma bad_all : forall l, bad_file_b l fn md = true ->
    forall s kid, In s (ly_steps l) -> qk (st_name s) kid = false -> link_skipped l (mkof l) s (kid, md) = true.
  Proof.
    intros l H s kid Hs Hq. unfold ThresholdSpec.bad_file_b in H. rewrite forallb_forall in H.
    specialize (H s Hs). rewrite forallb_forall in H.
    destruct (verification_key l (mkof l) s kid) eqn:Ev.
    - assert (Hin : In kid (flat_map (keyids_to_try l) (st_pubkeys s))) by (eapply vk_some_tried; rewrite Ev; discriminate).
      specialize (H kid Hin). unfold qk in Hq. apply negb_false_iff in Hq. rewrite Hq in H. exact H.
    - unfold ThresholdSpec.link_skipped. cbn [fst]. rewrite Ev. reflexivity.
  Qed.

  Lemma vsl_added : forall l s f' f, bad_file_b l fn md = true -> In s (ly_steps l) ->
    Rn (st_name s) f' f -> forall u a, vsl l (mkof l) s f' u a = vsl l (mkof l) s f u a.
  Proof.
    intros l s f' f Hb Hs [H1 H2] u a. rewrite H1. apply vsl_filter_skipped.
    intros [kid m] Hin Hq. assert (Hm : m = md) by (apply (H2 (kid, m) Hin Hq)). subst m. apply bad_all; assumption.
  Qed.

  Lemma found_of_rel : forall sm' sm s, sm_rel sm' sm -> Rn (st_name s) (found_of s sm') (found_of s sm).
  Proof.
    intros sm' sm s H. unfold found_of. destruct (lookup (st_name s) sm') as [f'|] eqn:E.
    - destruct (Forall2_lookup_k (fun n f' f => Rn n f' f) sm' sm _ _ H E) as [f [Hf HR]]. rewrite Hf. exact HR.
    - rewrite (Forall2_lookup_None_k (fun n f' f => Rn n f' f) sm' sm _ H E). split; [reflexivity|intros ? []].
  Qed.

  Lemma vlst_added : forall l sm' sm, bad_file_b l fn md = true -> sm_rel sm' sm -> vlst l sm' = vlst l sm.
  Proof.
    intros l sm' sm Hb HR. unfold verify_link_signature_thresholds. apply mapM_ext_in. intros s Hs. cbn zeta.
    fold (found_of s sm') (found_of s sm).
    rewrite (vsl_added l s _ _ Hb Hs (found_of_rel sm' sm s HR)). reflexivity.
  Qed.

  (* ---------------------------------------------------------------- *)
  (** * the four statements                                             *)

  Theorem added_accept : forall a l x, pre_layout a = Ok l -> bad_file_b l fn md = true ->
    stage_pre files a = Ok x -> stage_pre files' a = Ok x.
  Proof.
    intros a l x Hl Hb H. rewrite stage_pre_split in *. rewrite Hl in *. cbn [bind] in *.
    destruct (load_links files l) as [sm|e] eqn:E; [|discriminate]. cbn [bind] in H.
    destruct (load_links_added_ok l sm E) as [sm' [E' HR]]. rewrite E'. cbn [bind].
    rewrite (vlst_added l sm' sm Hb HR). exact H.
  Qed.

  Theorem added_reject : forall a l e, pre_layout a = Ok l -> bad_file_b l fn md = true ->
    stage_pre files a = Err e -> e <> ELinkNotFound -> stage_pre files' a = Err e.
  Proof.
    intros a l e Hl Hb H Hne. rewrite stage_pre_split in *. rewrite Hl in *. cbn [bind] in *.
    destruct (load_links files l) as [sm|e0] eqn:E; cbn [bind] in H.
    - destruct (load_links_added_ok l sm E) as [sm' [E' HR]]. rewrite E'. cbn [bind].
      rewrite (vlst_added l sm' sm Hb HR). exact H.
    - inversion H; subst. rewrite (load_links_added_err l e E Hne). reflexivity.
  Qed.

  Theorem removed_accept : forall a l x, pre_layout a = Ok l -> bad_file_b l fn md = true ->
    NoDup (map st_name (ly_steps l)) ->
    stage_pre files' a = Ok x -> stage_pre files a = Ok x.
  Proof.
    intros a l x Hl Hb ND H. rewrite stage_pre_split in *. rewrite Hl in *. cbn [bind] in *.
    destruct (load_links files' l) as [sm'|e] eqn:E'; [|discriminate]. cbn [bind] in H.
    destruct (vlst l sm') as [vm|e] eqn:Ev; [|discriminate].
    assert (Hthr : forall s f', In s (ly_steps l) -> load_step files' l s = Ok f' ->
                     (st_threshold s <= Z.of_nat (length (filter (qn (st_name s)) f')))%Z).
    { intros s f' Hs Hf'.
      pose proof (load_links_inv b64dec loads files' l sm' E') as HF.
      destruct (Forall2_key_lookup st_name (fun s0 g => load_step files' l s0 = Ok g) _ _ s HF ND Hs) as [g [Hg1 Hg2]].
      rewrite Hf' in Hg2. injection Hg2 as <-.
      pose proof (vlst_inv sig_ok now_s l sm' vm Ev) as HV.
      destruct (Forall2_In_l _ _ _ _ HV Hs) as [ev [_ [_ [used [Hu Ht]]]]].
      unfold found_of in Hu. rewrite Hg1 in Hu.
      rewrite (vsl_filter_skipped sig_ok now_s l (mkof l) s (qn (st_name s))) in Hu.
      2:{ intros [kid m] Hin Hq.
          pose proof (load_step_added l s) as HS. rewrite Hf' in HS.
          assert (Hm : m = md).
          { destruct (load_step files l s) as [f|e0].
            - destruct HS as [_ HS]. apply (HS (kid, m) Hin Hq).
            - (* the relation still holds for the underlying lists: redo it from load_keyids *)
              clear HS. unfold Verify.load_step in Hf'. destruct (negb (name_ok (st_name s))); [discriminate|].
              assert (HR0 : Rn (st_name s) [] []) by (split; [reflexivity|intros ? []]).
              pose proof (load_keyids_added (st_name s) (flat_map (keyids_to_try l) (st_pubkeys s)) [] [] HR0) as HK.
              destruct (load_keyids files' (st_name s) (flat_map (keyids_to_try l) (st_pubkeys s)) []) as [g'|]; [|discriminate].
              cbn [bind] in Hf'. destruct (Z.of_nat (length g') <? st_threshold s)%Z; [discriminate|].
              injection Hf' as <-.
              destruct (load_keyids files (st_name s) (flat_map (keyids_to_try l) (st_pubkeys s)) []); [|contradiction].
              destruct HK as [_ HK]. apply (HK (kid, m) Hin Hq). }
          subst m. apply bad_all; assumption. }
      apply vsl_inv in Hu. destruct Hu as [_ [Hu _]]. simpl in Hu.
      pose proof (dedup_length used). subst used. rewrite map_length in *.
      pose proof (filter_length_le (link_ok l (mkof l) s) (filter (qn (st_name s)) f')). lia. }
    destruct (load_links_removed_ok l sm' Hthr E') as [sm [E HR]]. rewrite E. cbn [bind].
    rewrite <- (vlst_added l sm' sm Hb HR). rewrite Ev. exact H.
  Qed.

  Lemma vbody_pre : forall recs missing a, stage_pre files' a = stage_pre files a ->
    vbody files' recs missing a = vbody files recs missing a.
  Proof. intros recs missing a H. unfold verify_body. rewrite H. reflexivity. Qed.

  (** adding (or, read right to left, removing) a bad-but-well-formed file: the whole outcome —
      verdict, error class, summary link, inspection trace — and the verified set are unchanged,
      except that a LinkNotFoundError of the preliminary file count may become another rejection *)
  Theorem ignored : forall recs missing a,
    (forall l, pre_layout a = Ok l -> bad_file_b l fn md = true /\ NoDup (map st_name (ly_steps l))) ->
    (stage_pre files' a = stage_pre files a /\ vbody files' recs missing a = vbody files recs missing a) \/
    (vbody files recs missing a = (Err ELinkNotFound, []) /\ exists e, vbody files' recs missing a = (Err e, [])).
  Proof.
    intros recs missing a Hyp. destruct (pre_layout a) as [l|e0] eqn:El.
    2:{ left. assert (H : stage_pre files' a = stage_pre files a) by (rewrite !stage_pre_split, El; reflexivity).
        split; [exact H|apply vbody_pre; exact H]. }
    destruct (Hyp l eq_refl) as [Hb ND].
    destruct (stage_pre files a) as [x|e] eqn:E.
    - left. assert (H : stage_pre files' a = Ok x) by (eapply added_accept; eassumption).
      split; [exact H|]. apply vbody_pre. rewrite E. exact H.
    - assert (Hd : e = ELinkNotFound \/ e <> ELinkNotFound) by (destruct e; (left; reflexivity) || (right; discriminate)).
      destruct Hd as [->|Hne].
      + right. split; [unfold verify_body; rewrite E; reflexivity|].
        destruct (stage_pre files' a) as [x|e'] eqn:E'.
        * assert (stage_pre files a = Ok x) by (eapply removed_accept; eassumption). congruence.
        * exists e'. unfold verify_body. rewrite E'. reflexivity.
      + left. assert (H : stage_pre files' a = Err e) by (eapply added_reject; eassumption).
        split; [exact H|]. apply vbody_pre. rewrite E. exact H.
  Qed.

  (** in particular acceptance, with everything it returns, is the same with and without the file *)
  Corollary ignored_accept : forall recs missing a sum tr,
    (forall l, pre_layout a = Ok l -> bad_file_b l fn md = true /\ NoDup (map st_name (ly_steps l))) ->
    (vbody files recs missing a = (Ok sum, tr) <-> vbody files' recs missing a = (Ok sum, tr)).
  Proof.
    intros recs missing a sum tr Hyp. destruct (ignored recs missing a Hyp) as [[_ H]|[H1 [e H2]]].
    - rewrite H. reflexivity.
    - rewrite H1, H2. split; discriminate.
  Qed.
End Ignored.

(** any number of bad-but-well-formed files, added one after the other *)
Section Many.
  Variable b64dec : str -> option (list N).
  Variable loads : list N -> option json.
  Variable sig_ok : str -> list N -> str -> bool.
  Variable now_s : Z.
  Variable now_us : Z.
  Variable exec : list json -> exec_result.

  Inductive bad_files_added (a : args) : list (str * file) -> list (str * file) -> Prop :=
  | bfa_none : forall files, bad_files_added a files files
  | bfa_one : forall files files' files'' fn j md,
      file_added fn (FJson j) files files' -> from_dict b64dec loads j = Ok md ->
      (forall l, pre_layout sig_ok now_s now_us a = Ok l ->
         bad_file_b sig_ok now_s l fn md = true /\ NoDup (map st_name (ly_steps l))) ->
      bad_files_added a files' files'' -> bad_files_added a files files''.

  Theorem ignored_many : forall a files files', bad_files_added a files files' ->
    forall recs missing,
    verify_body b64dec loads sig_ok now_s now_us exec files' recs missing a =
    verify_body b64dec loads sig_ok now_s now_us exec files recs missing a \/
    (verify_body b64dec loads sig_ok now_s now_us exec files recs missing a = (Err ELinkNotFound, []) /\
     exists e, verify_body b64dec loads sig_ok now_s now_us exec files' recs missing a = (Err e, [])).
  Proof.
    induction 1 as [files|files files' files'' fn j md HA HJ Hb _ IH]; intros recs missing; [left; reflexivity|].
    destruct (ignored b64dec loads sig_ok now_s now_us exec files files' fn j md HA HJ recs missing a Hb)
      as [[_ H1]|[H1 [e H2]]]; destruct (IH recs missing) as [H3|[H3 [e' H4]]].
    - left. congruence.
    - right. split; [congruence|exists e'; exact H4].
    - right. split; [exact H1|]. exists e. congruence.
    - right. split; [exact H1|]. exists e'. exact H4.
  Qed.

  Corollary ignored_many_accept : forall a files files' recs missing sum tr, bad_files_added a files files' ->
    (verify_body b64dec loads sig_ok now_s now_us exec files recs missing a = (Ok sum, tr) <->
     verify_body b64dec loads sig_ok now_s now_us exec files' recs missing a = (Ok sum, tr)).
  Proof.
    intros a files files' recs missing sum tr H. destruct (ignored_many a files files' H recs missing) as [H1|[H1 [e H2]]].
    - rewrite H1. reflexivity.
    - rewrite H1, H2. split; discriminate.
  Qed.
End Many.
