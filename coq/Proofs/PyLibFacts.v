(** PyLibFacts.v — generic facts about the PyLib combinators used by the tie theorems. *)
From InToto.Model Require Import Base Json PyLib.

Lemma py_fold_check : forall (p : pyval -> bool) (e : err) (body : pyval -> unit -> res unit) l,
  (forall x, body x tt = if p x then Ok tt else Err e) ->
  py_fold l tt body = if forallb p l then Ok tt else Err e.
Proof.
  intros p e body l H. induction l as [|x l IH]; simpl; [reflexivity|].
  rewrite H. destruct (p x); simpl; [exact IH | reflexivity].
Qed.

Lemma py_fold_map_append : forall (f : str -> str) (body : pyval -> pyval -> res pyval) r acc,
  (forall s a, body (VStr s) (VList a) = Ok (VList (a ++ [VStr (f s)]))) ->
  py_fold (map VStr r) (VList acc) body = Ok (VList (acc ++ map VStr (map f r))).
Proof.
  intros f body r. induction r as [|s r IH]; intros acc H; simpl.
  - rewrite app_nil_r. reflexivity.
  - rewrite H. simpl. rewrite IH by assumption. rewrite <- app_assoc. reflexivity.
Qed.

Lemma map_inj_strs : forall r, map inj (map JStr r) = map VStr r.
Proof. induction r as [|s r IH]; simpl; [reflexivity | rewrite IH; reflexivity]. Qed.

Lemma norm_index_ok : forall i len, (0 <= i)%Z -> (i < Z.of_nat len)%Z -> norm_index i len = Some (znat i).
Proof.
  intros i len H1 H2. unfold norm_index.
  destruct (Z.leb_spec 0 i); [|lia]. destruct (Z.ltb_spec i (Z.of_nat len)); [reflexivity | lia].
Qed.

Lemma norm_index_out : forall i len, (0 <= i)%Z -> (Z.of_nat len <= i)%Z -> norm_index i len = None.
Proof.
  intros i len H1 H2. unfold norm_index.
  destruct (Z.leb_spec 0 i); [|lia]. destruct (Z.ltb_spec i (Z.of_nat len)); [lia | reflexivity].
Qed.
