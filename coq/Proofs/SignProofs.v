(** SignProofs.v — lemmas about signing, verification and serialisation (property C09). *)
From Coq Require Import Permutation.
From InToto.Model Require Import Base Json Strs Utf8 Canon Rule Rules Expiry Meta Sign.
From InToto.Proofs Require Import Utf8Proofs CanonProofs.

(* ------------------------------------------------------------------ *)
(** * Vocabulary *)

(** the test by which Metablock.verify_signature selects "the" signature of a key *)
Definition sig_matches (key sig : json) : bool :=
  match jstr_of (jget S_keyid key) with
  | None => false
  | Some kid => match jstr_of (jget S_keyid sig) with
                | Some k => eqs k kid || mem_str k (subkey_ids key)
                | None => false
                end
  end.

(** [key] is a securesystemslib-format public key dict with key id [kid] and keyval.public [pub] *)
Definition sslib_key_for (key : json) (kid pub : str) : Prop :=
  check_public_key key = Ok KSslib /\ jstr_of (jget S_keyid key) = Some kid /\
  exists kv, jget S_keyval key = Some kv /\ jstr_of (jget S_public kv) = Some pub.

(** the (sub)key a gpg-format key dict uses for a signature with key id [skid], as in gpg_verify *)
Definition gpg_sel (key : json) (skid mkid : str) : str * json :=
  match jget S_subkeys key with
  | Some (JDict subs) => match lookup skid subs with Some k => (skid, k) | None => (mkid, key) end
  | _ => (mkid, key)
  end.
Definition gpg_live (now_s : Z) (vk : json) : bool :=
  match jget S_creation_time vk, jget S_validity_period vk with
  | Some (JInt c), Some (JInt v) => negb (negb (Z.eqb c 0) && negb (Z.eqb v 0) && Z.ltb (c + v) now_s)
  | _, _ => true
  end.
(** [key] is a gpg-format key dict with key id [mkid]; [sk] is its id or one of its subkeys' ids,
    and the key that [sk] selects has not expired *)
Definition gpg_key_for (now_s : Z) (key : json) (mkid sk : str) : Prop :=
  check_public_key key = Ok KGpg /\ jstr_of (jget S_keyid key) = Some mkid /\
  (sk = mkid \/ In sk (subkey_ids key)) /\ gpg_live now_s (snd (gpg_sel key sk mkid)) = true.

Definition ideal (sig_ok : str -> list N -> str -> bool) : Prop :=
  forall tok m1 m2 v, sig_ok tok m1 v = true -> sig_ok tok m2 v = true -> m1 = m2.
(** distinct keys do not validate each other's signatures *)
Definition keys_separate (sig_ok : str -> list N -> str -> bool) : Prop :=
  forall t1 t2 m v, t1 <> t2 -> sig_ok t1 m v = true -> sig_ok t2 m v = false.

(* ------------------------------------------------------------------ *)
(** * Small facts *)

Lemma jstr_of_some : forall o s, jstr_of o = Some s -> o = Some (JStr s).
Proof. intros o s H. destruct o as [j|]; [destruct j|]; cbn in H; try discriminate H. inversion H; reflexivity. Qed.

Lemma find_app_last : forall (A : Type) (f : A -> bool) old x,
  (forall s, In s old -> f s = false) -> f x = true -> find f (old ++ [x]) = Some x.
Proof.
  intros A f old x Hold Hx. induction old as [|a old IH]; cbn [app find].
  - rewrite Hx. reflexivity.
  - rewrite (Hold a (or_introl eq_refl)). apply IH. intros s Hs. apply Hold. right. exact Hs.
Qed.

Lemma find_app_skip : forall (A : Type) (f : A -> bool) old rest,
  (forall s, In s old -> f s = false) -> find f (old ++ rest) = find f rest.
Proof.
  intros A f old rest Hold. induction old as [|a old IH]; cbn [app find]; [reflexivity|].
  rewrite (Hold a (or_introl eq_refl)). apply IH. intros s Hs. apply Hold. right. exact Hs.
Qed.

Lemma mem_str_true_In : forall x l, mem_str x l = true -> In x l.
Proof. intros x l. apply mem_str_In. Qed.

Lemma subkey_lookup : forall key sk, In sk (subkey_ids key) ->
  exists subs k, jget S_subkeys key = Some (JDict subs) /\ lookup sk subs = Some k.
Proof.
  intros key sk H. unfold subkey_ids in H.
  destruct (jget S_subkeys key) as [[| | | | | |subs]|]; cbn in H; try contradiction.
  exists subs. induction subs as [|[k0 v0] subs IH]; cbn in H; [contradiction|].
  cbn [lookup]. destruct (eqs sk k0) eqn:E.
  - exists v0. split; reflexivity.
  - destruct H as [H|H]; [subst k0; rewrite eqs_refl in E; discriminate E|].
    destruct (IH H) as [k [_ Hk]]. exists k. split; [reflexivity|exact Hk].
Qed.

Lemma gpg_sel_fst : forall key mkid sk, sk = mkid \/ In sk (subkey_ids key) -> fst (gpg_sel key sk mkid) = sk.
Proof.
  intros key mkid sk H. unfold gpg_sel.
  destruct (jget S_subkeys key) as [[| | | | | |subs]|] eqn:Es;
    try (destruct H as [H|H]; [subst; reflexivity | unfold subkey_ids in H; rewrite Es in H; contradiction]).
  destruct (lookup sk subs) eqn:El; [reflexivity|].
  destruct H as [H|H]; [subst; reflexivity|].
  destruct (subkey_lookup key sk H) as [subs' [k [E1 E2]]]. rewrite Es in E1. inversion E1; subst subs'.
  rewrite El in E2. discriminate E2.
Qed.

(* ------------------------------------------------------------------ *)
(** * Verification of one signature entry *)

Section Verify.
  Variable sig_ok : str -> list N -> str -> bool.
  Variable now_s : Z.

  (** other_headers as gpg_verify reads it *)
  Definition sig_headers (sig : json) : str := match jget S_other_headers sig with Some (JStr o) => o | _ => [] end.

  (** the value the oracle is asked about for a gpg entry: signature and other_headers (the signed digest covers both) *)
  Definition gpg_outcome (tok : str) (msg : list N) (sval oh : str) : res bool :=
    if Nat.even (length oh) then Ok (sig_ok tok msg (gpg_sig_value sval oh)) else Err EValueError.

  Lemma gpg_verify_eq : forall sig key msg skid mkid sval,
    jstr_of (jget S_keyid sig) = Some skid -> jstr_of (jget S_keyid key) = Some mkid ->
    jstr_of (jget S_signature sig) = Some sval ->
    gpg_verify sig_ok now_s sig key msg =
      if negb (gpg_sig_schema_ok sig) then Err EFormat
      else if gpg_live now_s (snd (gpg_sel key skid mkid))
           then gpg_outcome (fst (gpg_sel key skid mkid)) msg sval (sig_headers sig)
           else Err EKeyExpired.
  Proof.
    intros sig key msg skid mkid sval H1 H2 H3. unfold gpg_verify. rewrite H1, H2, H3.
    destruct (negb (gpg_sig_schema_ok sig)); [reflexivity|].
    fold (gpg_sel key skid mkid). fold (sig_headers sig). cbv zeta.
    fold (gpg_outcome (fst (gpg_sel key skid mkid)) msg sval (sig_headers sig)). unfold gpg_live.
    destruct (jget S_creation_time (snd (gpg_sel key skid mkid))) as [[| |c| | | |]|];
    destruct (jget S_validity_period (snd (gpg_sel key skid mkid))) as [[| |v| | | |]|]; try reflexivity.
    destruct (negb (Z.eqb c 0) && negb (Z.eqb v 0) && Z.ltb (c + v) now_s)%bool; reflexivity.
  Qed.

  (** what an accepted sslib signature entry says *)
  Lemma sslib_verify_true : forall sig key msg, sslib_verify sig_ok sig key msg = Ok true ->
    exists kid pub sval kv, jstr_of (jget S_keyid sig) = Some kid /\ jstr_of (jget S_keyid key) = Some kid /\
      jstr_of (jget S_sig sig) = Some sval /\ jget S_keyval key = Some kv /\ jstr_of (jget S_public kv) = Some pub /\
      sig_ok pub msg sval = true.
  Proof.
    intros sig key msg H. unfold sslib_verify in H.
    destruct (jstr_of (jget S_keyid sig)) as [skid|] eqn:E1; [|discriminate H].
    destruct (jstr_of (jget S_keyid key)) as [kid|] eqn:E2; [|discriminate H].
    destruct (jstr_of (jget S_sig sig)) as [sval|] eqn:E3; [|discriminate H].
    destruct (eqs skid kid) eqn:Ek; cbn [negb] in H; [|discriminate H].
    apply eqs_eq in Ek. subst skid.
    destruct (hex_even sval); cbn [negb] in H; [|discriminate H].
    destruct (jget S_keyval key) as [kv|] eqn:E4; [|discriminate H].
    destruct (jstr_of (jget S_public kv)) as [pub|] eqn:E5; [|discriminate H].
    inversion H as [H']. exists kid, pub, sval, kv. repeat split; assumption.
  Qed.

  Lemma sslib_verify_good : forall sig key msg kid pub sval,
    jstr_of (jget S_keyid sig) = Some kid -> jstr_of (jget S_sig sig) = Some sval ->
    sslib_key_for key kid pub -> hex_even sval = true ->
    sslib_verify sig_ok sig key msg = Ok (sig_ok pub msg sval).
  Proof.
    intros sig key msg kid pub sval H1 H2 [_ [Hk [kv [Hkv Hp]]]] Hh.
    unfold sslib_verify. rewrite H1, Hk, H2, eqs_refl, Hh, Hkv, Hp. reflexivity.
  Qed.

  (* ---------------------------------------------------------------- *)
  (** * Soundness of verification: it succeeds only if the oracle accepts a stored value of a
        matching entry over exactly the bytes derived from the metadata at hand *)

  (** the oracle's verdict on the entry Metablock.verify_signature selected: the gpg routine for an entry with
      "signature" and "other_headers", securesystemslib's Key.verify_signature otherwise *)
  Definition entry_verdict (key sig : json) (msg : list N) : res bool :=
    if (has S_signature sig && has S_other_headers sig)%bool then gpg_verify sig_ok now_s sig key msg
    else sslib_verify sig_ok sig key msg.

  (** the oracle key token and the stored value an entry is checked with — functions of key and entry only *)
  Definition entry_token (key sig : json) : option (str * str) :=
    if (has S_signature sig && has S_other_headers sig)%bool then
      match jstr_of (jget S_keyid sig), jstr_of (jget S_keyid key), jstr_of (jget S_signature sig) with
      | Some skid, Some mkid, Some sval => Some (fst (gpg_sel key skid mkid), gpg_sig_value sval (sig_headers sig))
      | _, _, _ => None
      end
    else
      match jstr_of (jget S_sig sig), jget S_keyval key with
      | Some sval, Some kv => match jstr_of (jget S_public kv) with Some pub => Some (pub, sval) | None => None end
      | _, _ => None
      end.

  Lemma entry_verdict_true : forall key sig msg, entry_verdict key sig msg = Ok true ->
    exists tok v, entry_token key sig = Some (tok, v) /\ sig_ok tok msg v = true.
  Proof.
    intros key sig msg H. unfold entry_verdict in H. unfold entry_token.
    destruct (has S_signature sig && has S_other_headers sig)%bool.
    - destruct (jstr_of (jget S_keyid sig)) as [skid|] eqn:E1; [|unfold gpg_verify in H; rewrite E1 in H; discriminate H].
      destruct (jstr_of (jget S_keyid key)) as [mkid|] eqn:E2; [|unfold gpg_verify in H; rewrite E1, E2 in H; discriminate H].
      destruct (jstr_of (jget S_signature sig)) as [sval|] eqn:E3; [|unfold gpg_verify in H; rewrite E1, E2, E3 in H; discriminate H].
      rewrite (gpg_verify_eq sig key msg skid mkid sval E1 E2 E3) in H.
      destruct (negb (gpg_sig_schema_ok sig)); [discriminate H|].
      destruct (gpg_live now_s (snd (gpg_sel key skid mkid))); [|discriminate H].
      unfold gpg_outcome in H. destruct (Nat.even (length (sig_headers sig))); [|discriminate H].
      exists (fst (gpg_sel key skid mkid)), (gpg_sig_value sval (sig_headers sig)). split; [reflexivity|].
      inversion H; reflexivity.
    - destruct (sslib_verify_true sig key msg H) as [kid [pub [sval [kv [_ [_ [E3 [E4 [E5 E6]]]]]]]]].
      rewrite E3, E4, E5. exists pub, sval. split; [reflexivity|exact E6].
  Qed.

  Lemma find_matches : forall key kid sigs,
    jstr_of (jget S_keyid key) = Some kid ->
    find (fun s => match jstr_of (jget S_keyid s) with
                   | Some k => eqs k kid || mem_str k (subkey_ids key)
                   | None => false end) sigs = find (sig_matches key) sigs.
  Proof.
    intros key kid sigs Hk. induction sigs as [|s sigs IH]; [reflexivity|].
    cbn [find]. unfold sig_matches at 1. rewrite Hk. rewrite IH. reflexivity.
  Qed.

  Theorem verify_mb_sound : forall sigs p key,
    verify_signature sig_ok now_s (Metablock sigs p) key = Ok tt ->
    exists sig msg, find (sig_matches key) sigs = Some sig /\
      signable_bytes (payload_asdict p) = Ok msg /\ entry_verdict key sig msg = Ok true.
  Proof.
    intros sigs p key H. cbn [verify_signature] in H.
    destruct (check_public_key key) as [shape|] eqn:Ec; cbn [bind] in H; [|discriminate H].
    destruct (jstr_of (jget S_keyid key)) as [kid|] eqn:Ek; [|discriminate H].
    rewrite (find_matches key kid sigs Ek) in H.
    destruct (find (sig_matches key) sigs) as [sig|] eqn:Ef.
    2:{ destruct (forallb _ sigs); discriminate H. }
    unfold signed_bytes_mb in H.
    destruct (signable_bytes (payload_asdict p)) as [msg|] eqn:Em; cbn [bind] in H; [|discriminate H].
    exists sig, msg. split; [reflexivity|]. split; [reflexivity|].
    unfold entry_verdict.
    destruct (has S_signature sig && has S_other_headers sig)%bool.
    - destruct shape; [|discriminate H].
      destruct (gpg_verify sig_ok now_s sig key msg) as [[|]|] eqn:Eg; cbn [bind] in H; try discriminate H.
      reflexivity.
    - destruct shape; [discriminate H|].
      destruct (has S_sig sig); [|discriminate H].
      destruct (sslib_verify sig_ok sig key msg) as [[|]|] eqn:Eg; cbn [bind] in H; try discriminate H.
      reflexivity.
  Qed.

  Theorem verify_env_sound : forall pb pt sigs parsed key,
    verify_signature sig_ok now_s (Envelope pb pt sigs parsed) key = Ok tt ->
    exists sig, In sig sigs /\ sslib_verify sig_ok sig key (pae (utf8 pt) pb) = Ok true.
  Proof.
    intros pb pt sigs parsed key H. cbn [verify_signature] in H.
    destruct (jget S_keyid key) as [[| | | |kid| |]|]; try discriminate H.
    destruct (check_public_key key) as [[|]|]; cbn [bind] in H; try discriminate H.
    match type of H with (if existsb ?f sigs then _ else _) = _ => destruct (existsb f sigs) eqn:Ee end; [|discriminate H].
    apply existsb_exists in Ee. destruct Ee as [sig [Hin Hs]]. exists sig. split; [exact Hin|].
    destruct (jstr_of (jget S_keyid sig)); [|discriminate Hs].
    apply andb_true_iff in Hs. destruct Hs as [_ Hs].
    destruct (sslib_verify sig_ok sig key (pae (utf8 pt) pb)) as [[|]|]; try discriminate Hs. reflexivity.
  Qed.

  (* ---------------------------------------------------------------- *)
  (** * Completeness on well-shaped entries *)

  Definition sslib_entry (kid sval : str) : json := JDict [(S_keyid, JStr kid); (S_sig, JStr sval)].
  Definition gpg_entry (kid sval hd : str) : json :=
    JDict [(S_keyid, JStr kid); (S_signature, JStr sval); (S_other_headers, JStr hd)].

  Lemma sslib_entry_matches : forall key kid pub sval, sslib_key_for key kid pub ->
    sig_matches key (sslib_entry kid sval) = true.
  Proof.
    intros key kid pub sval [_ [Hk _]]. unfold sig_matches. rewrite Hk. cbn. rewrite eqs_refl. reflexivity.
  Qed.

  (** Metablock: the first matching entry decides *)
  Lemma verify_mb_first_sslib_gen : forall old rest p key kid pub k sval msg,
    sslib_key_for key kid pub ->
    (forall s, In s old -> sig_matches key s = false) ->
    sig_matches key (sslib_entry k sval) = true ->
    signable_bytes (payload_asdict p) = Ok msg ->
    verify_signature sig_ok now_s (Metablock (old ++ sslib_entry k sval :: rest) p) key =
      if (eqs k kid && hex_even sval && sig_ok pub msg sval)%bool then Ok tt else Err ESignature.
  Proof.
    intros old rest p key kid pub k sval msg Hkey Hold Hmt Hm.
    pose proof Hkey as [Hc [Hk [kv [Hkv Hp]]]].
    cbn [verify_signature]. rewrite Hc. cbn [bind]. rewrite Hk.
    rewrite (find_matches key kid _ Hk).
    rewrite (find_app_skip _ (sig_matches key) old _ Hold). cbn [find].
    rewrite Hmt.
    unfold signed_bytes_mb. rewrite Hm. cbn [bind].
    replace (has S_signature (sslib_entry k sval)) with false by reflexivity. cbn [andb].
    replace (has S_sig (sslib_entry k sval)) with true by reflexivity.
    unfold sslib_verify.
    replace (jstr_of (jget S_keyid (sslib_entry k sval))) with (Some k) by reflexivity.
    replace (jstr_of (jget S_sig (sslib_entry k sval))) with (Some sval) by reflexivity.
    rewrite Hk. destruct (eqs k kid); cbn [negb andb bind]; [|reflexivity].
    destruct (hex_even sval); cbn [negb andb bind]; [|reflexivity].
    rewrite Hkv, Hp. cbn [bind]. destruct (sig_ok pub msg sval); reflexivity.
  Qed.

  Theorem verify_mb_first_sslib : forall old rest p key kid pub sval msg,
    sslib_key_for key kid pub ->
    (forall s, In s old -> sig_matches key s = false) ->
    signable_bytes (payload_asdict p) = Ok msg ->
    verify_signature sig_ok now_s (Metablock (old ++ sslib_entry kid sval :: rest) p) key =
      if (hex_even sval && sig_ok pub msg sval)%bool then Ok tt else Err ESignature.
  Proof.
    intros old rest p key kid pub sval msg Hkey Hold Hm.
    rewrite (verify_mb_first_sslib_gen old rest p key kid pub kid sval msg Hkey Hold
               (sslib_entry_matches key kid pub sval Hkey) Hm), eqs_refl. reflexivity.
  Qed.

  (** no entry matches: "No signature found for key" *)
  Lemma verify_mb_no_match : forall sigs p key kid pub,
    sslib_key_for key kid pub ->
    (forall s, In s sigs -> sig_matches key s = false) ->
    (forall s, In s sigs -> exists k, jget S_keyid s = Some (JStr k)) ->
    verify_signature sig_ok now_s (Metablock sigs p) key = Err ESignature.
  Proof.
    intros sigs p key kid pub [Hc [Hk _]] Hno Hstr.
    cbn [verify_signature]. rewrite Hc. cbn [bind]. rewrite Hk.
    rewrite (find_matches key kid _ Hk).
    assert (find (sig_matches key) sigs = None) as ->.
    { induction sigs as [|s sigs IH]; [reflexivity|]. cbn [find].
      rewrite (Hno s (or_introl eq_refl)). apply IH; intros x Hx; [apply Hno|apply Hstr]; right; exact Hx. }
    assert (forallb (fun s => match jget S_keyid s with Some (JStr _) => true | _ => false end) sigs = true) as ->; [|reflexivity].
    apply forallb_forall. intros s Hs. destruct (Hstr s Hs) as [k ->]. reflexivity.
  Qed.

  (** a gpg signature entry as securesystemslib's schema wants it: key id, signature and other_headers are
      non-empty hex text; other_headers holds whole bytes (unhexlify) *)
  Definition gpg_entry_ok (sk sval hd : str) : bool :=
    is_hex sk && is_hex sval && is_hex hd && Nat.even (length hd).

  Lemma gpg_entry_schema : forall sk sval hd, gpg_entry_ok sk sval hd = true ->
    gpg_sig_schema_ok (gpg_entry sk sval hd) = true /\ Nat.even (length hd) = true.
  Proof.
    intros sk sval hd H. unfold gpg_entry_ok in H.
    apply andb_true_iff in H. destruct H as [H H4]. apply andb_true_iff in H. destruct H as [H H3].
    apply andb_true_iff in H. destruct H as [H1 H2]. split; [|exact H4].
    unfold gpg_sig_schema_ok.
    replace (jget S_keyid (gpg_entry sk sval hd)) with (Some (JStr sk)) by reflexivity.
    replace (jget S_signature (gpg_entry sk sval hd)) with (Some (JStr sval)) by reflexivity.
    replace (jget S_other_headers (gpg_entry sk sval hd)) with (Some (JStr hd)) by reflexivity.
    replace (jget S_short_keyid (gpg_entry sk sval hd)) with (@None json) by reflexivity.
    rewrite H1, H2, H3. reflexivity.
  Qed.

  Theorem verify_mb_first_gpg : forall old rest p key mkid sk sval hd msg,
    gpg_key_for now_s key mkid sk ->
    (forall s, In s old -> sig_matches key s = false) ->
    signable_bytes (payload_asdict p) = Ok msg ->
    gpg_entry_ok sk sval hd = true ->
    verify_signature sig_ok now_s (Metablock (old ++ gpg_entry sk sval hd :: rest) p) key =
      if sig_ok sk msg (gpg_sig_value sval hd) then Ok tt else Err ESignature.
  Proof.
    intros old rest p key mkid sk sval hd msg [Hc [Hk [Hsk Hlive]]] Hold Hm Hok.
    destruct (gpg_entry_schema sk sval hd Hok) as [Hschema Heven].
    cbn [verify_signature]. rewrite Hc. cbn [bind]. rewrite Hk.
    rewrite (find_matches key mkid _ Hk).
    rewrite (find_app_skip _ (sig_matches key) old _ Hold). cbn [find].
    assert (sig_matches key (gpg_entry sk sval hd) = true) as ->.
    { unfold sig_matches. rewrite Hk. cbn. destruct Hsk as [->|Hin].
      - rewrite eqs_refl. reflexivity.
      - apply mem_str_In in Hin. rewrite Hin. apply orb_true_r. }
    unfold signed_bytes_mb. rewrite Hm. cbn [bind].
    replace (has S_signature (gpg_entry sk sval hd) && has S_other_headers (gpg_entry sk sval hd))%bool with true by reflexivity.
    rewrite (gpg_verify_eq (gpg_entry sk sval hd) key msg sk mkid sval eq_refl Hk eq_refl).
    rewrite Hschema. cbn [negb].
    rewrite Hlive, (gpg_sel_fst key mkid sk Hsk).
    replace (sig_headers (gpg_entry sk sval hd)) with hd by reflexivity.
    unfold gpg_outcome. rewrite Heven. cbn [bind].
    destruct (sig_ok sk msg (gpg_sig_value sval hd)); reflexivity.
  Qed.

  (** Envelope: any matching entry suffices *)
  Theorem verify_env_any : forall pb pt sigs parsed key kid pub sval,
    sslib_key_for key kid pub -> In (sslib_entry kid sval) sigs ->
    hex_even sval = true -> sig_ok pub (pae (utf8 pt) pb) sval = true ->
    verify_signature sig_ok now_s (Envelope pb pt sigs parsed) key = Ok tt.
  Proof.
    intros pb pt sigs parsed key kid pub sval Hkey Hin Hh Hs.
    pose proof Hkey as [Hc [Hk _]].
    cbn [verify_signature]. rewrite (jstr_of_some _ _ Hk), Hc. cbn [bind].
    match goal with |- (if existsb ?f sigs then _ else _) = _ => assert (existsb f sigs = true) as -> end; [|reflexivity].
    apply existsb_exists. exists (sslib_entry kid sval). split; [exact Hin|].
    replace (jstr_of (jget S_keyid (sslib_entry kid sval))) with (Some kid) by reflexivity.
    rewrite eqs_refl. cbn [andb].
    rewrite (sslib_verify_good (sslib_entry kid sval) key _ kid pub sval eq_refl eq_refl Hkey Hh), Hs. reflexivity.
  Qed.

  (** an Envelope none of whose entries the oracle accepts under this key is rejected *)
  Theorem verify_env_none : forall pb pt sigs parsed key kid pub,
    sslib_key_for key kid pub ->
    (forall s, In s sigs -> sslib_verify sig_ok s key (pae (utf8 pt) pb) <> Ok true) ->
    verify_signature sig_ok now_s (Envelope pb pt sigs parsed) key = Err ESignature.
  Proof.
    intros pb pt sigs parsed key kid pub [Hc [Hk _]] Hno.
    cbn [verify_signature]. rewrite (jstr_of_some _ _ Hk), Hc. cbn [bind].
    match goal with |- (if existsb ?f sigs then _ else _) = _ => destruct (existsb f sigs) eqn:Ee end; [|reflexivity].
    exfalso. apply existsb_exists in Ee. destruct Ee as [s [Hin Hs]].
    destruct (jstr_of (jget S_keyid s)); [|discriminate Hs].
    apply andb_true_iff in Hs. destruct Hs as [_ Hs].
    apply (Hno s Hin). destruct (sslib_verify sig_ok s key (pae (utf8 pt) pb)) as [[|]|]; try discriminate Hs. reflexivity.
  Qed.
End Verify.

(* ------------------------------------------------------------------ *)
(** * Signing *)

Section Signing.
  Variable sign : str -> list N -> str.
  Variable sig_ok : str -> list N -> str -> bool.
  Variable now_s : Z.

  Definition entry_of (msg : list N) (sg : signer) : json := signature_dict sign sg msg.

  Lemma entry_of_sslib : forall msg kid pub, entry_of msg (SgSslib kid pub) = sslib_entry kid (sign pub msg).
  Proof. reflexivity. Qed.
  Lemma entry_of_gpg : forall msg kid hd, entry_of msg (SgGpg kid hd) = gpg_entry kid (sign kid msg) hd.
  Proof. reflexivity. Qed.

  Lemma signed_msg_set_sigs : forall md s, signed_msg (set_sigs md s) = signed_msg md.
  Proof. intros [sigs p|pb pt sigs parsed] s; reflexivity. Qed.
  Lemma md_sigs_set_sigs : forall md s, md_sigs (set_sigs md s) = s.
  Proof. intros [sigs p|pb pt sigs parsed] s; reflexivity. Qed.
  Lemma set_sigs_set_sigs : forall md s t, set_sigs (set_sigs md s) t = set_sigs md t.
  Proof. intros [sigs p|pb pt sigs parsed] s t; reflexivity. Qed.
  Lemma set_sigs_self : forall md, set_sigs md (md_sigs md) = md.
  Proof. intros [sigs p|pb pt sigs parsed]; reflexivity. Qed.

  (** create_signature appends exactly one entry made over the signed bytes and changes nothing else *)
  Lemma create_signature_spec : forall md sg md' msg,
    signed_msg md = Ok msg -> create_signature sign md sg = Ok md' ->
    md' = set_sigs md (md_sigs md ++ [entry_of msg sg]).
  Proof.
    intros [sigs p|pb pt sigs parsed] sg md' msg Hm H; cbn [create_signature] in H; cbn [signed_msg] in Hm.
    - rewrite Hm in H. cbn [bind] in H. inversion H. reflexivity.
    - destruct sg; [|discriminate H]. inversion Hm; subst msg. inversion H. reflexivity.
  Qed.

  Lemma create_signature_mb : forall sigs p sg msg, signable_bytes (payload_asdict p) = Ok msg ->
    create_signature sign (Metablock sigs p) sg = Ok (Metablock (sigs ++ [entry_of msg sg]) p).
  Proof. intros sigs p sg msg Hm. cbn [create_signature]. rewrite Hm. reflexivity. Qed.

  Lemma create_signatures_spec : forall ks md md' msg,
    signed_msg md = Ok msg -> create_signatures sign md ks = Ok md' ->
    md' = set_sigs md (md_sigs md ++ map (entry_of msg) ks).
  Proof.
    induction ks as [|sg ks IH]; intros md md' msg Hm H; cbn [create_signatures] in H.
    - inversion H. cbn [map]. rewrite app_nil_r. symmetry. apply set_sigs_self.
    - destruct (create_signature sign md sg) as [md1|] eqn:E1; cbn [bind] in H; [|discriminate H].
      pose proof (create_signature_spec md sg md1 msg Hm E1) as ->.
      apply (IH _ _ msg) in H; [|rewrite signed_msg_set_sigs; exact Hm].
      rewrite H, set_sigs_set_sigs, md_sigs_set_sigs, <- app_assoc. reflexivity.
  Qed.

  (** the signature list after a sequence of in-toto-sign runs, as a function of the list before *)
  Fixpoint run_sigs (msg : list N) (os : list sign_op) (cur : list json) : list json :=
    match os with
    | [] => cur
    | Replace ks :: r => run_sigs msg r (map (entry_of msg) ks)
    | Append ks :: r => run_sigs msg r (cur ++ map (entry_of msg) ks)
    end.
  (** the signers whose entries are in the final list: those of the last Replace and of all later Appends
      (of all Appends when nothing was replaced) *)
  Fixpoint live (os : list sign_op) (cur : list signer) : list signer :=
    match os with
    | [] => cur
    | Replace ks :: r => live r ks
    | Append ks :: r => live r (cur ++ ks)
    end.
  (** what survives of the list the sequence started from: everything, or nothing once a Replace ran *)
  Fixpoint base (os : list sign_op) (cur : list json) : list json :=
    match os with
    | [] => cur
    | Replace _ :: r => base r []
    | Append _ :: r => base r cur
    end.

  Lemma run_sigs_split : forall msg os b l,
    run_sigs msg os (b ++ map (entry_of msg) l) = base os b ++ map (entry_of msg) (live os l).
  Proof.
    intros msg. induction os as [|[ks|ks] os IH]; intros b l; cbn [run_sigs base live].
    - reflexivity.
    - apply (IH [] ks).
    - rewrite <- app_assoc, <- map_app. apply IH.
  Qed.

  Lemma apply_ops_spec : forall os md md' msg,
    signed_msg md = Ok msg -> apply_ops sign md os = Ok md' ->
    md' = set_sigs md (run_sigs msg os (md_sigs md)).
  Proof.
    induction os as [|o os IH]; intros md md' msg Hm H; cbn [apply_ops] in H.
    - inversion H. cbn [run_sigs]. symmetry. apply set_sigs_self.
    - destruct (apply_op sign md o) as [md1|] eqn:E1; cbn [bind] in H; [|discriminate H].
      destruct o as [ks|ks]; cbn [apply_op] in E1; cbn [run_sigs].
      + apply (create_signatures_spec ks _ _ msg) in E1; [|rewrite signed_msg_set_sigs; exact Hm].
        rewrite md_sigs_set_sigs, set_sigs_set_sigs in E1. cbn [app] in E1. subst md1.
        apply (IH _ _ msg) in H; [|rewrite signed_msg_set_sigs; exact Hm].
        rewrite md_sigs_set_sigs, set_sigs_set_sigs in H. exact H.
      + apply (create_signatures_spec ks _ _ msg) in E1; [|exact Hm]. subst md1.
        apply (IH _ _ msg) in H; [|rewrite signed_msg_set_sigs; exact Hm].
        rewrite md_sigs_set_sigs, set_sigs_set_sigs in H. exact H.
  Qed.

  Lemma apply_ops_sigs : forall os md md' msg,
    signed_msg md = Ok msg -> apply_ops sign md os = Ok md' ->
    md' = set_sigs md (base os (md_sigs md) ++ map (entry_of msg) (live os [])).
  Proof.
    intros os md md' msg Hm H. rewrite (apply_ops_spec os md md' msg Hm H).
    rewrite <- (run_sigs_split msg os (md_sigs md) []). cbn [map]. rewrite app_nil_r. reflexivity.
  Qed.

  (** first occurrence of a property in a list *)
  Lemma first_split : forall (A : Type) (P : A -> bool) l x, In x l -> P x = true ->
    exists l1 y l2, l = l1 ++ y :: l2 /\ (forall z, In z l1 -> P z = false) /\ P y = true.
  Proof.
    intros A P. induction l as [|a l IH]; intros x Hin Hx; [contradiction|].
    destruct (P a) eqn:Ea.
    - exists [], a, l. split; [reflexivity|]. split; [intros z []|exact Ea].
    - destruct Hin as [->|Hin]; [congruence|].
      destruct (IH x Hin Hx) as [l1 [y [l2 [E [H1 H2]]]]].
      exists (a :: l1), y, l2. split; [rewrite E; reflexivity|]. split; [|exact H2].
      intros z [<-|Hz]; [exact Ea|apply H1; exact Hz].
  Qed.

  (* ---------------------------------------------------------------- *)
  (** * Sign, then verify *)

  Theorem sign_verify_mb_sslib : forall old p kid pub key msg,
    sslib_key_for key kid pub ->
    signable_bytes (payload_asdict p) = Ok msg ->
    (forall s, In s old -> sig_matches key s = false) ->
    hex_even (sign pub msg) = true -> sig_ok pub msg (sign pub msg) = true ->
    exists md', create_signature sign (Metablock old p) (SgSslib kid pub) = Ok md' /\
                verify_signature sig_ok now_s md' key = Ok tt.
  Proof.
    intros old p kid pub key msg Hkey Hm Hold Hh Hs.
    eexists. split; [apply create_signature_mb; exact Hm|].
    rewrite entry_of_sslib.
    rewrite (verify_mb_first_sslib sig_ok now_s old [] p key kid pub _ msg Hkey Hold Hm), Hh, Hs. reflexivity.
  Qed.

  Theorem sign_verify_mb_gpg : forall old p mkid sk hd key msg,
    gpg_key_for now_s key mkid sk ->
    signable_bytes (payload_asdict p) = Ok msg ->
    (forall s, In s old -> sig_matches key s = false) ->
    gpg_entry_ok sk (sign sk msg) hd = true ->
    sig_ok sk msg (gpg_sig_value (sign sk msg) hd) = true ->
    exists md', create_signature sign (Metablock old p) (SgGpg sk hd) = Ok md' /\
                verify_signature sig_ok now_s md' key = Ok tt.
  Proof.
    intros old p mkid sk hd key msg Hkey Hm Hold Hok Hs.
    eexists. split; [apply create_signature_mb; exact Hm|].
    rewrite entry_of_gpg.
    rewrite (verify_mb_first_gpg sig_ok now_s old [] p key mkid sk _ hd msg Hkey Hold Hm Hok), Hs. reflexivity.
  Qed.

  Theorem sign_verify_env : forall pb pt old parsed kid pub key,
    sslib_key_for key kid pub ->
    hex_even (sign pub (pae (utf8 pt) pb)) = true -> sig_ok pub (pae (utf8 pt) pb) (sign pub (pae (utf8 pt) pb)) = true ->
    exists md', create_signature sign (Envelope pb pt old parsed) (SgSslib kid pub) = Ok md' /\
                verify_signature sig_ok now_s md' key = Ok tt.
  Proof.
    intros pb pt old parsed kid pub key Hkey Hh Hs.
    eexists. split; [reflexivity|].
    apply (verify_env_any sig_ok now_s pb pt _ parsed key kid pub (sign pub (pae (utf8 pt) pb)) Hkey); [|exact Hh|exact Hs].
    apply in_or_app. right. left. reflexivity.
  Qed.

  (** a GPGSigner cannot sign an envelope *)
  Theorem sign_env_gpg : forall pb pt old parsed kid hd,
    create_signature sign (Envelope pb pt old parsed) (SgGpg kid hd) = Err ENotImplemented.
  Proof. reflexivity. Qed.

  (* ---------------------------------------------------------------- *)
  (** * in-toto-sign sequences *)

  Theorem sign_ops_env : forall os pb pt s0 parsed md' kid pub key,
    apply_ops sign (Envelope pb pt s0 parsed) os = Ok md' ->
    In (SgSslib kid pub) (live os []) ->
    sslib_key_for key kid pub ->
    hex_even (sign pub (pae (utf8 pt) pb)) = true -> sig_ok pub (pae (utf8 pt) pb) (sign pub (pae (utf8 pt) pb)) = true ->
    verify_signature sig_ok now_s md' key = Ok tt.
  Proof.
    intros os pb pt s0 parsed md' kid pub key H Hin Hkey Hh Hs.
    rewrite (apply_ops_sigs os (Envelope pb pt s0 parsed) md' (pae (utf8 pt) pb) eq_refl H). cbn [set_sigs md_sigs].
    apply (verify_env_any sig_ok now_s pb pt _ parsed key kid pub (sign pub (pae (utf8 pt) pb)) Hkey); [|exact Hh|exact Hs].
    apply in_or_app. right. rewrite <- entry_of_sslib. apply in_map. exact Hin.
  Qed.

  (** Metablock: the FIRST entry whose key id matches decides.  Forced hypotheses: nothing that survives from the
      initial list matches the key, and every live signer whose entry matches the key is this very key *)
  Theorem sign_ops_mb : forall os s0 p md' kid pub key msg,
    apply_ops sign (Metablock s0 p) os = Ok md' ->
    signable_bytes (payload_asdict p) = Ok msg ->
    In (SgSslib kid pub) (live os []) ->
    sslib_key_for key kid pub ->
    (forall s, In s (base os s0) -> sig_matches key s = false) ->
    (forall sg, In sg (live os []) -> sig_matches key (entry_of msg sg) = true -> sg = SgSslib kid pub) ->
    hex_even (sign pub msg) = true -> sig_ok pub msg (sign pub msg) = true ->
    verify_signature sig_ok now_s md' key = Ok tt.
  Proof.
    intros os s0 p md' kid pub key msg H Hm Hin Hkey Hbase Huniq Hh Hs.
    rewrite (apply_ops_sigs os (Metablock s0 p) md' msg Hm H). cbn [set_sigs md_sigs].
    destruct (first_split signer (fun sg => sig_matches key (entry_of msg sg)) (live os []) (SgSslib kid pub) Hin)
      as [l1 [y [l2 [E [H1 H2]]]]].
    { rewrite entry_of_sslib. apply (sslib_entry_matches key kid pub _ Hkey). }
    assert (y = SgSslib kid pub) as ->.
    { apply Huniq; [rewrite E; apply in_or_app; right; left; reflexivity|exact H2]. }
    rewrite E, map_app. cbn [map]. rewrite app_assoc, entry_of_sslib.
    rewrite (verify_mb_first_sslib sig_ok now_s _ _ p key kid pub _ msg Hkey); [rewrite Hh, Hs; reflexivity| |exact Hm].
    intros s Hs'. apply in_app_or in Hs'. destruct Hs' as [Hs'|Hs']; [apply Hbase; exact Hs'|].
    apply in_map_iff in Hs'. destruct Hs' as [z [<- Hz]]. apply H1. exact Hz.
  Qed.

  (* ---------------------------------------------------------------- *)
  (** * Tampering *)

  (** Metablock, same signature list, two contents both accepted: the contents are the same *)
  Theorem tamper_content_mb : forall sigs p1 p2 key,
    ideal sig_ok ->
    wf_json (payload_asdict p1) = true -> wf_json (payload_asdict p2) = true ->
    verify_signature sig_ok now_s (Metablock sigs p1) key = Ok tt ->
    verify_signature sig_ok now_s (Metablock sigs p2) key = Ok tt ->
    norm (payload_asdict p1) = norm (payload_asdict p2).
  Proof.
    intros sigs p1 p2 key Hideal W1 W2 V1 V2.
    destruct (verify_mb_sound sig_ok now_s sigs p1 key V1) as [s1 [m1 [F1 [M1 A1]]]].
    destruct (verify_mb_sound sig_ok now_s sigs p2 key V2) as [s2 [m2 [F2 [M2 A2]]]].
    rewrite F1 in F2. inversion F2; subst s2.
    destruct (entry_verdict_true sig_ok now_s key s1 m1 A1) as [t1 [v1 [T1 O1]]].
    destruct (entry_verdict_true sig_ok now_s key s1 m2 A2) as [t2 [v2 [T2 O2]]].
    rewrite T1 in T2. inversion T2; subst t2 v2.
    pose proof (Hideal t1 m1 m2 v1 O1 O2) as E. subst m2.
    exact (signable_bytes_inj _ _ m1 W1 W2 M1 M2).
  Qed.

  (** Envelope whose entries under this key were all made over one payload: no other payload verifies *)
  Theorem tamper_content_env : forall sigs pb1 pt1 pb2 pt2 parsed2 key,
    ideal sig_ok ->
    (forall s, In s sigs -> forall m, sslib_verify sig_ok s key m = Ok true -> m = pae (utf8 pt1) pb1) ->
    verify_signature sig_ok now_s (Envelope pb2 pt2 sigs parsed2) key = Ok tt ->
    pb2 = pb1 /\ pt2 = pt1.
  Proof.
    intros sigs pb1 pt1 pb2 pt2 parsed2 key _ Hall V.
    destruct (verify_env_sound sig_ok now_s pb2 pt2 sigs parsed2 key V) as [s [Hin Hs]].
    pose proof (Hall s Hin _ Hs) as E. apply pae_inj in E. destruct E as [Et Ep].
    split; [exact Ep|]. apply utf8_inj_gen. exact Et.
  Qed.

  (** the premise of [tamper_content_env] holds for entries the oracle accepts over the original payload *)
  Lemma entries_bound : forall sigs key m0,
    ideal sig_ok ->
    (forall s, In s sigs -> sig_matches key s = true -> sslib_verify sig_ok s key m0 = Ok true) ->
    forall s, In s sigs -> forall m, sslib_verify sig_ok s key m = Ok true -> m = m0.
  Proof.
    intros sigs key m0 Hideal Hall s Hin m Hs.
    destruct (sslib_verify_true sig_ok s key m Hs) as [kid [pub [sval [kv [E1 [E2 [E3 [E4 [E5 E6]]]]]]]]].
    assert (sig_matches key s = true) as Hm.
    { unfold sig_matches. rewrite E2, E1, eqs_refl. reflexivity. }
    pose proof (Hall s Hin Hm) as H0.
    destruct (sslib_verify_true sig_ok s key m0 H0) as [kid' [pub' [sval' [kv' [_ [_ [E3' [E4' [E5' E6']]]]]]]]].
    rewrite E3 in E3'. inversion E3'; subst sval'. rewrite E4 in E4'. inversion E4'; subst kv'.
    rewrite E5 in E5'. inversion E5'; subst pub'.
    exact (Hideal pub m m0 sval E6 E6').
  Qed.

  (** a changed signature value under the same key id: rejected exactly when the oracle rejects the new value *)
  Theorem tamper_sigvalue_mb : forall old rest p key kid pub v' msg,
    sslib_key_for key kid pub -> (forall s, In s old -> sig_matches key s = false) ->
    signable_bytes (payload_asdict p) = Ok msg ->
    sig_ok pub msg v' = false ->
    verify_signature sig_ok now_s (Metablock (old ++ sslib_entry kid v' :: rest) p) key = Err ESignature.
  Proof.
    intros old rest p key kid pub v' msg Hkey Hold Hm Hv.
    rewrite (verify_mb_first_sslib sig_ok now_s old rest p key kid pub v' msg Hkey Hold Hm), Hv, andb_false_r.
    reflexivity.
  Qed.

  (** any other key: entries made by signers none of which holds the verifying key's material *)
  Definition sslib_signers (l : list signer) : Prop := forall sg, In sg l -> exists k p, sg = SgSslib k p.
  Definition oracle_honest (msg : list N) (l : list signer) : Prop :=
    forall k p, In (SgSslib k p) l -> sig_ok p msg (sign p msg) = true.

  Lemma other_key_entry : forall key kid2 pub2 msg sg,
    keys_separate sig_ok -> sslib_key_for key kid2 pub2 ->
    (exists k p, sg = SgSslib k p /\ p <> pub2 /\ sig_ok p msg (sign p msg) = true) ->
    sslib_verify sig_ok (entry_of msg sg) key msg <> Ok true.
  Proof.
    intros key kid2 pub2 msg sg Hsep [_ [Hk [kv [Hkv Hp]]]] [k [p [-> [Hne Hok]]]] Hv.
    destruct (sslib_verify_true sig_ok _ key msg Hv) as [kid [pub [sval [kv' [_ [_ [E3 [E4 [E5 E6]]]]]]]]].
    rewrite entry_of_sslib in E3. cbn in E3. inversion E3; subst sval.
    rewrite Hkv in E4. inversion E4; subst kv'. rewrite Hp in E5. inversion E5; subst pub.
    rewrite (Hsep p pub2 msg _ Hne Hok) in E6. discriminate E6.
  Qed.

  Theorem other_key_env : forall pb pt parsed signers key kid2 pub2,
    keys_separate sig_ok -> sslib_key_for key kid2 pub2 ->
    sslib_signers signers -> oracle_honest (pae (utf8 pt) pb) signers ->
    (forall k, ~ In (SgSslib k pub2) signers) ->
    verify_signature sig_ok now_s (Envelope pb pt (map (entry_of (pae (utf8 pt) pb)) signers) parsed) key = Err ESignature.
  Proof.
    intros pb pt parsed signers key kid2 pub2 Hsep Hkey Hss Hhon Hnot.
    apply (verify_env_none sig_ok now_s pb pt _ parsed key kid2 pub2 Hkey).
    intros s Hin. apply in_map_iff in Hin. destruct Hin as [sg [<- Hsg]].
    apply (other_key_entry key kid2 pub2 _ sg Hsep Hkey).
    destruct (Hss sg Hsg) as [k [p ->]]. exists k, p. split; [reflexivity|]. split.
    - intros ->. exact (Hnot k Hsg).
    - apply (Hhon k p Hsg).
  Qed.

  Theorem other_key_mb : forall p signers key kid2 pub2 msg,
    keys_separate sig_ok -> sslib_key_for key kid2 pub2 ->
    signable_bytes (payload_asdict p) = Ok msg ->
    sslib_signers signers -> oracle_honest msg signers ->
    (forall k, ~ In (SgSslib k pub2) signers) ->
    verify_signature sig_ok now_s (Metablock (map (entry_of msg) signers) p) key = Err ESignature.
  Proof.
    intros p signers key kid2 pub2 msg Hsep Hkey Hm Hss Hhon Hnot.
    destruct (find (fun sg => sig_matches key (entry_of msg sg)) signers) as [sg|] eqn:Ef.
    - (* some entry matches the key id: the first one is checked and the oracle rejects it *)
      apply find_some in Ef. destruct Ef as [Hin Hmt].
      destruct (first_split signer (fun sg => sig_matches key (entry_of msg sg)) signers sg Hin Hmt)
        as [l1 [y [l2 [E [H1 H2]]]]].
      assert (In y signers) as Hy by (rewrite E; apply in_or_app; right; left; reflexivity).
      destruct (Hss y Hy) as [k [pk Ey]]. subst y.
      rewrite E, map_app. cbn [map]. rewrite entry_of_sslib in *.
      rewrite (verify_mb_first_sslib_gen sig_ok now_s _ _ p key kid2 pub2 k _ msg Hkey); [| |exact H2|exact Hm].
      + assert (pk <> pub2) as Hne by (intros ->; exact (Hnot k Hy)).
        rewrite (Hsep pk pub2 msg _ Hne (Hhon k pk Hy)), andb_false_r. reflexivity.
      + intros s Hs'. apply in_map_iff in Hs'. destruct Hs' as [z [<- Hz]]. apply H1. exact Hz.
    - apply (verify_mb_no_match sig_ok now_s _ p key kid2 pub2 Hkey).
      + intros s Hs'. apply in_map_iff in Hs'. destruct Hs' as [z [<- Hz]].
        exact (find_none _ _ Ef z Hz).
      + intros s Hs'. apply in_map_iff in Hs'. destruct Hs' as [z [<- Hz]].
        destruct (Hss z Hz) as [k [pk ->]]. exists k. reflexivity.
  Qed.
End Signing.

(* ------------------------------------------------------------------ *)
(** * Serialisation: to_dict, from_dict, dump, load *)

Lemma link_asdict_type : forall l, jget S__type (link_asdict l) = Some (JStr S_link).
Proof. reflexivity. Qed.
Lemma layout_asdict_type : forall l, jget S__type (layout_asdict l) = Some (JStr S_layout).
Proof. reflexivity. Qed.
Lemma payload_asdict_dict : forall p, exists m, payload_asdict p = JDict m.
Proof. intros [l|l]; eexists; reflexivity. Qed.

Lemma mapM_ok_same : forall (A B : Type) (f : A -> res B) l ys, mapM f l = Ok ys ->
  forall (g : A -> res unit), (forall x y, f x = Ok y -> g x = Ok tt) -> exists us, mapM g l = Ok us.
Proof.
  intros A B f. induction l as [|x l IH]; intros ys H g Hg; cbn [mapM] in *.
  - eexists; reflexivity.
  - destruct (f x) as [y|] eqn:Ex; cbn [bind] in H; [|discriminate H].
    destruct (mapM f l) as [ys'|] eqn:El; cbn [bind] in H; [|discriminate H].
    rewrite (Hg x y Ex). cbn [bind]. destruct (IH ys' eq_refl g Hg) as [us ->]. cbn [bind]. eexists; reflexivity.
Qed.

(** Link.read is idempotent on what it produced: reading the attr.asdict of a loaded link gives the link *)
Theorem read_link_idem : forall d l, read_link d = Ok l -> read_link (link_asdict l) = Ok l.
Proof.
  intros d l H. unfold read_link in H. destruct d; try discriminate H. cbv zeta in H.
  destruct (jget_default S_materials (JDict []) (JDict l0)) as [| | | | | |m] eqn:Em; try discriminate H.
  destruct (jget_default S_products (JDict []) (JDict l0)) as [| | | | | |pr] eqn:Ep; try discriminate H.
  destruct (jget_default S_byproducts (JDict []) (JDict l0)) as [| | | | | |bp] eqn:Eb; try discriminate H.
  destruct (jget_default S_command (JList []) (JDict l0)) as [| | | | |cm|] eqn:Ec; try discriminate H.
  destruct (jget_default S_environment (JDict []) (JDict l0)) as [| | | | | |en] eqn:Ee; try discriminate H.
  destruct (mapM (fun kv => check_hash_dict (snd kv)) m) as [u1|] eqn:E1; cbn [bind] in H; [|discriminate H].
  destruct (mapM (fun kv => check_hash_dict (snd kv)) pr) as [u2|] eqn:E2; cbn [bind] in H; [|discriminate H].
  inversion H; subst l. clear H.
  unfold read_link, link_asdict. cbn [l_name l_materials l_products l_byproducts l_command l_environment]. cbv zeta.
  match goal with |- context [jget_default S_materials (JDict []) ?D] =>
    replace (jget_default S_materials (JDict []) D) with (JDict m) by reflexivity;
    replace (jget_default S_products (JDict []) D) with (JDict pr) by reflexivity;
    replace (jget_default S_byproducts (JDict []) D) with (JDict bp) by reflexivity;
    replace (jget_default S_command (JList []) D) with (JList cm) by reflexivity;
    replace (jget_default S_environment (JDict []) D) with (JDict en) by reflexivity;
    replace (jget_default S_name JNull D) with (jget_default S_name JNull (JDict l0)) by reflexivity
  end.
  rewrite E1, E2. reflexivity.
Qed.

Section Serial.
  Variable b64enc : list N -> str.
  Variable b64dec : str -> option (list N).
  Variable dumps : json -> list N.
  Variable loads : list N -> option json.

  Definition sigs_wellformed (sigs : list json) : Prop := forall s, In s sigs -> exists sh, check_signature s = Ok sh.

  Lemma mapM_check_signature : forall sigs, sigs_wellformed sigs -> exists us, mapM check_signature sigs = Ok us.
  Proof.
    induction sigs as [|s sigs IH]; intros H; cbn [mapM]; [eexists; reflexivity|].
    destruct (H s (or_introl eq_refl)) as [sh ->]. cbn [bind].
    destruct IH as [us ->]; [intros x Hx; apply H; right; exact Hx|]. cbn [bind]. eexists; reflexivity.
  Qed.

  (** Metablock: from_dict inverts to_dict on every loader-produced payload *)
  Theorem from_dict_to_dict_mb : forall sigs p d,
    read_payload (payload_asdict p) = Ok p -> sigs_wellformed sigs ->
    to_dict b64enc (Metablock sigs p) = Ok d ->
    from_dict b64dec loads d = Ok (Metablock sigs p).
  Proof.
    intros sigs p d Hp Hs Hd. cbn [to_dict] in Hd. inversion Hd; subst d. clear Hd.
    unfold from_dict.
    match goal with |- context [has S_payload ?D] =>
      replace (has S_payload D) with false by reflexivity;
      replace (has S_signed D) with true by reflexivity;
      replace (jget_default S_signatures (JList []) D) with (JList sigs) by reflexivity;
      replace (jget_default S_signed (JDict []) D) with (payload_asdict p) by reflexivity
    end.
    cbv zeta.
    destruct (mapM_check_signature sigs Hs) as [us Hus].
    unfold read_payload in Hp.
    destruct p as [l|l]; cbn [payload_asdict] in *.
    - rewrite link_asdict_type in *. replace (eqs S_link S_link) with true in * by reflexivity.
      destruct (read_link (link_asdict l)) as [l'|] eqn:El; cbn [bind] in Hp; [|discriminate Hp].
      inversion Hp; subst l'.
      unfold link_asdict at 1. cbn [bind]. rewrite Hus. reflexivity.
    - rewrite layout_asdict_type in *. replace (eqs S_layout S_link) with false in * by reflexivity.
      replace (eqs S_layout S_layout) with true in * by reflexivity.
      destruct (read_layout (layout_asdict l)) as [l'|] eqn:El; cbn [bind] in Hp; [|discriminate Hp].
      inversion Hp; subst l'.
      unfold layout_asdict at 1. cbn [bind]. rewrite Hus. reflexivity.
  Qed.

  (** hex text of signatures *)
  Lemma lower_hex_char_rt : forall a, is_lower_hex_char a = true ->
    exists x, hexval a = Some x /\ (x < 16)%N /\ hexdigit x = a.
  Proof.
    intros a H. unfold is_lower_hex_char in H.
    assert (a = 48 \/ a = 49 \/ a = 50 \/ a = 51 \/ a = 52 \/ a = 53 \/ a = 54 \/ a = 55 \/ a = 56 \/ a = 57 \/
            a = 97 \/ a = 98 \/ a = 99 \/ a = 100 \/ a = 101 \/ a = 102)%N as Hc.
    { apply orb_true_iff in H. destruct H as [H|H]; apply andb_true_iff in H; destruct H as [H1 H2];
        apply N.leb_le in H1; apply N.leb_le in H2; lia. }
    repeat (destruct Hc as [->|Hc]; [eexists; split; [reflexivity|split; [reflexivity|reflexivity]]|]).
    subst a. eexists; split; [reflexivity|split; reflexivity].
  Qed.

  Lemma hex_pair_rt : forall x y, (x < 16)%N -> (y < 16)%N ->
    ((x * 16 + y) / 16 = x)%N /\ ((x * 16 + y) mod 16 = y)%N /\ (x * 16 + y < 256)%N.
  Proof.
    intros x y Hx Hy. split; [|split].
    - rewrite N.div_add_l by lia. rewrite (N.div_small y 16) by lia. lia.
    - rewrite N.add_comm, N.mod_add by lia. apply N.mod_small. lia.
    - lia.
  Qed.

  Lemma fromhex_fuel_rt : forall n s, (length s <= n)%nat -> forallb is_lower_hex_char s = true -> Nat.even (length s) = true ->
    exists b, fromhex_fuel n s = Some b /\ bytes_to_hex b = s /\ is_bytes b = true.
  Proof.
    induction n as [|n IH]; intros s Hl Hc He.
    - destruct s; [exists []; repeat split|cbn in Hl; lia].
    - destruct s as [|a [|b r]].
      + exists []. repeat split.
      + cbn in He. discriminate He.
      + cbn [forallb] in Hc. apply andb_true_iff in Hc. destruct Hc as [Ha Hc].
        apply andb_true_iff in Hc. destruct Hc as [Hb Hc].
        destruct (lower_hex_char_rt a Ha) as [x [Ex [Hx Dx]]].
        destruct (lower_hex_char_rt b Hb) as [y [Ey [Hy Dy]]].
        destruct (IH r) as [t [Et [Ht Hbt]]]; [cbn in Hl; lia|exact Hc|exact He|].
        cbn [fromhex_fuel]. rewrite Ex, Ey, Et.
        destruct (hex_pair_rt x y Hx Hy) as [Hd [Hm Hlt]].
        exists ((x * 16 + y)%N :: t). split; [reflexivity|]. split.
        * unfold bytes_to_hex in *. cbn [flat_map]. rewrite Ht, Hd, Hm, Dx, Dy. reflexivity.
        * cbn [is_bytes forallb]. unfold is_bytes in Hbt. rewrite Hbt.
          apply N.ltb_lt in Hlt. rewrite Hlt. reflexivity.
  Qed.

  Lemma fromhex_rt : forall s, lower_hex_even s = true ->
    exists b, fromhex s = Some b /\ bytes_to_hex b = s /\ has_ws s = false.
  Proof.
    intros s H. unfold lower_hex_even in H. apply andb_true_iff in H. destruct H as [Hc He].
    destruct (fromhex_fuel_rt (length s) s (le_n _) Hc He) as [b [E1 [E2 _]]].
    exists b. split; [exact E1|]. split; [exact E2|].
    unfold has_ws. destruct (existsb _ s) eqn:Ee; [|reflexivity].
    apply existsb_exists in Ee. destruct Ee as [c [Hin Hw]].
    rewrite forallb_forall in Hc. specialize (Hc c Hin). unfold is_lower_hex_char in Hc.
    exfalso.
    apply orb_true_iff in Hw. apply orb_true_iff in Hc.
    destruct Hc as [Hc|Hc]; apply andb_true_iff in Hc; destruct Hc as [H1 H2];
      apply N.leb_le in H1; apply N.leb_le in H2;
      (destruct Hw as [Hw|Hw]; [apply andb_true_iff in Hw; destruct Hw as [H3 H4]; apply N.leb_le in H4; lia
                               |apply N.eqb_eq in Hw; lia]).
  Qed.

  (** an envelope as the loader and the signers produce it *)
  Definition env_entry_ok (s : json) : Prop :=
    exists kid hex, s = JDict [(S_keyid, kid); (S_sig, JStr hex)] /\ lower_hex_even hex = true.
  Definition wf_envelope (md : metadata) : Prop :=
    match md with
    | Envelope pb pt sigs parsed => pt = S_envelope_payload_type /\ parsed = loads pb /\ (forall s, In s sigs -> env_entry_ok s)
    | Metablock _ _ => False
    end.

  Theorem from_dict_to_dict_env : forall md,
    (forall b, b64dec (b64enc b) = Some b) -> wf_envelope md ->
    exists d, to_dict b64enc md = Ok d /\ from_dict b64dec loads d = Ok md.
  Proof.
    intros md Hb64 Hwf. destruct md as [|pb pt sigs parsed]; [contradiction|].
    destruct Hwf as [-> [-> Hs]].
    assert (exists sl, mapM (env_sig_to_dict b64enc) sigs = Ok sl /\
              mapM (fun s => match jget S_sig s, jget S_keyid s with
                             | Some (JStr s64), Some kid =>
                                 match b64dec s64 with
                                 | Some sb => Ok (JDict [(S_keyid, kid); (S_sig, JStr (bytes_to_hex sb))])
                                 | None => Err EValueError
                                 end
                             | Some (JStr _), None => Err EKeyError
                             | _, _ => Err EKeyError
                             end) sl = Ok sigs) as [sl [E1 E2]].
    { induction sigs as [|s sigs IH]; [exists []; split; reflexivity|].
      destruct (Hs s (or_introl eq_refl)) as [kid [hex [-> Hh]]].
      destruct (fromhex_rt hex Hh) as [b [Ef [Eb Ew]]].
      destruct IH as [sl [E1 E2]]; [intros x Hx; apply Hs; right; exact Hx|].
      exists (JDict [(S_keyid, kid); (S_sig, JStr (b64enc b))] :: sl). split.
      - cbn [mapM]. unfold env_sig_to_dict at 1.
        replace (jget S_keyid (JDict [(S_keyid, kid); (S_sig, JStr hex)])) with (Some kid) by reflexivity.
        replace (jstr_of (jget S_sig (JDict [(S_keyid, kid); (S_sig, JStr hex)]))) with (Some hex) by reflexivity.
        rewrite Ew, Ef. cbn [bind]. rewrite E1. reflexivity.
      - cbn [mapM].
        replace (jget S_sig (JDict [(S_keyid, kid); (S_sig, JStr (b64enc b))])) with (Some (JStr (b64enc b))) by reflexivity.
        replace (jget S_keyid (JDict [(S_keyid, kid); (S_sig, JStr (b64enc b))])) with (Some kid) by reflexivity.
        rewrite Hb64, Eb. cbn [bind]. rewrite E2. reflexivity. }
    eexists. split.
    - cbn [to_dict]. rewrite E1. reflexivity.
    - unfold from_dict.
      match goal with |- context [has S_payload ?D] =>
        replace (has S_payload D) with true by reflexivity;
        replace (jget S_payloadType D) with (Some (JStr S_envelope_payload_type)) by reflexivity;
        replace (jget S_payload D) with (Some (JStr (b64enc pb))) by reflexivity;
        replace (jget S_signatures D) with (Some (JList sl)) by reflexivity
      end.
      replace (eqs S_envelope_payload_type S_envelope_payload_type) with true by reflexivity.
      rewrite Hb64, E2. reflexivity.
  Qed.

  (** dump, then load *)
  Theorem load_dump_mb : forall sigs p file,
    (forall v, loads (dumps v) = Some v) ->
    read_payload (payload_asdict p) = Ok p -> sigs_wellformed sigs ->
    dump b64enc dumps (Metablock sigs p) = Ok file ->
    from_dict b64dec loads match loads file with Some d => d | None => JNull end = Ok (Metablock sigs p).
  Proof.
    intros sigs p file Hl Hp Hs Hd. unfold dump in Hd.
    destruct (to_dict b64enc (Metablock sigs p)) as [d|] eqn:Ed; cbn [bind] in Hd; [|discriminate Hd].
    inversion Hd; subst file. rewrite Hl. exact (from_dict_to_dict_mb sigs p d Hp Hs Ed).
  Qed.
End Serial.

(* ------------------------------------------------------------------ *)
(** * The loader is idempotent: reading attr.asdict of a loaded object gives back the object *)

Ltac bind_step H x E :=
  match type of H with (bind ?X _) = Ok _ => destruct X as [x|] eqn:E; cbn [bind] in H; [|discriminate H] end.

Lemma mapM_idem : forall (A B : Type) (f : A -> res B) (g : B -> A) l ys, mapM f l = Ok ys ->
  (forall x y, f x = Ok y -> f (g y) = Ok y) -> mapM f (map g ys) = Ok ys.
Proof.
  intros A B f g. induction l as [|a l IH]; intros ys H Hf; cbn [mapM] in H.
  - inversion H. reflexivity.
  - destruct (f a) as [y|] eqn:E; cbn [bind] in H; [|discriminate H].
    destruct (mapM f l) as [ys'|] eqn:El; cbn [bind] in H; [|discriminate H].
    inversion H; subst ys. cbn [map mapM]. rewrite (Hf a y E). cbn [bind].
    rewrite (IH ys' eq_refl Hf). reflexivity.
Qed.

Lemma check_rules_ok : forall j em, check_rules j = Ok em -> j = JList em /\ check_rules (JList em) = Ok em.
Proof.
  intros j em H. unfold check_rules in H. destruct j; try discriminate H.
  destruct (mapM unpack_rule l) as [u|] eqn:E; cbn [bind] in H; [|discriminate H].
  inversion H; subst l. split; [reflexivity|]. unfold check_rules. rewrite E. reflexivity.
Qed.

Definition read_pubkey (k : json) : res str :=
  match k with JStr s => if is_hex s then Ok s else Err EFormat | _ => Err EFormat end.

Lemma read_pubkey_idem : forall x y, read_pubkey x = Ok y -> read_pubkey (JStr y) = Ok y.
Proof.
  intros x y H. unfold read_pubkey in *. destruct x; try discriminate H.
  destruct (is_hex s) eqn:E; [|discriminate H]. inversion H; subst y. rewrite E. reflexivity.
Qed.

Theorem read_step_idem : forall d s, read_step d = Ok s -> read_step (step_asdict s) = Ok s.
Proof.
  intros d s H. unfold read_step in H. destruct d; try discriminate H.
  bind_step H name En. bind_step H cmd Ec. bind_step H em Eem. bind_step H ep Eep. bind_step H pk Epk. bind_step H thr Et.
  inversion H; subst s. clear H.
  unfold read_name in En. destruct (jget_default S_name JNull (JDict l)) as [| | | |nm| |]; try discriminate En.
  inversion En; subst nm. clear En.
  destruct (jget_default S_expected_command (JList []) (JDict l)) as [| | | | |c|]; try discriminate Ec.
  inversion Ec; subst c. clear Ec.
  apply check_rules_ok in Eem. destruct Eem as [_ Eem]. apply check_rules_ok in Eep. destruct Eep as [_ Eep].
  destruct (jget_default S_pubkeys (JList []) (JDict l)) as [| | | | |pl|]; try discriminate Epk.
  change (mapM read_pubkey pl = Ok pk) in Epk.
  pose proof (mapM_idem _ _ read_pubkey JStr pl pk Epk read_pubkey_idem) as Epk'.
  assert (match thr with JInt z => Ok (JInt z) | JBool b => Ok (JBool b) | _ => Err EFormat end = Ok thr) as Et'.
  { destruct (jget_default S_threshold (JInt 1) (JDict l)); try discriminate Et; inversion Et; reflexivity. }
  unfold read_step, step_asdict. cbn [st_name st_em st_ep st_pubkeys st_cmd st_thr_raw].
  match goal with |- context [read_name ?D] =>
    replace (read_name D) with (@Ok str name) by reflexivity;
    replace (jget_default S_expected_command (JList []) D) with (JList cmd) by reflexivity;
    replace (jget_default S_expected_materials (JList []) D) with (JList em) by reflexivity;
    replace (jget_default S_expected_products (JList []) D) with (JList ep) by reflexivity;
    replace (jget_default S_pubkeys (JList []) D) with (jstr_list pk) by reflexivity;
    replace (jget_default S_threshold (JInt 1) D) with thr by reflexivity
  end.
  cbn [bind]. rewrite Eem, Eep. cbn [bind]. unfold jstr_list.
  change (mapM (fun k => match k with JStr s => if is_hex s then Ok s else Err EFormat | _ => Err EFormat end) (map JStr pk))
    with (mapM read_pubkey (map JStr pk)).
  rewrite Epk'. cbn [bind]. rewrite Et'. reflexivity.
Qed.

Theorem read_insp_idem : forall d i, read_insp d = Ok i -> read_insp (insp_asdict i) = Ok i.
Proof.
  intros d i H. unfold read_insp in H. destruct d; try discriminate H.
  bind_step H name En. bind_step H em Eem. bind_step H ep Eep. bind_step H run Er.
  inversion H; subst i. clear H.
  unfold read_name in En. destruct (jget_default S_name JNull (JDict l)) as [| | | |nm| |]; try discriminate En.
  inversion En; subst nm. clear En.
  apply check_rules_ok in Eem. destruct Eem as [_ Eem]. apply check_rules_ok in Eep. destruct Eep as [_ Eep].
  destruct (jget_default S_run (JList []) (JDict l)) as [| | | | |r|]; try discriminate Er.
  inversion Er; subst r. clear Er.
  unfold read_insp, insp_asdict. cbn [in_name in_em in_ep in_run].
  match goal with |- context [read_name ?D] =>
    replace (read_name D) with (@Ok str name) by reflexivity;
    replace (jget_default S_expected_materials (JList []) D) with (JList em) by reflexivity;
    replace (jget_default S_expected_products (JList []) D) with (JList ep) by reflexivity;
    replace (jget_default S_run (JList []) D) with (JList run) by reflexivity
  end.
  cbn [bind]. rewrite Eem, Eep. reflexivity.
Qed.

Lemma check_public_keys_ok : forall j ks, check_public_keys j = Ok ks -> check_public_keys (JDict ks) = Ok ks.
Proof.
  intros j ks H. unfold check_public_keys in H. destruct j; try discriminate H.
  destruct (mapM _ l) as [u|] eqn:E; cbn [bind] in H; [|discriminate H].
  inversion H; subst l. unfold check_public_keys. rewrite E. reflexivity.
Qed.

Theorem read_layout_idem : forall d l, read_layout d = Ok l -> read_layout (layout_asdict l) = Ok l.
Proof.
  intros d l H. unfold read_layout in H. destruct d as [| | | | | |m]; try discriminate H.
  bind_step H steps Es. bind_step H insps Ei. bind_step H expires Ee. bind_step H us Eu. bind_step H ks Ek. bind_step H readme Er.
  destruct (first_dup [] (map st_name steps ++ map in_name insps)) eqn:Ed; [discriminate H|].
  inversion H; subst l. clear H.
  destruct (jget S_steps (JDict m)) as [[| | | | |sl|]|]; try discriminate Es.
  destruct (jget S_inspect (JDict m)) as [[| | | | |il|]|]; try discriminate Ei.
  pose proof (mapM_idem _ _ read_step step_asdict sl steps Es read_step_idem) as Es'.
  pose proof (mapM_idem _ _ read_insp insp_asdict il insps Ei read_insp_idem) as Ei'.
  assert (expires <> []) as Hne.
  { destruct (jget S_expires (JDict m)) as [[| | | |e| |]|]; try discriminate Ee.
    destruct e; [discriminate Ee|]. inversion Ee. discriminate. }
  apply check_public_keys_ok in Ek.
  assert (readme = readme) as _ by reflexivity.
  assert (exists rj, jget_default S_readme (JStr []) (JDict m) = rj /\
                     match rj with JStr s => Ok s | _ => Err EFormat end = Ok readme) as [rj [_ Er']] by (eexists; split; [reflexivity|exact Er]).
  destruct rj; try discriminate Er'. inversion Er'; subst s. clear Er'.
  unfold read_layout, layout_asdict. cbn [ly_steps ly_inspect ly_keys ly_expires ly_expires_us ly_readme].
  match goal with |- context [jget S_steps ?D] =>
    replace (jget S_steps D) with (Some (JList (map step_asdict steps))) by reflexivity;
    replace (jget S_inspect D) with (Some (JList (map insp_asdict insps))) by reflexivity;
    replace (jget S_expires D) with (Some (JStr expires)) by reflexivity;
    replace (jget_default S_keys (JDict []) D) with (JDict ks) by reflexivity;
    replace (jget_default S_readme (JStr []) D) with (JStr readme) by reflexivity
  end.
  rewrite Es', Ei'. cbn [bind].
  destruct expires as [|c e]; [congruence|]. cbn [bind].
  rewrite Eu. cbn [bind]. rewrite Ek. cbn [bind]. rewrite Ed. reflexivity.
Qed.

Theorem read_payload_idem : forall d p, read_payload d = Ok p -> read_payload (payload_asdict p) = Ok p.
Proof.
  intros d p H. unfold read_payload in H.
  destruct (jget S__type d) as [[| | | |t| |]|]; try discriminate H.
  destruct (eqs t S_link).
  - destruct (read_link d) as [l|] eqn:El; cbn [bind] in H; [|discriminate H]. inversion H; subst p.
    unfold read_payload. cbn [payload_asdict]. rewrite link_asdict_type.
    replace (eqs S_link S_link) with true by reflexivity.
    rewrite (read_link_idem d l El). reflexivity.
  - destruct (eqs t S_layout); [|discriminate H].
    destruct (read_layout d) as [l|] eqn:El; cbn [bind] in H; [|discriminate H]. inversion H; subst p.
    unfold read_payload. cbn [payload_asdict]. rewrite layout_asdict_type.
    replace (eqs S_layout S_link) with false by reflexivity.
    replace (eqs S_layout S_layout) with true by reflexivity.
    rewrite (read_layout_idem d l El). reflexivity.
Qed.

(* ------------------------------------------------------------------ *)
(** * What the loader returns is a fixed point of dump-and-load *)

Lemma hexdigit_lower : forall n, (n < 16)%N -> is_lower_hex_char (hexdigit n) = true.
Proof.
  intros n H. unfold hexdigit, is_lower_hex_char.
  destruct (N.ltb n 10) eqn:E.
  - apply N.ltb_lt in E. apply orb_true_iff. left. apply andb_true_iff. split; apply N.leb_le; lia.
  - apply N.ltb_ge in E. apply orb_true_iff. right. apply andb_true_iff. split; apply N.leb_le; lia.
Qed.

Lemma bytes_to_hex_lower : forall b, is_bytes b = true -> lower_hex_even (bytes_to_hex b) = true.
Proof.
  induction b as [|c b IH]; intros H; [reflexivity|].
  cbn [is_bytes forallb] in H. apply andb_true_iff in H. destruct H as [Hc Hb]. apply N.ltb_lt in Hc.
  specialize (IH Hb). unfold lower_hex_even in *. apply andb_true_iff in IH. destruct IH as [I1 I2].
  unfold bytes_to_hex in *. cbn [flat_map app forallb length].
  rewrite hexdigit_lower, hexdigit_lower, I1; [| |].
  - cbn [andb]. exact I2.
  - apply N.mod_lt. lia.
  - apply N.div_lt_upper_bound; lia.
Qed.

Section LoadFixpoint.
  Variable b64enc : list N -> str.
  Variable b64dec : str -> option (list N).
  Variable loads : list N -> option json.

  Lemma from_dict_mb_inv : forall d sigs p, from_dict b64dec loads d = Ok (Metablock sigs p) ->
    read_payload (payload_asdict p) = Ok p /\ sigs_wellformed sigs.
  Proof.
    intros d sigs p H. unfold from_dict in H. destruct d as [| | | | | |m]; try discriminate H.
    destruct (has S_payload (JDict m)).
    { destruct (jget S_payloadType (JDict m)) as [[| | | |pt| |]|]; try discriminate H.
      destruct (eqs pt S_envelope_payload_type); [|discriminate H].
      destruct (jget S_payload (JDict m)) as [[| | | |p64| |]|]; try discriminate H.
      destruct (jget S_signatures (JDict m)) as [[| | | | |sg|]|]; try discriminate H.
      destruct (b64dec p64); [|discriminate H].
      destruct (mapM _ sg); cbn [bind] in H; discriminate H. }
    destruct (has S_signed (JDict m)); [|discriminate H]. cbv zeta in H.
    destruct (jget_default S_signed (JDict []) (JDict m)) as [| | | | | |sd] eqn:Esd; try discriminate H.
    bind_step H p' Ep.
    destruct (jget_default S_signatures (JList []) (JDict m)) as [| | | | |sl|]; try discriminate H.
    bind_step H us Eus. inversion H; subst sl p'. clear H. split.
    - destruct (jget S__type (JDict sd)) as [[| | | |t| |]|] eqn:Et; try discriminate Ep.
      apply (read_payload_idem (JDict sd)). unfold read_payload. rewrite Et.
      destruct (eqs t S_link); [exact Ep|]. destruct (eqs t S_layout); [exact Ep|discriminate Ep].
    - clear Ep Esd. revert us Eus. induction sigs as [|s sigs IH]; intros us Eus x Hx; [contradiction|].
      cbn [mapM] in Eus. destruct (check_signature s) as [sh|] eqn:Es; cbn [bind] in Eus; [|discriminate Eus].
      destruct (mapM check_signature sigs) as [us'|] eqn:El; cbn [bind] in Eus; [|discriminate Eus].
      destruct Hx as [<-|Hx]; [exists sh; exact Es|exact (IH us' eq_refl x Hx)].
  Qed.

  Lemma from_dict_env_inv : forall d pb pt sigs parsed,
    (forall s b, b64dec s = Some b -> is_bytes b = true) ->
    from_dict b64dec loads d = Ok (Envelope pb pt sigs parsed) -> wf_envelope loads (Envelope pb pt sigs parsed).
  Proof.
    intros d pb pt sigs parsed Hbytes H. unfold from_dict in H. destruct d as [| | | | | |m]; try discriminate H.
    destruct (has S_payload (JDict m)).
    - destruct (jget S_payloadType (JDict m)) as [[| | | |pt'| |]|]; try discriminate H.
      destruct (eqs pt' S_envelope_payload_type) eqn:Ept; [|discriminate H]. apply eqs_eq in Ept. subst pt'.
      destruct (jget S_payload (JDict m)) as [[| | | |p64| |]|]; try discriminate H.
      destruct (jget S_signatures (JDict m)) as [[| | | | |sg|]|]; try discriminate H.
      destruct (b64dec p64) as [pbytes|]; [|discriminate H].
      bind_step H sigs' Es. inversion H; subst. clear H.
      split; [reflexivity|]. split; [reflexivity|].
      revert sigs Es. induction sg as [|s sg IH]; intros sigs Es x Hx; cbn [mapM] in Es.
      + inversion Es; subst sigs. contradiction.
      + bind_step Es y Ey. bind_step Es ys Eys. inversion Es; subst sigs. clear Es.
        destruct Hx as [<-|Hx]; [|exact (IH ys eq_refl x Hx)].
        destruct (jget S_sig s) as [[| | | |s64| |]|]; try discriminate Ey;
          destruct (jget S_keyid s) as [kid|]; try discriminate Ey.
        destruct (b64dec s64) as [sb|] eqn:Eb; [|discriminate Ey]. inversion Ey; subst y.
        exists kid, (bytes_to_hex sb). split; [reflexivity|]. apply bytes_to_hex_lower. exact (Hbytes s64 sb Eb).
    - destruct (has S_signed (JDict m)); [|discriminate H]. cbv zeta in H.
      destruct (jget_default S_signed (JDict []) (JDict m)); try discriminate H.
      bind_step H p' Ep. destruct (jget_default S_signatures (JList []) (JDict m)); try discriminate H.
      bind_step H us Eus. discriminate H.
  Qed.

  (** whatever file was loaded: dumping the loaded object and loading the dump gives the same object,
      hence the same signed bytes and the same verification verdicts *)
  Theorem load_fixpoint : forall d md,
    (forall b, b64dec (b64enc b) = Some b) -> (forall s b, b64dec s = Some b -> is_bytes b = true) ->
    from_dict b64dec loads d = Ok md ->
    exists d', to_dict b64enc md = Ok d' /\ from_dict b64dec loads d' = Ok md.
  Proof.
    intros d md Hb64 Hbytes H. destruct md as [sigs p|pb pt sigs parsed].
    - destruct (from_dict_mb_inv d sigs p H) as [Hp Hs].
      eexists. split; [reflexivity|]. exact (from_dict_to_dict_mb b64enc b64dec loads sigs p _ Hp Hs eq_refl).
    - exact (from_dict_to_dict_env b64enc b64dec loads _ Hb64 (from_dict_env_inv d pb pt sigs parsed Hbytes H)).
  Qed.
End LoadFixpoint.

(* ------------------------------------------------------------------ *)
(** * The loader does not depend on the order in which fields are supplied *)

Lemma lookup_perm : forall (A : Type) (l l' : list (str * A)), NoDup (map fst l) -> Permutation l l' ->
  forall k, lookup k l = lookup k l'.
Proof.
  intros A l l' Hnd Hp. induction Hp as [|[k0 v0] l l' Hp IH|[k1 v1] [k2 v2] l|l l' l'' Hp1 IH1 Hp2 IH2]; intros k.
  - reflexivity.
  - cbn [lookup]. destruct (eqs k k0); [reflexivity|]. apply IH. inversion Hnd; assumption.
  - cbn [lookup]. destruct (eqs k k2) eqn:E2; destruct (eqs k k1) eqn:E1; try reflexivity.
    apply eqs_eq in E1. apply eqs_eq in E2. subst k1 k2.
    cbn [map fst] in Hnd. inversion Hnd as [|? ? Hni _]. exfalso. apply Hni. left. reflexivity.
  - rewrite IH1 by exact Hnd. apply IH2.
    apply (Permutation_NoDup (Permutation_map fst Hp1) Hnd).
Qed.

Theorem read_payload_order_free : forall l l', NoDup (map fst l) -> Permutation l l' ->
  read_payload (JDict l) = read_payload (JDict l').
Proof.
  intros l l' Hnd Hp. pose proof (lookup_perm json l l' Hnd Hp) as H.
  unfold read_payload, read_link, read_layout, read_name, jget_default, jget.
  rewrite !H. reflexivity.
Qed.

(* ------------------------------------------------------------------ *)
(** * A concrete key, payload and oracle (non-vacuity examples of Props/C09.v; witness of the first-match finding) *)

Definition ex_kid : str := [101;48;101;48]%N.                         (* e0e0 *)
Definition ex_pub : str := [99;49;55;102]%N.                          (* c17f *)
Definition ex_key : json :=
  JDict [(S_keyid, JStr ex_kid); (S_keytype, JStr S_ed25519); (S_scheme, JStr S_ed25519);
         (S_keyval, JDict [(S_public, JStr ex_pub)])].
(** a second key presented under the same key id *)
Definition ex_pub2 : str := [51;100;101;57]%N.
Definition ex_key2 : json :=
  JDict [(S_keyid, JStr ex_kid); (S_keytype, JStr S_ed25519); (S_scheme, JStr S_ed25519);
         (S_keyval, JDict [(S_public, JStr ex_pub2)])].

Definition ex_file_signed : json :=
  JDict [(S_name, JStr [98;117;105;108;100]%N); (S__type, JStr S_link);
         (S_products, JDict [([97]%N, JDict [([115;104;97]%N, JStr [97;98]%N)])]);
         (S_byproducts, JDict [(S_return_value, JInt 0); (S_stdout, JStr [233;34;92;10]%N)])].
Definition ex_payload : payload :=
  match read_payload ex_file_signed with Ok p => p | Err _ => PLink (mkLink JNull [] [] JNull JNull JNull) end.
Definition ex_msg : list N := match signable_bytes (payload_asdict ex_payload) with Ok m => m | Err _ => [] end.
Definition ex_val : str := [97;98;48;49]%N.                          (* ab01 *)
(** the oracle: key [ex_pub] signed [ex_msg] once, with value [ex_val]; nothing else is valid *)
Definition ex_sig_ok (tok : str) (m : list N) (v : str) : bool := eqs tok ex_pub && eqs m ex_msg && eqs v ex_val.
Definition ex_sign (tok : str) (m : list N) : str := ex_val.

Lemma ex_key_ok' : sslib_key_for ex_key ex_kid ex_pub.
Proof. split; [reflexivity|]. split; [reflexivity|]. eexists. split; reflexivity. Qed.
Theorem sign_ops_mb_refuted :
  exists sign sig_ok now_s os s0 p md' kid pub key msg,
    apply_ops sign (Metablock s0 p) os = Ok md' /\
    signable_bytes (payload_asdict p) = Ok msg /\
    In (SgSslib kid pub) (live os []) /\
    sslib_key_for key kid pub /\
    (forall sg, In sg (live os []) -> sig_matches key (entry_of sign msg sg) = true -> sg = SgSslib kid pub) /\
    hex_even (sign pub msg) = true /\ sig_ok pub msg (sign pub msg) = true /\
    verify_signature sig_ok now_s md' key = Err ESignature.
Proof.
  exists ex_sign, ex_sig_ok, 0%Z, [Append [SgSslib ex_kid ex_pub]], [sslib_entry ex_kid [48;48]%N], ex_payload.
  eexists. exists ex_kid, ex_pub, ex_key, ex_msg.
  split; [vm_compute; reflexivity|]. split; [vm_compute; reflexivity|]. split; [left; reflexivity|].
  split; [exact ex_key_ok'|]. split; [intros sg [<-|[]] _; reflexivity|].
  split; [vm_compute; reflexivity|]. split; [vm_compute; reflexivity|]. vm_compute. reflexivity.
Qed.


Theorem signable_bytes_norm : forall j, signable_bytes (norm j) = signable_bytes j.
Proof. intro j. unfold signable_bytes. rewrite canon_norm. reflexivity. Qed.

Theorem verify_mb_sound_tok : forall sig_ok now_s sigs p key,
  verify_signature sig_ok now_s (Metablock sigs p) key = Ok tt ->
  exists sig msg tok v, find (sig_matches key) sigs = Some sig /\ signable_bytes (payload_asdict p) = Ok msg /\
    entry_token key sig = Some (tok, v) /\ sig_ok tok msg v = true.
Proof.
  intros sig_ok now_s sigs p key H. destruct (verify_mb_sound sig_ok now_s sigs p key H) as [sig [msg [F [M A]]]].
  destruct (entry_verdict_true sig_ok now_s key sig msg A) as [tok [v [T O]]].
  exists sig, msg, tok, v. repeat split; assumption.
Qed.

Theorem load_same_bytes : forall b64enc b64dec loads d md,
  (forall b, b64dec (b64enc b) = Some b) -> (forall s b, b64dec s = Some b -> is_bytes b = true) ->
  from_dict b64dec loads d = Ok md ->
  exists d' md', to_dict b64enc md = Ok d' /\ from_dict b64dec loads d' = Ok md' /\ signed_msg md' = signed_msg md.
Proof.
  intros b64enc b64dec loads d md H1 H2 H. destruct (load_fixpoint b64enc b64dec loads d md H1 H2 H) as [d' [E1 E2]].
  exists d', md. repeat split; assumption.
Qed.

(** the strict loader only returns payloads that have canonical bytes *)
Theorem loaded_is_signable : forall d p, read_payload_s d = Ok p ->
  read_payload d = Ok p /\ exists msg, signable_bytes (payload_asdict p) = Ok msg.
Proof.
  intros d p H. unfold read_payload_s, check_signable in H.
  destruct (read_payload d) as [p'|]; cbn [bind] in H; [|discriminate H].
  destruct (signable_bytes (payload_asdict p')) as [msg|] eqn:E; cbn [bind] in H; [|discriminate H].
  inversion H; subst p'. split; [reflexivity|]. exists msg. exact E.
Qed.

(* ------------------------------------------------------------------ *)
(** * Tampered content: the error is SignatureVerificationError *)

Theorem tamper_content_mb_err : forall sig_ok now_s old rest p1 p2 key kid pub v m1 m2,
  ideal sig_ok -> sslib_key_for key kid pub ->
  (forall s, In s old -> sig_matches key s = false) ->
  signable_bytes (payload_asdict p1) = Ok m1 -> signable_bytes (payload_asdict p2) = Ok m2 ->
  wf_json (payload_asdict p1) = true -> wf_json (payload_asdict p2) = true ->
  norm (payload_asdict p1) <> norm (payload_asdict p2) ->
  sig_ok pub m1 v = true ->
  verify_signature sig_ok now_s (Metablock (old ++ sslib_entry kid v :: rest) p2) key = Err ESignature.
Proof.
  intros sig_ok now_s old rest p1 p2 key kid pub v m1 m2 Hideal Hkey Hold M1 M2 W1 W2 Hne Hv.
  rewrite (verify_mb_first_sslib sig_ok now_s old rest p2 key kid pub v m2 Hkey Hold M2).
  destruct (sig_ok pub m2 v) eqn:E; [|rewrite andb_false_r; reflexivity].
  exfalso. apply Hne. pose proof (Hideal pub m1 m2 v Hv E) as Em. subst m2.
  exact (signable_bytes_inj _ _ m1 W1 W2 M1 M2).
Qed.

Theorem tamper_content_env_err : forall sig_ok now_s sigs pb1 pt1 pb2 pt2 parsed2 key kid pub,
  sslib_key_for key kid pub ->
  (forall s, In s sigs -> forall m, sslib_verify sig_ok s key m = Ok true -> m = pae (utf8 pt1) pb1) ->
  (pb2 <> pb1 \/ pt2 <> pt1) ->
  verify_signature sig_ok now_s (Envelope pb2 pt2 sigs parsed2) key = Err ESignature.
Proof.
  intros sig_ok now_s sigs pb1 pt1 pb2 pt2 parsed2 key kid pub Hkey Hall Hne.
  apply (verify_env_none sig_ok now_s pb2 pt2 sigs parsed2 key kid pub Hkey).
  intros s Hin Hs. pose proof (Hall s Hin _ Hs) as E. apply pae_inj in E. destruct E as [Et Ep].
  apply utf8_inj_gen in Et. destruct Hne as [H|H]; congruence.
Qed.

(* ------------------------------------------------------------------ *)
(** * dump, then load (with the text layer and the strict loader) *)

Section DumpLoad.
  Variable b64enc : list N -> str.
  Variable b64dec : str -> option (list N).
  Variable dumps : json -> list N.
  Variable loads : list N -> option json.
  Hypothesis Hloads : forall v, loads (dumps v) = Some v.

  Theorem dump_load_mb : forall sigs p,
    read_payload_s (payload_asdict p) = Ok p -> sigs_wellformed sigs ->
    exists file, dump b64enc dumps (Metablock sigs p) = Ok file /\ load b64dec loads file = Ok (Metablock sigs p).
  Proof.
    intros sigs p Hp Hs. destruct (loaded_is_signable _ _ Hp) as [Hp' [msg Hm]].
    eexists. split; [reflexivity|]. unfold load. rewrite Hloads. unfold from_dict_s.
    rewrite (from_dict_to_dict_mb b64enc b64dec loads sigs p _ Hp' Hs eq_refl). cbn [bind].
    unfold check_signable. rewrite Hm. reflexivity.
  Qed.

  Theorem dump_load_env : forall md,
    (forall b, b64dec (b64enc b) = Some b) -> wf_envelope loads md ->
    exists file, dump b64enc dumps md = Ok file /\ load b64dec loads file = Ok md.
  Proof.
    intros md Hb Hwf. destruct (from_dict_to_dict_env b64enc b64dec loads md Hb Hwf) as [d [E1 E2]].
    exists (dumps d). split; [unfold dump; rewrite E1; reflexivity|].
    unfold load. rewrite Hloads. unfold from_dict_s. rewrite E2. cbn [bind].
    destruct md; [contradiction|reflexivity].
  Qed.
End DumpLoad.
