(** SubstProofs.v — C16: str.format on the layout template fragment equals
    tokenise-then-render (verbatim, single pass); parameter-set validation; substitution reaches
    every rule token, expected-command element and inspection-run element. *)
From InToto.Model Require Import Base Json Strs Utf8 Canon Rule Glob Rules Expiry Subst Meta Verify.
From InToto.Proofs Require Import VerifySpec GateBase.

(* ------------------------------------------------------------------ *)
(** * The declarative reading of a template *)

Inductive tok :=
| TChar (c : N)            (* a literal character; "{{" and "}}" give one brace *)
| THole (name : str)       (* {name} *)
| TBad (e : err).          (* the template is malformed from here on (or outside the model) *)

(** a completed replacement field *)
Definition hole_tok (field : str) : tok :=
  if existsb field_special field || negb (is_ascii field) then TBad EUnmodelled
  else if all_digits field then TBad EIndexError        (* "{}" / "{0}": no positional arguments *)
  else THole field.

(** the tokeniser never looks at parameter values: substituted text cannot be scanned again *)
Fixpoint tok_out (s : str) : list tok :=
  match s with
  | [] => []
  | c :: r =>
      if N.eqb c 123 then
        match r with
        | c2 :: r' => if N.eqb c2 123 then TChar 123 :: tok_out r' else tok_field r []
        | [] => tok_field r []
        end
      else if N.eqb c 125 then
        match r with
        | c2 :: r' => if N.eqb c2 125 then TChar 125 :: tok_out r' else [TBad EValueError]
        | [] => [TBad EValueError]
        end
      else TChar c :: tok_out r
  end
with tok_field (s : str) (acc : str) : list tok :=
  match s with
  | [] => [TBad (if existsb field_special (rev acc) then EUnmodelled else EValueError)]
  | c :: r =>
      if N.eqb c 125
      then match hole_tok (rev acc) with THole n => THole n :: tok_out r | t => [t] end
      else tok_field r (c :: acc)
  end.

(** rendering: every hole is replaced by its value, verbatim, left to right *)
Fixpoint render (ps : list (str * str)) (toks : list tok) : res str :=
  match toks with
  | [] => Ok []
  | TChar c :: r => do x <- render ps r; Ok (c :: x)
  | THole n :: r =>
      match lookup n ps with
      | Some v => do x <- render ps r; Ok (v ++ x)
      | None => Err EKeyError
      end
  | TBad e :: _ => Err e
  end.

(* ------------------------------------------------------------------ *)
(** * The scanner of the model, one step at a time *)

Ltac bits c := destruct c as [|c]; [try reflexivity|]; do 7 (try (destruct c as [c|c|]; try reflexivity)).

Lemma read_field_step : forall c r acc,
  read_field (c :: r) acc = if N.eqb c 125 then Some (rev acc, r) else read_field r (c :: acc).
Proof. intros c r acc. cbn [read_field]. bits c. Qed.

Definition field_case (f : nat) (ps : list (str * str)) (go : str -> str -> res str) (r acc : str) : res str :=
  match read_field r [] with
  | None => if existsb field_special r then Err EUnmodelled else Err EValueError
  | Some (field, rest) =>
      if existsb field_special field || negb (is_ascii field) then Err EUnmodelled
      else if all_digits field then Err EIndexError
      else match lookup field ps with
           | Some v => go rest (rev v ++ acc)
           | None => Err EKeyError
           end
  end.

Lemma pfg_step : forall f ps c r acc,
  py_format_go (S f) ps (c :: r) acc =
    if N.eqb c 123 then
      match r with
      | c2 :: r' => if N.eqb c2 123 then py_format_go f ps r' (123%N :: acc)
                    else field_case f ps (py_format_go f ps) r acc
      | [] => field_case f ps (py_format_go f ps) r acc
      end
    else if N.eqb c 125 then
      match r with
      | c2 :: r' => if N.eqb c2 125 then py_format_go f ps r' (125%N :: acc) else Err EValueError
      | [] => Err EValueError
      end
    else py_format_go f ps r (c :: acc).
Proof.
  intros f ps c r acc. cbn [py_format_go]. unfold field_case.
  bits c; destruct r as [|c2 r']; try reflexivity; bits c2.
Qed.

(* ------------------------------------------------------------------ *)
(** * Scanner = tokenise, then render *)

Lemma tok_field_read : forall s acc,
  match read_field s acc with
  | None => tok_field s acc = [TBad (if existsb field_special (rev acc ++ s) then EUnmodelled else EValueError)]
  | Some (field, rest) =>
      (length rest < length s)%nat /\
      tok_field s acc = match hole_tok field with THole n => THole n :: tok_out rest | t => [t] end
  end.
Proof.
  induction s as [|c r IH]; intro acc.
  - cbn [read_field tok_field]. rewrite app_nil_r. reflexivity.
  - rewrite read_field_step. cbn [tok_field]. destruct (N.eqb c 125).
    + split; [cbn [length]; lia|reflexivity].
    + specialize (IH (c :: acc)). destruct (read_field r (c :: acc)) as [[field rest]|].
      * destruct IH as [Hl Ht]. split; [cbn [length]; lia|exact Ht].
      * rewrite IH. cbn [rev]. rewrite <- app_assoc. reflexivity.
Qed.

Lemma bind_ret : forall (A : Type) (r : res A), (do x <- r; Ok x) = r.
Proof. intros A [a|e]; reflexivity. Qed.

Lemma scanner_spec : forall fuel ps s acc,
  (length s < fuel)%nat ->
  py_format_go fuel ps s acc = (do x <- render ps (tok_out s); Ok (rev acc ++ x)).
Proof.
  induction fuel as [|f IH]; intros ps s acc Hlen; [lia|].
  destruct s as [|c r].
  - cbn [py_format_go tok_out render bind]. rewrite app_nil_r. reflexivity.
  - cbn [length] in Hlen. rewrite pfg_step. cbn [tok_out].
    assert (Hchar : forall c0 r0, (length r0 < f)%nat ->
              py_format_go f ps r0 (c0 :: acc) = (do x <- render ps (TChar c0 :: tok_out r0); Ok (rev acc ++ x))).
    { intros c0 r0 Hl. rewrite IH by exact Hl. cbn [render].
      destruct (render ps (tok_out r0)) as [x|e]; cbn [bind]; [|reflexivity].
      cbn [rev]. rewrite <- app_assoc. reflexivity. }
    assert (Hfield : (length r < f)%nat ->
              field_case f ps (py_format_go f ps) r acc =
              (do x <- render ps (tok_field r []); Ok (rev acc ++ x))).
    { intro Hl. unfold field_case. pose proof (tok_field_read r []) as Hr.
      destruct (read_field r []) as [[field rest]|].
      - destruct Hr as [Hlr Ht]. rewrite Ht. unfold hole_tok.
        destruct (existsb field_special field || negb (is_ascii field)); [reflexivity|].
        destruct (all_digits field); [reflexivity|].
        cbn [render]. destruct (lookup field ps) as [v|]; [|reflexivity].
        rewrite IH by lia.
        destruct (render ps (tok_out rest)) as [x|e]; cbn [bind]; [|reflexivity].
        rewrite rev_app_distr, rev_involutive, <- app_assoc. reflexivity.
      - rewrite Hr. cbn [rev app render bind]. destruct (existsb field_special r); reflexivity. }
    destruct (N.eqb c 123).
    + destruct r as [|c2 r']; [apply Hfield; lia|].
      destruct (N.eqb c2 123); [|apply Hfield; lia].
      apply Hchar. cbn [length] in Hlen. lia.
    + destruct (N.eqb c 125).
      * destruct r as [|c2 r']; [reflexivity|].
        destruct (N.eqb c2 125); [|reflexivity].
        apply Hchar. cbn [length] in Hlen. lia.
      * apply Hchar. lia.
Qed.

(** C16_spec: the scanner is tokenise-then-render, for every template and every parameter set,
    error classes included; in particular the fuel of the model never runs out *)
Theorem py_format_spec : forall ps s, py_format ps s = render ps (tok_out s).
Proof.
  intros ps s. unfold py_format. rewrite scanner_spec by lia. cbn [rev app]. apply bind_ret.
Qed.

(* ------------------------------------------------------------------ *)
(** * What the tokens are *)

Definition no_brace (s : str) : bool := forallb (fun c => negb (N.eqb c 123) && negb (N.eqb c 125)) s.

(** a field the model treats as a plain keyword name *)
Definition plain_name (n : str) : bool :=
  negb (existsb (fun c => N.eqb c 125) n) && negb (existsb field_special n) && is_ascii n && negb (all_digits n).

Lemma tok_out_literal : forall s t, no_brace s = true -> tok_out (s ++ t) = map TChar s ++ tok_out t.
Proof.
  induction s as [|c s IH]; intros t H; [reflexivity|].
  cbn [no_brace forallb] in H. apply andb_true_iff in H. destruct H as [Hc Hs].
  apply andb_true_iff in Hc. destruct Hc as [H1 H2].
  apply negb_true_iff in H1. apply negb_true_iff in H2.
  cbn [app tok_out map]. rewrite H1, H2. rewrite (IH t Hs). reflexivity.
Qed.

Lemma tok_out_open : forall t, tok_out (123 :: 123 :: t)%N = TChar 123 :: tok_out t.
Proof. reflexivity. Qed.

Lemma tok_out_close : forall t, tok_out (125 :: 125 :: t)%N = TChar 125 :: tok_out t.
Proof. reflexivity. Qed.

Lemma tok_field_name : forall n acc t,
  existsb (fun c => N.eqb c 125) n = false ->
  tok_field (n ++ 125%N :: t) acc =
    match hole_tok (rev acc ++ n) with THole m => THole m :: tok_out t | x => [x] end.
Proof.
  induction n as [|c n IH]; intros acc t H.
  - cbn [app tok_field]. rewrite app_nil_r. reflexivity.
  - cbn [existsb] in H. apply orb_false_iff in H. destruct H as [Hc Hn].
    cbn [app tok_field]. rewrite Hc. rewrite (IH (c :: acc) t Hn). cbn [rev].
    rewrite <- app_assoc. reflexivity.
Qed.

Lemma tok_out_hole : forall n t, plain_name n = true ->
  tok_out (123%N :: n ++ 125%N :: t) = THole n :: tok_out t.
Proof.
  intros n t H. unfold plain_name in H.
  apply andb_true_iff in H. destruct H as [H Hd].
  apply andb_true_iff in H. destruct H as [H Ha].
  apply andb_true_iff in H. destruct H as [Hc Hs].
  apply negb_true_iff in Hc. apply negb_true_iff in Hs. apply negb_true_iff in Hd.
  assert (Hf : tok_field (n ++ 125%N :: t) [] = THole n :: tok_out t).
  { rewrite (tok_field_name n [] t Hc). cbn [rev app]. unfold hole_tok.
    rewrite Hs, Ha, Hd. reflexivity. }
  cbn [tok_out]. cbn [N.eqb Pos.eqb].
  destruct n as [|c n]; [discriminate Hd|].
  cbn [app]. cbn [existsb] in Hs. apply orb_false_iff in Hs. destruct Hs as [Hsc _].
  unfold field_special in Hsc. apply orb_false_iff in Hsc. destruct Hsc as [Hsc _].
  apply orb_false_iff in Hsc. destruct Hsc as [Hsc _].
  apply orb_false_iff in Hsc. destruct Hsc as [Hsc _].
  apply orb_false_iff in Hsc. destruct Hsc as [Hsc _].
  rewrite Hsc. exact Hf.
Qed.

(** verbatim and single pass: whatever the value contains — braces, other placeholders — it is
    the output *)
Theorem format_verbatim : forall x v ps,
  plain_name x = true -> lookup x ps = Some v ->
  py_format ps (123%N :: x ++ [125%N]) = Ok v.
Proof.
  intros x v ps Hx Hl. rewrite py_format_spec, (tok_out_hole x [] Hx).
  cbn [tok_out render]. rewrite Hl. cbn [bind]. rewrite app_nil_r. reflexivity.
Qed.

Theorem format_in_context : forall pre x post v ps,
  no_brace pre = true -> no_brace post = true -> plain_name x = true -> lookup x ps = Some v ->
  py_format ps (pre ++ 123%N :: x ++ 125%N :: post) = Ok (pre ++ v ++ post).
Proof.
  intros pre x post v ps Hpre Hpost Hx Hl.
  rewrite py_format_spec, (tok_out_literal pre _ Hpre), (tok_out_hole x post Hx).
  assert (Hlit : forall s, render ps (map TChar s) = Ok s).
  { induction s as [|c s IH]; [reflexivity|]. cbn [map render]. rewrite IH. reflexivity. }
  assert (Happ : forall s toks, render ps (map TChar s ++ toks) = (do x0 <- render ps toks; Ok (s ++ x0))).
  { induction s as [|c s IH]; intro toks; cbn [map app render].
    - symmetry. apply bind_ret.
    - rewrite IH. destruct (render ps toks); reflexivity. }
  rewrite Happ. cbn [render]. rewrite Hl.
  replace post with (post ++ []) at 1 by apply app_nil_r.
  rewrite (tok_out_literal post [] Hpost). rewrite Happ. cbn [tok_out render bind].
  rewrite app_nil_r. reflexivity.
Qed.

(* ------------------------------------------------------------------ *)
(** * Missing values, malformed parameter sets *)

Lemma render_Ok_holes : forall ps toks r n,
  render ps toks = Ok r -> In (THole n) toks -> exists v, lookup n ps = Some v.
Proof.
  intros ps. induction toks as [|t toks IH]; intros r n H Hin; [destruct Hin|].
  destruct t as [c|m|e]; cbn [render] in H.
  - bind_inv H x Hx. destruct Hin as [Hin|Hin]; [discriminate Hin|]. exact (IH x n Hx Hin).
  - destruct (lookup m ps) as [v|] eqn:El; [|discriminate H]. bind_inv H x Hx.
    destruct Hin as [Hin|Hin]; [inversion Hin; subst; exists v; exact El|]. exact (IH x n Hx Hin).
  - discriminate H.
Qed.

Lemma render_no_bad : forall ps toks r e, render ps toks = Ok r -> ~ In (TBad e) toks.
Proof.
  intros ps. induction toks as [|t toks IH]; intros r e H Hin; [destruct Hin|].
  destruct t as [c|m|e']; cbn [render] in H.
  - bind_inv H x Hx. destruct Hin as [Hin|Hin]; [discriminate Hin|]. exact (IH x e Hx Hin).
  - destruct (lookup m ps) as [v|]; [|discriminate H]. bind_inv H x Hx.
    destruct Hin as [Hin|Hin]; [discriminate Hin|]. exact (IH x e Hx Hin).
  - discriminate H.
Qed.

(** a placeholder without a value makes the call fail — it is never left in the output *)
Theorem format_missing_fails : forall ps s n,
  In (THole n) (tok_out s) -> lookup n ps = None -> exists e, py_format ps s = Err e.
Proof.
  intros ps s n Hin Hl. rewrite py_format_spec.
  destruct (render ps (tok_out s)) as [r|e] eqn:E; [|exists e; reflexivity].
  destruct (render_Ok_holes _ _ _ _ E Hin) as [v Hv]. congruence.
Qed.

(** exact class when the missing placeholder is the first problem the scanner meets *)
Theorem format_missing_keyerror : forall ps pre n post,
  no_brace pre = true -> plain_name n = true -> lookup n ps = None ->
  py_format ps (pre ++ 123%N :: n ++ 125%N :: post) = Err EKeyError.
Proof.
  intros ps pre n post Hpre Hn Hl.
  rewrite py_format_spec, (tok_out_literal pre _ Hpre), (tok_out_hole n post Hn).
  induction pre as [|c pre IH]; cbn [map app render].
  - rewrite Hl. reflexivity.
  - cbn [no_brace forallb] in Hpre. apply andb_true_iff in Hpre. destruct Hpre as [_ Hpre].
    rewrite (IH Hpre). reflexivity.
Qed.

(** _check_parameter_dict *)
Definition param_ok (kv : str * json) (kv' : str * str) : Prop :=
  fst kv' = fst kv /\ snd kv = JStr (snd kv') /\ fst kv <> [] /\ forallb is_param_char (fst kv) = true.

Lemma check_params_Ok : forall j ps,
  check_params j = Ok ps -> exists l, j = JDict l /\ Forall2 param_ok l ps.
Proof.
  intros j ps H. destruct j; try discriminate H. exists l. split; [reflexivity|].
  cbn [check_params] in H. apply mapM_Ok_Forall2 in H.
  induction H as [|[k v] kv' l ps' Hkv _ IH]; constructor; [|exact IH].
  destruct v; try (destruct k; [discriminate Hkv|]; destruct (forallb is_param_char (n :: k)); discriminate Hkv).
  destruct k as [|c k]; [discriminate Hkv|].
  destruct (forallb is_param_char (c :: k)) eqn:E; [|discriminate Hkv].
  inversion Hkv; subst. unfold param_ok. cbn [fst snd]. repeat split; [discriminate|exact E].
Qed.

Lemma check_params_Err : forall j e, check_params j = Err e -> e = EFormat.
Proof.
  intros j e H. destruct j; try (inversion H; reflexivity).
  cbn [check_params] in H. induction l as [|[k v] l IH]; cbn [mapM] in H; [discriminate H|].
  match type of H with bind ?r _ = _ => destruct r as [kv'|e'] eqn:E end; cbn [bind] in H.
  - match type of H with bind ?m _ = _ => destruct m as [ps'|e''] end; cbn [bind] in H; [discriminate H|].
    apply IH. exact H.
  - inversion H; subst e'. clear H IH.
    destruct v; destruct k as [|c k]; try (inversion E; reflexivity);
      destruct (forallb is_param_char (c :: k)); inversion E; reflexivity.
Qed.

Lemma bad_params_substitute : forall l params e,
  check_params params = Err e -> substitute_parameters l params = Err EFormat.
Proof.
  intros l params e H. unfold substitute_parameters.
  rewrite H. cbn [bind]. rewrite (check_params_Err _ _ H). reflexivity.
Qed.

(* ------------------------------------------------------------------ *)
(** * Substitution reaches every position *)

Definition elem_subst (ps : list (str * str)) (t t' : json) : Prop :=
  exists s s', t = JStr s /\ t' = JStr s' /\ render ps (tok_out s) = Ok s'.
Definition rule_subst (ps : list (str * str)) (r r' : json) : Prop :=
  exists toks toks', r = JList toks /\ r' = JList toks' /\ Forall2 (elem_subst ps) toks toks'.

Record step_subst (ps : list (str * str)) (s s' : step) : Prop :=
  { ss_name : st_name s' = st_name s;
    ss_em : Forall2 (rule_subst ps) (st_em s) (st_em s');
    ss_ep : Forall2 (rule_subst ps) (st_ep s) (st_ep s');
    ss_cmd : Forall2 (elem_subst ps) (st_cmd s) (st_cmd s');
    ss_pubkeys : st_pubkeys s' = st_pubkeys s;
    ss_thr : st_thr_raw s' = st_thr_raw s }.

Record insp_subst (ps : list (str * str)) (i i' : insp) : Prop :=
  { is_name : in_name i' = in_name i;
    is_em : Forall2 (rule_subst ps) (in_em i) (in_em i');
    is_ep : Forall2 (rule_subst ps) (in_ep i) (in_ep i');
    is_run : Forall2 (elem_subst ps) (in_run i) (in_run i') }.

Lemma Forall2_imp : forall (A B : Type) (R R' : A -> B -> Prop) l l',
  (forall x y, R x y -> R' x y) -> Forall2 R l l' -> Forall2 R' l l'.
Proof.
  intros A B R R' l l' Himp H. induction H as [|x y l l' Hxy _ IH]; [constructor|].
  constructor; [apply Himp; exact Hxy|exact IH].
Qed.

Lemma subst_elem_Ok : forall ps t t', subst_elem ps t = Ok t' -> elem_subst ps t t'.
Proof.
  intros ps t t' H. destruct t; try discriminate H. cbn [subst_elem] in H.
  bind_inv H r Hr. inversion H; subst. rewrite py_format_spec in Hr.
  exists s, r. repeat split. exact Hr.
Qed.

Lemma subst_elems_Ok : forall ps l l', mapM (subst_elem ps) l = Ok l' -> Forall2 (elem_subst ps) l l'.
Proof.
  intros ps l l' H. apply mapM_Ok_Forall2 in H.
  exact (Forall2_imp _ _ _ _ _ _ (subst_elem_Ok ps) H).
Qed.

Lemma subst_list_Ok : forall ps r r', subst_list ps r = Ok r' -> rule_subst ps r r'.
Proof.
  intros ps r r' H. destruct r; try discriminate H. cbn [subst_list] in H.
  bind_inv H x Hx. inversion H; subst. exists l, x. repeat split. apply subst_elems_Ok. exact Hx.
Qed.

Lemma subst_rules_Ok : forall ps l l', mapM (subst_list ps) l = Ok l' -> Forall2 (rule_subst ps) l l'.
Proof.
  intros ps l l' H. apply mapM_Ok_Forall2 in H.
  exact (Forall2_imp _ _ _ _ _ _ (subst_list_Ok ps) H).
Qed.

Lemma subst_step_Ok : forall ps s s', subst_step ps s = Ok s' -> step_subst ps s s'.
Proof.
  intros ps s s' H. unfold subst_step in H.
  bind_inv H em Hem. bind_inv H ep Hep. bind_inv H cmd Hcmd. inversion H; subst.
  constructor; cbn; try reflexivity;
    [apply subst_rules_Ok|apply subst_rules_Ok|apply subst_elems_Ok]; assumption.
Qed.

Lemma subst_insp_Ok : forall ps i i', subst_insp ps i = Ok i' -> insp_subst ps i i'.
Proof.
  intros ps i i' H. unfold subst_insp in H.
  bind_inv H em Hem. bind_inv H ep Hep. bind_inv H run Hrun. inversion H; subst.
  constructor; cbn; try reflexivity;
    [apply subst_rules_Ok|apply subst_rules_Ok|apply subst_elems_Ok]; assumption.
Qed.

Theorem substitute_everywhere : forall l params l',
  substitute_parameters l params = Ok l' ->
  exists ps, check_params params = Ok ps /\
    Forall2 (step_subst ps) (ly_steps l) (ly_steps l') /\
    Forall2 (insp_subst ps) (ly_inspect l) (ly_inspect l') /\
    ly_keys l' = ly_keys l /\ ly_expires l' = ly_expires l /\
    ly_expires_us l' = ly_expires_us l /\ ly_readme l' = ly_readme l.
Proof.
  intros l params l' H. unfold substitute_parameters in H.
  bind_inv H ps Hps. bind_inv H steps Hsteps. bind_inv H ins Hins. inversion H; subst. cbn.
  exists ps. split; [exact Hps|]. split.
  - apply mapM_Ok_Forall2 in Hsteps. exact (Forall2_imp _ _ _ _ _ _ (subst_step_Ok ps) Hsteps).
  - split; [|repeat split].
    apply mapM_Ok_Forall2 in Hins. exact (Forall2_imp _ _ _ _ _ _ (subst_insp_Ok ps) Hins).
Qed.

(** no placeholder survives: every hole of every position had a value *)
Theorem substitute_all_holes_valued : forall ps t t' n,
  elem_subst ps t t' -> (forall s, t = JStr s -> In (THole n) (tok_out s)) ->
  exists v, lookup n ps = Some v.
Proof.
  intros ps t t' n [s [s' [-> [_ Hr]]]] Hin.
  exact (render_Ok_holes _ _ _ _ Hr (Hin s eq_refl)).
Qed.
