(** LayoutNames.v — the guard "step names are distinct" of C02_ignored / C05_attested_by_threshold holds
    for every layout that was loaded from a file (Layout validation rejects duplicate names) and is
    preserved by parameter substitution. *)
From InToto.Model Require Import Base Json Strs Utf8 Canon Rule Glob Rules Expiry Subst Meta Verify.
From InToto.Proofs Require Import VerifySpec ThresholdSpec VerifyThreshold.

Lemma first_dup_nodup : forall l seen, first_dup seen l = false -> NoDup l /\ forall x, In x l -> ~ In x seen.
Proof.
  induction l as [|x l IH]; intros seen H; simpl in H.
  - split; [constructor|intros ? []].
  - apply orb_false_iff in H. destruct H as [H1 H2]. apply mem_str_false in H1.
    destruct (IH _ H2) as [ND Hd]. split.
    + constructor; [|exact ND]. intro Hin. apply (Hd x Hin). left; reflexivity.
    + intros y [->|Hy]; [exact H1|]. intro Hs. apply (Hd y Hy). right; exact Hs.
Qed.

Lemma NoDup_app_l : forall {A} (l l' : list A), NoDup (l ++ l') -> NoDup l.
Proof.
  induction l as [|x l IH]; intros l' H; [constructor|]. simpl in H. inversion H as [|y ys Hn ND]; subst.
  constructor; [|eapply IH; exact ND]. intro Hin. apply Hn. apply in_or_app. left; exact Hin.
Qed.

Ltac destr H :=
  repeat (match type of H with
          | context [match ?x with _ => _ end] => destruct x eqn:?; try discriminate
          | context [if ?x then _ else _] => destruct x eqn:?; try discriminate
          | bind ?m _ = _ => destruct m eqn:?; try discriminate
          end; cbn [bind] in H).

Lemma read_layout_names : forall data l0, read_layout data = Ok l0 -> NoDup (map st_name (ly_steps l0)).
Proof.
  intros data l0 H. unfold read_layout in H. destruct data; try discriminate.
  match type of H with (do steps <- ?x; _) = _ => destruct x as [steps|] eqn:Es; [|discriminate] end. cbn [bind] in H.
  match type of H with (do i <- ?x; _) = _ => destruct x as [insp|] eqn:Ei; [|discriminate] end. cbn [bind] in H.
  match type of H with (do i <- ?x; _) = _ => destruct x as [expires|] eqn:Ee; [|discriminate] end. cbn [bind] in H.
  match type of H with (do i <- ?x; _) = _ => destruct x as [us|] eqn:Eu; [|discriminate] end. cbn [bind] in H.
  match type of H with (do i <- ?x; _) = _ => destruct x as [keys|] eqn:Ek; [|discriminate] end. cbn [bind] in H.
  match type of H with (do i <- ?x; _) = _ => destruct x as [readme|] eqn:Er; [|discriminate] end. cbn [bind] in H.
  destruct (first_dup [] (map st_name steps ++ map in_name insp)) eqn:Ed; [discriminate|].
  inversion H; subst. cbn [ly_steps]. apply first_dup_nodup in Ed. destruct Ed as [ND _].
  eapply NoDup_app_l. exact ND.
Qed.

Section Names.
  Variable b64dec : str -> option (list N).
  Variable loads : list N -> option json.
  Variable sig_ok : str -> list N -> str -> bool.
  Variable now_s now_us : Z.

  Lemma read_payload_names : forall data l0, read_payload data = Ok (PLayout l0) -> NoDup (map st_name (ly_steps l0)).
  Proof.
    intros data l0 H. unfold read_payload in H. destruct (jget S__type data) as [[| | | |t| |]|]; try discriminate.
    destruct (eqs t S_link).
    - destruct (read_link data); discriminate.
    - destruct (eqs t S_layout); [|discriminate].
      destruct (read_layout data) as [l|] eqn:E; [|discriminate]. cbn [bind] in H. inversion H; subst.
      eapply read_layout_names; exact E.
  Qed.

  Lemma loaded_layout_names : forall j md l0, from_dict b64dec loads j = Ok md ->
    get_payload md = Ok (PLayout l0) -> NoDup (map st_name (ly_steps l0)).
  Proof.
    intros j md l0 H Hp. destruct md as [sl p|pb pt sg parsed].
    - cbn [get_payload] in Hp. inversion Hp; subst p. clear Hp.
      unfold from_dict in H. destruct j; try discriminate.
      destruct (has S_payload (JDict l)).
      + destr H; discriminate.
      + destruct (has S_signed (JDict l)); [|discriminate].
        destruct (jget_default S_signed (JDict []) (JDict l)) as [| | | | | |sd] eqn:Esd; try discriminate.
        destruct (jget S__type (JDict sd)) as [[| | | |t| |]|]; try discriminate.
        destruct (eqs t S_link).
        * destruct (read_link (JDict sd)); cbn [bind] in H; [|discriminate]. destr H; discriminate.
        * destruct (eqs t S_layout); [|discriminate].
          destruct (read_layout (JDict sd)) as [l1|] eqn:E; cbn [bind] in H; [|discriminate].
          destr H. inversion H; subst. eapply read_layout_names; exact E.
    - cbn [get_payload] in Hp. destruct parsed as [data|]; [|discriminate]. destruct data; try discriminate.
      eapply read_payload_names; exact Hp.
  Qed.

  Lemma subst_names : forall l0 ps l, substitute_parameters l0 ps = Ok l ->
    map st_name (ly_steps l) = map st_name (ly_steps l0).
  Proof.
    intros l0 ps l H. unfold substitute_parameters in H.
    destruct (check_params ps) as [pl|]; [|discriminate]. cbn [bind] in H.
    destruct (mapM (subst_step pl) (ly_steps l0)) as [steps|] eqn:E; [|discriminate]. cbn [bind] in H.
    destruct (mapM (subst_insp pl) (ly_inspect l0)); [|discriminate]. cbn [bind] in H.
    inversion H; subst. cbn [ly_steps]. apply mapM_Forall2 in E. clear H.
    induction E as [|x y xs ys Hxy _ IH]; [reflexivity|]. cbn [map]. rewrite IH. f_equal.
    unfold subst_step in Hxy.
    destruct (mapM (subst_list pl) (st_em x)); [|discriminate]. cbn [bind] in Hxy.
    destruct (mapM (subst_list pl) (st_ep x)); [|discriminate]. cbn [bind] in Hxy.
    destruct (mapM (subst_elem pl) (st_cmd x)); [|discriminate]. cbn [bind] in Hxy.
    inversion Hxy. reflexivity.
  Qed.

  (** the layout evaluated for metadata that was loaded from a file has distinct step names *)
  Theorem evaluated_layout_names : forall j a l, from_dict b64dec loads j = Ok (a_md a) ->
    pre_layout sig_ok now_s now_us a = Ok l -> NoDup (map st_name (ly_steps l)).
  Proof.
    intros j a l Hj H. unfold pre_layout in H.
    destruct (verify_metadata_signatures sig_ok now_s (a_md a) (a_keys a)); [|discriminate]. cbn [bind] in H.
    destruct (get_payload (a_md a)) as [[lk|l0]|] eqn:Ep; try discriminate. cbn [bind] in H.
    destruct (check_expiry (ly_expires_us l0) now_us); [|discriminate]. cbn [bind] in H.
    pose proof (loaded_layout_names j (a_md a) l0 Hj Ep) as ND.
    destruct (a_params a) as [ps|].
    - rewrite (subst_names l0 ps l H). exact ND.
    - inversion H; subst. exact ND.
  Qed.
End Names.
