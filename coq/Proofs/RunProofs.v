(** RunProofs.v — in_toto_run records before/after faithfully (C11). *)
From InToto.Model Require Import Base Json Strs Rule Rules Meta Run.

Section RunProofs.
  Variable world : Type.
  Variable record_materials : world -> res amap.
  Variable record_products : world -> res amap.
  Variable exec : world -> list json -> exec_out world.

  Let run := run_link world record_materials record_products exec.

  (** a command was given and it consists of strings *)
  Definition runnable (cmd : list json) : Prop :=
    cmd <> [] /\ forallb (fun a => match a with JStr _ => true | _ => false end) cmd = true.

  Lemma run_with_command : forall w name cmd o lk w',
    runnable cmd -> run w name cmd o = Ok (lk, w') ->
    exists rc out err,
      record_materials w = Ok (l_materials lk) /\
      exec w cmd = ExOk w' rc out err /\
      record_products w' = Ok (l_products lk) /\
      l_byproducts lk = byproducts_of o rc out err /\
      l_name lk = JStr name /\ l_command lk = JList cmd /\ l_environment lk = environment_of o.
  Proof.
    intros w name cmd o lk w' [Hne Hstr] H. unfold run, run_link in H.
    destruct (record_materials w) as [mats|e] eqn:Em; [|discriminate]. cbn [bind] in H.
    destruct cmd as [|c cmd']; [contradiction|].
    rewrite Hstr in H. cbn [negb] in H.
    destruct (exec w (c :: cmd')) as [w2 rc out err| |] eqn:Ex; try discriminate. cbn [bind] in H.
    destruct (record_products w2) as [prods|e] eqn:Ep; [|discriminate]. cbn [bind] in H.
    inversion H; subst. exists rc, out, err. cbn. auto 10.
  Qed.

  Lemma run_without_command : forall w name o lk w',
    run w name [] o = Ok (lk, w') ->
    w' = w /\ record_materials w = Ok (l_materials lk) /\ record_products w = Ok (l_products lk) /\
    l_byproducts lk = JDict [] /\ l_name lk = JStr name /\ l_command lk = JList [] /\
    l_environment lk = environment_of o.
  Proof.
    intros w name o lk w' H. unfold run, run_link in H.
    destruct (record_materials w) as [mats|e] eqn:Em; [|discriminate]. cbn [bind] in H.
    destruct (record_products w) as [prods|e] eqn:Ep; [|discriminate]. cbn [bind] in H.
    inversion H; subst. cbn. auto 10.
  Qed.

  (** nothing is recorded when recording or the command fails: no link without both snapshots *)
  Lemma run_fails_closed : forall w name cmd o,
    (record_materials w = Err EPrefix -> run w name cmd o = Err EPrefix) /\
    (runnable cmd -> exec w cmd = ExTimedOut -> forall m, record_materials w = Ok m -> run w name cmd o = Err ETimeout).
  Proof.
    intros w name cmd o. split.
    - intro H. unfold run, run_link. rewrite H. reflexivity.
    - intros [Hne Hstr] Hex m Hm. unfold run, run_link. rewrite Hm. cbn [bind].
      destruct cmd as [|c cmd']; [contradiction|]. rewrite Hstr, Hex. reflexivity.
  Qed.

  Lemma streams_only_if_requested : forall o rc out err,
    ro_record_streams o = false ->
    byproducts_of o rc out err = JDict [(S_stdout, JStr []); (S_stderr_, JStr []); (S_return_value, JInt rc)].
  Proof. intros o rc out err H. unfold byproducts_of. rewrite H. reflexivity. Qed.

  Lemma streams_if_requested : forall o rc out err,
    ro_record_streams o = true ->
    byproducts_of o rc out err = JDict [(S_stdout, JStr out); (S_stderr_, JStr err); (S_return_value, JInt rc)].
  Proof. intros o rc out err H. unfold byproducts_of. rewrite H. reflexivity. Qed.
End RunProofs.

(** file name: step name, dot, the first eight characters of the SIGNATURE's key id, ".link" *)
Lemma link_file_name_plain : forall name kid o,
  ro_metadata_dir o = None -> link_file_name name kid o = name ++ [46%N] ++ firstn 8 kid ++ S_dot_link.
Proof. intros name kid o H. unfold link_file_name. rewrite H. reflexivity. Qed.
