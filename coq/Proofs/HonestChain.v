(** HonestChain.v — completeness half of C11: a supply chain carried out honestly, verified under the
    chain layout derived from what was done, is accepted by in_toto_verify — for chains of any length.
    One "intro" lemma per verification stage (the converses of the inversion lemmas of VerifyChain.v),
    then the end-to-end theorems. *)
From InToto.Model Require Import Base Json Strs Utf8 Canon Rule Glob Rules Expiry Subst Meta Verify Match.
From InToto.Proofs Require Import RulesSpec RulesProofs MatchProofs ChainProofs VerifyChain.

(* ------------------------------------------------------------------ *)
(** * List plumbing *)

Lemma mapM_map_ok : forall (A B C : Type) (f : B -> res C) (p : A -> B) (g : A -> C) (l : list A),
  (forall x, In x l -> f (p x) = Ok (g x)) -> mapM f (map p l) = Ok (map g l).
Proof.
  intros A B C f p g l. induction l as [|a l IH]; intro H.
  - reflexivity.
  - cbn [map mapM]. rewrite (H a (or_introl eq_refl)). cbn [bind].
    rewrite IH by (intros x Hx; apply H; right; exact Hx). reflexivity.
Qed.

(** in a dict built from a list with pairwise distinct keys every element is found under its key *)
Lemma lookup_map_nodup : forall (A B : Type) (kf : A -> str) (vf : A -> B) (l : list A) (x : A),
  NoDup (map kf l) -> In x l -> lookup (kf x) (map (fun y => (kf y, vf y)) l) = Some (vf x).
Proof.
  intros A B kf vf l x. induction l as [|a l IH]; intros Hnd Hin.
  - destruct Hin.
  - cbn [map lookup]. inversion Hnd as [|k ks Hnotin Hnd']; subst.
    destruct (eqs (kf x) (kf a)) eqn:E.
    + destruct Hin as [->|Hin]; [reflexivity|]. exfalso. apply Hnotin.
      apply eqs_eq in E. rewrite <- E. apply in_map. exact Hin.
    + destruct Hin as [->|Hin]; [rewrite eqs_refl in E; discriminate|]. apply IH; assumption.
Qed.

Lemma lookup_map_notin : forall (A B : Type) (kf : A -> str) (vf : A -> B) (l : list A) (k : str),
  ~ In k (map kf l) -> lookup k (map (fun y => (kf y, vf y)) l) = None.
Proof.
  intros A B kf vf l k. induction l as [|a l IH]; intro Hn.
  - reflexivity.
  - cbn [map lookup]. destruct (eqs k (kf a)) eqn:E.
    + exfalso. apply Hn. left. apply eqs_eq in E. auto.
    + apply IH. intro H. apply Hn. right. exact H.
Qed.

Lemma lookup_dict_set_same : forall (A : Type) (k : str) (v : A) (l : list (str * A)),
  lookup k (dict_set k v l) = Some v.
Proof.
  intros A k v l. induction l as [|[k' v'] l IH].
  - cbn [dict_set lookup]. rewrite eqs_refl. reflexivity.
  - cbn [dict_set]. destruct (eqs k k') eqn:E; cbn [lookup]; rewrite E; [reflexivity | exact IH].
Qed.

Lemma lookup_dict_set_other : forall (A : Type) (k k2 : str) (v : A) (l : list (str * A)),
  k2 <> k -> lookup k2 (dict_set k v l) = lookup k2 l.
Proof.
  intros A k k2 v l Hne. induction l as [|[k' v'] l IH].
  - cbn [dict_set lookup]. apply eqs_neq in Hne. rewrite Hne. reflexivity.
  - cbn [dict_set]. destruct (eqs k k') eqn:E; cbn [lookup].
    + apply eqs_eq in E. subst k'. apply eqs_neq in Hne. rewrite Hne. reflexivity.
    + rewrite IH. reflexivity.
Qed.

Lemma last_in : forall (A : Type) (l : list A) (d : A), In (last l d) (d :: l).
Proof.
  intros A l d. induction l as [|a l IH].
  - left. reflexivity.
  - destruct l as [|b l'].
    + right. left. reflexivity.
    + change (last (a :: b :: l') d) with (last (b :: l') d).
      destruct IH as [IH|IH]; [left; exact IH | right; right; exact IH].
Qed.

Lemma last_map : forall (A B : Type) (f : A -> B) (l : list A) (d : A), last (map f l) (f d) = f (last l d).
Proof.
  intros A B f l d. induction l as [|a l IH]; [reflexivity|].
  destruct l as [|b l']; [reflexivity|].
  change (last (a :: b :: l') d) with (last (b :: l') d). rewrite <- IH. reflexivity.
Qed.

(* ------------------------------------------------------------------ *)
(** * Keys *)

Lemma keyid_truthy : forall key v, jget S_keyid key = Some v -> jtruthy key = true.
Proof.
  intros key v H. destruct key; try discriminate. cbn [jget] in H. destruct l; [discriminate | reflexivity].
Qed.

(* ------------------------------------------------------------------ *)
(** * Python equality is symmetric on hash records
      (dicts algorithm -> digest string, each algorithm listed once) *)

Definition hash_record (j : json) : Prop :=
  exists l, j = JDict l /\ NoDup (keys l) /\ forall k v, In (k, v) l -> exists s, v = JStr s.

Definition dict_sub (x y : list (str * json)) : bool :=
  forallb (fun kv => match lookup (fst kv) y with Some b => py_eqb (snd kv) b | None => false end) x.

Lemma py_eqb_dict : forall x y, py_eqb (JDict x) (JDict y) = Nat.eqb (length x) (length y) && dict_sub x y.
Proof.
  intros x y. cbn [py_eqb]. f_equal. induction x as [|[k a] x IH]; [reflexivity|].
  cbn [dict_sub forallb fst snd]. rewrite IH. reflexivity.
Qed.

Lemma lookup_In : forall (A : Type) (k : str) (v : A) (l : list (str * A)), lookup k l = Some v -> In (k, v) l.
Proof.
  intros A k v l. induction l as [|[k' v'] l IH]; cbn [lookup]; intro H; [discriminate|].
  destruct (eqs k k') eqn:E.
  - apply eqs_eq in E. inversion H; subst. left. reflexivity.
  - right. apply IH. exact H.
Qed.

Lemma In_lookup_nodup : forall (A : Type) (k : str) (v : A) (l : list (str * A)),
  NoDup (keys l) -> In (k, v) l -> lookup k l = Some v.
Proof.
  intros A k v l. induction l as [|[k' v'] l IH]; intros Hnd Hin; [destruct Hin|].
  cbn [keys map fst] in Hnd. inversion Hnd as [|? ? Hnotin Hnd']; subst. cbn [lookup].
  destruct Hin as [Heq|Hin].
  - inversion Heq; subst. rewrite eqs_refl. reflexivity.
  - destruct (eqs k k') eqn:E.
    + exfalso. apply Hnotin. apply eqs_eq in E. subst k'.
      change k with (fst (k, v)). apply in_map. exact Hin.
    + apply IH; assumption.
Qed.

Lemma nodup_keys_nodup : forall (A : Type) (l : list (str * A)), NoDup (keys l) -> NoDup l.
Proof.
  intros A l. induction l as [|[k v] l IH]; intro H; [constructor|].
  cbn [keys map fst] in H. inversion H as [|? ? Hnotin Hnd]; subst. constructor; [|apply IH; exact Hnd].
  intro Hin. apply Hnotin. change k with (fst (k, v)). apply in_map. exact Hin.
Qed.

Lemma py_eqb_str_eq : forall s b, py_eqb (JStr s) b = true -> b = JStr s.
Proof. intros s b H. destruct b; try discriminate. cbn [py_eqb] in H. apply eqs_eq in H. subst. reflexivity. Qed.

Lemma dict_sub_swap : forall x y,
  NoDup (keys x) -> NoDup (keys y) ->
  (forall k v, In (k, v) x -> exists s, v = JStr s) -> (forall k v, In (k, v) y -> exists s, v = JStr s) ->
  length x = length y -> dict_sub x y = true -> dict_sub y x = true.
Proof.
  intros x y Hx Hy Sx Sy Hlen Hsub. unfold dict_sub in *. rewrite forallb_forall in Hsub.
  assert (incl x y) as Hincl.
  { intros [k a] Hin. specialize (Hsub _ Hin). cbn [fst snd] in Hsub.
    destruct (lookup k y) as [b|] eqn:El; [|discriminate].
    destruct (Sx k a Hin) as [s ->]. apply py_eqb_str_eq in Hsub. subst b. apply lookup_In. exact El. }
  assert (incl y x) as Hback.
  { apply NoDup_length_incl; [apply nodup_keys_nodup; exact Hx | rewrite Hlen; apply le_n | exact Hincl]. }
  apply forallb_forall. intros [k b] Hin. cbn [fst snd].
  rewrite (In_lookup_nodup _ k b x Hx (Hback _ Hin)).
  destruct (Sy k b Hin) as [s ->]. cbn [py_eqb]. apply eqs_refl.
Qed.

Lemma py_eqb_sym_hash : forall a b, hash_record a -> hash_record b -> py_eqb a b = py_eqb b a.
Proof.
  intros a b (x & -> & Hx & Sx) (y & -> & Hy & Sy). rewrite !py_eqb_dict.
  destruct (Nat.eqb (length x) (length y)) eqn:El.
  - apply Nat.eqb_eq in El. rewrite <- El, Nat.eqb_refl. cbn [andb].
    destruct (dict_sub x y) eqn:E1; destruct (dict_sub y x) eqn:E2; try reflexivity.
    + rewrite (dict_sub_swap x y Hx Hy Sx Sy El E1) in E2. discriminate.
    + rewrite (dict_sub_swap y x Hy Hx Sy Sx (eq_sym El) E2) in E1. discriminate.
  - rewrite Nat.eqb_sym, El. reflexivity.
Qed.

(* ------------------------------------------------------------------ *)
(** * The honest scenario *)

(** one step of the chain as it was carried out: the layout's step entry, the functionary's key id and
    key-store entry, the link file as stored (parsed JSON), its metadata object and the link it carries *)
Record hstep := mkH {
  h_step : step;
  h_kid : str;
  h_key : json;
  h_file : json;
  h_md : metadata;
  h_link : link
}.
Definition h_name (h : hstep) : str := st_name (h_step h).

(** (H5) py_eqb is symmetric on the hash records a link lists for the same path on both sides *)
Definition own_sym (lk : link) : Prop :=
  forall a hm hp, lookup a (l_materials lk) = Some hm -> lookup a (l_products lk) = Some hp ->
                  py_eqb hp hm = py_eqb hm hp.

(** (H5) holds for every link whose artifact maps hold hash records *)
Lemma hash_records_own_sym : forall lk,
  (forall a h, lookup a (l_materials lk) = Some h -> hash_record h) ->
  (forall a h, lookup a (l_products lk) = Some h -> hash_record h) -> own_sym lk.
Proof. intros lk Hm Hp a hm hp Em Ep. apply py_eqb_sym_hash; eauto. Qed.

(** (H2, H5) step i+1 demands exactly the products of step i and started from them *)
Definition follows (prev h : hstep) : Prop :=
  (exists req, (forall f, In f req -> In f (keys (l_products (h_link prev)))) /\
               st_em (h_step h) = closed_rules Products (h_name prev) req) /\
  same_artifacts (l_materials (h_link h)) (l_products (h_link prev)).

Fixpoint chained (prev : hstep) (rest : list hstep) : Prop :=
  match rest with
  | [] => True
  | h :: rest' => follows prev h /\ chained h rest'
  end.

Lemma chained_prev : forall rest h0 h, chained h0 rest -> In h rest ->
  exists prev, In prev (h0 :: rest) /\ follows prev h.
Proof.
  induction rest as [|x rest IH]; intros h0 h Hc Hin; [destruct Hin|].
  destruct Hc as [Hf Hc]. destruct Hin as [->|Hin].
  - exists h0. split; [left; reflexivity | exact Hf].
  - destruct (IH x h Hc Hin) as (prev & Hp & Hfo). exists prev. split; [right; exact Hp | exact Hfo].
Qed.

Section Honest.
  Variable b64dec : str -> option (list N).
  Variable loads : list N -> option json.
  Variable sig_ok : str -> list N -> str -> bool.
  Variable now_s : Z.
  Variable now_us : Z.
  Variable exec : list json -> exec_result.

  (** (H2) the step entry of the derived layout: one authorised key, threshold 1, the product rules *)
  Definition step_shape (h : hstep) : Prop :=
    name_ok (h_name h) = true /\ st_pubkeys (h_step h) = [h_kid h] /\ st_thr_raw (h_step h) = JInt 1%Z /\
    st_ep (h_step h) = product_rules (h_name h).

  (** (H3) the functionary's key is in the layout's key store under its own id and has no subkeys *)
  Definition key_ok (l : layout) (h : hstep) : Prop :=
    lookup (h_kid h) (ly_keys l) = Some (h_key h) /\
    jget S_keyid (h_key h) = Some (JStr (h_kid h)) /\ subkey_ids (h_key h) = [].

  (** (H4) the link file is in the directory, loads, carries a link recorded under the step's name and a
      valid signature by the functionary's key *)
  Definition link_ok (files : list (str * file)) (h : hstep) : Prop :=
    lookup (link_filename (h_name h) (h_kid h)) files = Some (FJson (h_file h)) /\
    from_dict b64dec loads (h_file h) = Ok (h_md h) /\
    get_payload (h_md h) = Ok (PLink (h_link h)) /\
    verify_signature sig_ok now_s (h_md h) (h_key h) = Ok tt /\
    l_name (h_link h) = JStr (h_name h).

  Record honest (md : metadata) (keys : json) (files : list (str * file)) (l : layout)
         (h0 : hstep) (rest : list hstep) : Prop := mkHonest {
    hon_sigs : verify_metadata_signatures sig_ok now_s md keys = Ok tt;                 (* H1 *)
    hon_payload : get_payload md = Ok (PLayout l);
    hon_fresh : check_expiry (ly_expires_us l) now_us = Ok tt;
    hon_steps : ly_steps l = map h_step (h0 :: rest);                                   (* H2 *)
    hon_names : NoDup (map h_name (h0 :: rest));
    hon_each : forall h, In h (h0 :: rest) ->
                 step_shape h /\ key_ok l h /\ link_ok files h /\ own_sym (h_link h);   (* H2-H5 *)
    hon_first : st_em (h_step h0) = [];
    hon_chain : chained h0 rest                                                         (* H2, H5 *)
  }.

  (** what the stages compute for an honest chain *)
  Definition loaded (hs : list hstep) : list (str * list (str * metadata)) :=
    map (fun h => (h_name h, [(h_kid h, h_md h)])) hs.
  Definition chain_of (hs : list hstep) : list (str * list (str * link)) :=
    map (fun h => (h_name h, [(h_kid h, h_link h)])) hs.
  Definition reduced_of (hs : list hstep) : links :=
    map (fun h => (h_name h, h_link h)) hs.

  (* ---------------------------------------------------------------- *)
  (** ** Stage: link loading *)

  Lemma load_step_honest : forall files l h,
    step_shape h -> key_ok l h -> link_ok files h ->
    load_step b64dec loads files l (h_step h) = Ok [(h_kid h, h_md h)].
  Proof.
    intros files l h (Hn & Hpk & Hthr & _) (Hk & _ & Hsub) (Hf & Hfd & _).
    unfold load_step. fold (h_name h). rewrite Hn. cbn [negb].
    rewrite Hpk. cbn [flat_map]. unfold keyids_to_try. rewrite Hk, Hsub. cbn [app].
    cbn [load_keyids]. unfold load_file. rewrite Hf, Hfd. cbn [bind dict_set].
    unfold st_threshold. rewrite Hthr. reflexivity.
  Qed.

  Lemma load_links_honest : forall files l hs,
    ly_steps l = map h_step hs ->
    (forall h, In h hs -> step_shape h /\ key_ok l h /\ link_ok files h) ->
    load_links_for_layout b64dec loads files l = Ok (loaded hs).
  Proof.
    intros files l hs Hs Hall. unfold load_links_for_layout, loaded. rewrite Hs.
    apply mapM_map_ok. intros h Hin. destruct (Hall h Hin) as (H1 & H2 & H3).
    rewrite (load_step_honest files l h H1 H2 H3). reflexivity.
  Qed.

  (* ---------------------------------------------------------------- *)
  (** ** Stage: link signatures and thresholds *)

  Lemma verification_key_honest : forall l mk h,
    step_shape h -> key_ok l h ->
    verification_key l mk (h_step h) (h_kid h) = Some (Ok (h_key h, JStr (h_kid h))).
  Proof.
    intros l mk h (_ & Hpk & _) (Hk & Hid & _).
    unfold verification_key. rewrite Hpk. cbv beta iota fix.
    rewrite Hk, (keyid_truthy _ _ Hid), eqs_refl, Hid. reflexivity.
  Qed.

  Lemma names_step_honest : forall files h, link_ok files h -> names_step (h_md h) (h_step h) = Ok true.
  Proof.
    intros files h (_ & _ & Hp & _ & Hn). unfold names_step. rewrite Hp. cbn [bind]. rewrite Hn.
    unfold h_name. rewrite eqs_refl. reflexivity.
  Qed.

  Lemma verify_step_links_honest : forall files l mk h,
    step_shape h -> key_ok l h -> link_ok files h ->
    verify_step_links sig_ok now_s l mk (h_step h) [(h_kid h, h_md h)] [] [] =
    Ok ([h_kid h], [(h_kid h, h_md h)]).
  Proof.
    intros files l mk h Hs Hk Hl. unfold verify_step_links. cbv beta zeta iota fix.
    rewrite (verification_key_honest l mk h Hs Hk).
    destruct Hl as (Hf & Hfd & Hp & Hsig & Hn). rewrite Hsig.
    rewrite (names_step_honest files h (conj Hf (conj Hfd (conj Hp (conj Hsig Hn))))).
    reflexivity.
  Qed.

  Lemma link_thresholds_honest : forall files l hs,
    ly_steps l = map h_step hs -> NoDup (map h_name hs) ->
    (forall h, In h hs -> step_shape h /\ key_ok l h /\ link_ok files h) ->
    verify_link_signature_thresholds sig_ok now_s l (loaded hs) = Ok (loaded hs).
  Proof.
    intros files l hs Hs Hnd Hall. unfold verify_link_signature_thresholds. rewrite Hs.
    unfold loaded at 2. apply mapM_map_ok. intros h Hin. destruct (Hall h Hin) as (H1 & H2 & H3).
    fold (h_name h). unfold loaded.
    rewrite (lookup_map_nodup hstep _ h_name (fun h => [(h_kid h, h_md h)]) hs h Hnd Hin).
    rewrite (verify_step_links_honest files l _ h H1 H2 H3). cbn [bind dedup mem_str length].
    destruct H1 as (_ & _ & Hthr & _). unfold st_threshold. rewrite Hthr. reflexivity.
  Qed.

  (** stages 1-6 together *)
  Lemma stage_pre_honest : forall md keys files l h0 rest name,
    honest md keys files l h0 rest ->
    stage_pre b64dec loads sig_ok now_s now_us files (mkArgs md keys None name) =
    Ok (l, loaded (h0 :: rest)).
  Proof.
    intros md keys files l h0 rest name H. destruct H as [Hsig Hpay Hfresh Hsteps Hnd Heach _ _].
    assert (forall h, In h (h0 :: rest) -> step_shape h /\ key_ok l h /\ link_ok files h) as Hall.
    { intros h Hin. destruct (Heach h Hin) as (A1 & A2 & A3 & _). auto. }
    unfold stage_pre. cbn [a_md a_keys a_params]. rewrite Hsig. cbn [bind]. rewrite Hpay. cbn [bind].
    rewrite Hfresh. cbn [bind].
    rewrite (load_links_honest files l (h0 :: rest) Hsteps Hall). cbn [bind].
    rewrite (link_thresholds_honest files l (h0 :: rest) Hsteps Hnd Hall). reflexivity.
  Qed.

  (* ---------------------------------------------------------------- *)
  (** ** Stage: sublayouts — every loaded item is a link, so sub-directories are never consulted *)

  Lemma subs_steps_honest : forall recs missing l files hs tr,
    (forall h, In h hs -> link_ok files h) ->
    subs_steps recs missing l (loaded hs) tr = (Ok (chain_of hs), tr).
  Proof.
    intros recs missing l files hs tr. induction hs as [|h hs IH]; intro Hall.
    - reflexivity.
    - unfold loaded, chain_of. cbn [map subs_steps subs_links].
      destruct (Hall h (or_introl eq_refl)) as (_ & _ & Hp & _). rewrite Hp. cbn [bind].
      fold (loaded hs). rewrite IH by (intros x Hx; apply Hall; right; exact Hx). reflexivity.
  Qed.

  (* ---------------------------------------------------------------- *)
  (** ** Stage: threshold agreement, reduction, step rules *)

  Lemma threshold_constraints_honest : forall l hs,
    ly_steps l = map h_step hs -> (forall h, In h hs -> step_shape h) ->
    forall chain, verify_threshold_constraints l chain = Ok tt.
  Proof.
    intros l hs Hs Hall chain. unfold verify_threshold_constraints. rewrite Hs.
    rewrite (mapM_map_ok _ _ _ _ h_step (fun _ => tt) hs); [reflexivity|].
    intros h Hin. destruct (Hall h Hin) as (_ & _ & Hthr & _). unfold st_threshold. rewrite Hthr. reflexivity.
  Qed.

  Lemma reduce_chain_honest : forall hs, reduce_chain_links (chain_of hs) = Ok (reduced_of hs).
  Proof.
    intro hs. unfold reduce_chain_links, chain_of, reduced_of.
    apply (mapM_map_ok hstep). intros h _. reflexivity.
  Qed.

  Lemma lookup_reduced : forall hs h, NoDup (map h_name hs) -> In h hs ->
    lookup (h_name h) (reduced_of hs) = Some (h_link h).
  Proof. intros hs h Hnd Hin. unfold reduced_of. apply (lookup_map_nodup hstep _ h_name h_link); assumption. Qed.

  (** a closed material rule list passes for any item whose materials equal the referenced link's products *)
  Lemma closed_materials_pass : forall ls item prev pl req,
    lookup prev ls = Some pl -> (forall f, In f req -> In f (keys (l_products pl))) ->
    same_artifacts (l_materials item) (l_products pl) ->
    exists q, run_rules glob_match Materials item ls (keys (l_materials item)) (closed_rules Products prev req) = Ok q.
  Proof.
    intros ls item prev pl req Hprev Hreq Hsame.
    apply (closed_rules_iff Materials item ls Products prev req pl Hprev). cbn [arts]. split.
    - intros f Hf. apply Hreq in Hf. apply keys_In_lookup in Hf. destruct Hf as [y Hy].
      specialize (Hsame f). rewrite Hy in Hsame.
      destruct (lookup f (l_materials item)) as [x|] eqn:Ex; [|contradiction].
      apply keys_In_lookup. eauto.
    - intros a hs Hs. specialize (Hsame a). rewrite Hs in Hsame.
      destruct (lookup a (l_products pl)) as [y|]; [|contradiction]. exists y. auto.
  Qed.

  Lemma materials_pass : forall ls prev h,
    lookup (h_name prev) ls = Some (h_link prev) -> follows prev h ->
    exists q, run_rules glob_match Materials (h_link h) ls (keys (l_materials (h_link h))) (st_em (h_step h)) = Ok q.
  Proof.
    intros ls prev h Hprev [(req & Hreq & Hem) Hsame]. rewrite Hem.
    apply (closed_materials_pass ls (h_link h) (h_name prev) (h_link prev) req); assumption.
  Qed.

  Lemma step_rules_honest : forall l h0 rest,
    ly_steps l = map h_step (h0 :: rest) -> NoDup (map h_name (h0 :: rest)) ->
    (forall h, In h (h0 :: rest) -> step_shape h /\ own_sym (h_link h)) ->
    st_em (h_step h0) = [] -> chained h0 rest ->
    verify_all_item_rules glob_match (step_items l) (reduced_of (h0 :: rest)) = Ok tt.
  Proof.
    intros l h0 rest Hs Hnd Hall Hfirst Hchain. apply (both_lists glob_match). apply Forall_forall.
    intros [[name em] ep] Hin. unfold step_items in Hin. rewrite Hs, map_map in Hin.
    apply in_map_iff in Hin. destruct Hin as (h & Heq & Hin). inversion Heq; subst name em ep. clear Heq.
    fold (h_name h). unfold verify_item_rules. rewrite (lookup_reduced _ h Hnd Hin). cbn [arts]. split.
    - destruct Hin as [<-|Hin'].
      + rewrite Hfirst. cbn [run_rules]. eauto.
      + destruct (chained_prev rest h0 h Hchain Hin') as (prev & Hp & Hfo).
        apply (materials_pass _ prev h); [apply lookup_reduced; assumption | exact Hfo].
    - destruct (Hall h Hin) as ((_ & _ & _ & Hep) & Hsym). rewrite Hep. exists [].
      apply product_rules_pass; [apply lookup_reduced; assumption | exact Hsym].
  Qed.

  Lemma stage_mid_honest : forall l h0 rest,
    ly_steps l = map h_step (h0 :: rest) -> NoDup (map h_name (h0 :: rest)) ->
    (forall h, In h (h0 :: rest) -> step_shape h /\ own_sym (h_link h)) ->
    st_em (h_step h0) = [] -> chained h0 rest ->
    stage_mid l (chain_of (h0 :: rest)) = Ok (reduced_of (h0 :: rest)).
  Proof.
    intros l h0 rest Hs Hnd Hall Hfirst Hchain. unfold stage_mid.
    rewrite (threshold_constraints_honest l (h0 :: rest) Hs (fun h Hin => proj1 (Hall h Hin))). cbn [bind].
    rewrite reduce_chain_honest. cbn [bind].
    rewrite (step_rules_honest l h0 rest Hs Hnd Hall Hfirst Hchain). reflexivity.
  Qed.

  (* ---------------------------------------------------------------- *)
  (** ** Stage: summary link *)

  (** first step's materials, last step's products (and its byproducts and command), under the given name *)
  Definition summary_of (name : json) (h0 : hstep) (rest : list hstep) : link :=
    let la := h_link (last rest h0) in
    mkLink name (l_materials (h_link h0)) (l_products la) (l_byproducts la) (l_command la) (JDict []).

  Lemma summary_honest : forall l h0 rest name,
    ly_steps l = map h_step (h0 :: rest) -> NoDup (map h_name (h0 :: rest)) ->
    get_summary_link l (reduced_of (h0 :: rest)) name = Ok (summary_of name h0 rest).
  Proof.
    intros l h0 rest name Hs Hnd. unfold get_summary_link. rewrite Hs. cbn [map].
    fold (h_name h0). rewrite (lookup_reduced (h0 :: rest) h0 Hnd (or_introl eq_refl)).
    assert (last (h_step h0 :: map h_step rest) (h_step h0) = h_step (last rest h0)) as ->.
    { destruct rest as [|b r]; [reflexivity|].
      change (last (h_step h0 :: map h_step (b :: r)) (h_step h0)) with (last (map h_step (b :: r)) (h_step h0)).
      apply last_map. }
    fold (h_name (last rest h0)). rewrite (lookup_reduced (h0 :: rest) _ Hnd (last_in _ rest h0)).
    reflexivity.
  Qed.
  (* ---------------------------------------------------------------- *)
  (** ** End to end, no inspections *)

  Theorem honest_verify_body : forall md keys files l h0 rest recs missing name,
    honest md keys files l h0 rest -> ly_inspect l = [] ->
    verify_body b64dec loads sig_ok now_s now_us exec files recs missing (mkArgs md keys None name) =
    (Ok (summary_of name h0 rest), []).
  Proof.
    intros md keys files l h0 rest recs missing name H Hins. unfold verify_body.
    rewrite (stage_pre_honest md keys files l h0 rest name H).
    destruct H as [_ _ _ Hsteps Hnd Heach Hfirst Hchain].
    rewrite (subs_steps_honest recs missing l files (h0 :: rest) []
               (fun h Hin => proj1 (proj2 (proj2 (Heach h Hin))))).
    rewrite (stage_mid_honest l h0 rest Hsteps Hnd
               (fun h Hin => conj (proj1 (Heach h Hin)) (proj2 (proj2 (proj2 (Heach h Hin))))) Hfirst Hchain).
    unfold stage_final, insp_items. rewrite Hins. cbn [run_all_inspections map verify_all_item_rules bind a_step_name].
    rewrite (summary_honest l h0 rest name Hsteps Hnd). reflexivity.
  Qed.

  (* ---------------------------------------------------------------- *)
  (** ** End to end, with one closing inspection over the last step's products *)

  (** the inspection of the derived layout: a runnable command that exits 0 in a directory whose recorded
      state equals the last step's products, checked by the closed rule list over those products *)
  Definition closing_inspection (i : insp) (h0 : hstep) (rest : list hstep) : Prop :=
    let la := last rest h0 in
    ~ In (in_name i) (map h_name (h0 :: rest)) /\
    in_run i <> [] /\ forallb (fun a => match a with JStr _ => true | _ => false end) (in_run i) = true /\
    (exists req, (forall f, In f req -> In f (keys (l_products (h_link la)))) /\
                 in_em i = closed_rules Products (h_name la) req) /\
    in_ep i = [] /\
    exists mats prods, exec (in_run i) = ExDone (JInt 0%Z) mats prods /\
                       same_artifacts mats (l_products (h_link la)).

  Lemma stage_final_inspection : forall l h0 rest i name tr,
    ly_steps l = map h_step (h0 :: rest) -> NoDup (map h_name (h0 :: rest)) ->
    ly_inspect l = [i] -> closing_inspection i h0 rest ->
    stage_final exec l (reduced_of (h0 :: rest)) name tr = (Ok (summary_of name h0 rest), tr ++ [Exec (in_run i)]).
  Proof.
    intros l h0 rest i name tr Hsteps Hnd Hins (Hfresh & Hrun & Hstr & (req & Hreq & Hem) & Hep & mats & prods & Hex & Hsame).
    unfold stage_final, insp_items. rewrite Hins. cbn [run_all_inspections map].
    destruct (in_run i) as [|c cmd] eqn:Ecmd; [contradiction Hrun; reflexivity|].
    rewrite Hstr. cbn [negb]. rewrite Hex. cbn [Z.eqb run_all_inspections dict_set].
    unfold combine_links. cbn [fold_left fst snd].
    set (il := mkLink (JStr (in_name i)) mats prods (JDict []) (JList (c :: cmd)) (JDict [])).
    set (ls := dict_set (in_name i) il (reduced_of (h0 :: rest))).
    assert (verify_all_item_rules glob_match [(in_name i, in_em i, in_ep i)] ls = Ok tt) as ->.
    { apply (both_lists glob_match). constructor; [|constructor].
      unfold verify_item_rules, ls. rewrite lookup_dict_set_same. cbn [arts]. split.
      - rewrite Hem. apply (closed_materials_pass _ il (h_name (last rest h0)) (h_link (last rest h0)) req).
        + rewrite lookup_dict_set_other.
          * apply lookup_reduced; [exact Hnd | apply last_in].
          * intro E. apply Hfresh. rewrite <- E. apply in_map. apply last_in.
        + exact Hreq.
        + exact Hsame.
      - rewrite Hep. cbn [run_rules]. eauto. }
    cbn [bind]. rewrite (summary_honest l h0 rest name Hsteps Hnd). reflexivity.
  Qed.

  Theorem honest_verify_body_inspection : forall md keys files l h0 rest i recs missing name,
    honest md keys files l h0 rest -> ly_inspect l = [i] -> closing_inspection i h0 rest ->
    verify_body b64dec loads sig_ok now_s now_us exec files recs missing (mkArgs md keys None name) =
    (Ok (summary_of name h0 rest), [Exec (in_run i)]).
  Proof.
    intros md keys files l h0 rest i recs missing name H Hins Hci. unfold verify_body.
    rewrite (stage_pre_honest md keys files l h0 rest name H).
    destruct H as [_ _ _ Hsteps Hnd Heach Hfirst Hchain].
    rewrite (subs_steps_honest recs missing l files (h0 :: rest) []
               (fun h Hin => proj1 (proj2 (proj2 (Heach h Hin))))).
    rewrite (stage_mid_honest l h0 rest Hsteps Hnd
               (fun h Hin => conj (proj1 (Heach h Hin)) (proj2 (proj2 (proj2 (Heach h Hin))))) Hfirst Hchain).
    cbn [a_step_name]. rewrite (stage_final_inspection l h0 rest i name [] Hsteps Hnd Hins Hci). reflexivity.
  Qed.

  (* ---------------------------------------------------------------- *)
  (** ** The same for in_toto_verify over a directory tree: sub-directories are irrelevant *)

  Lemma verify_dir_unfold : forall files subs,
    exists recs, verify b64dec loads sig_ok now_s now_us exec (Dir files subs) =
                 verify_body b64dec loads sig_ok now_s now_us exec files recs
                             (verify_in_missing_dir b64dec loads sig_ok now_s now_us exec).
  Proof. intros files subs. eexists. reflexivity. Qed.

  Theorem honest_verify : forall md keys files subs l h0 rest name,
    honest md keys files l h0 rest -> ly_inspect l = [] ->
    verify b64dec loads sig_ok now_s now_us exec (Dir files subs) (mkArgs md keys None name) =
    (Ok (summary_of name h0 rest), []).
  Proof.
    intros md keys files subs l h0 rest name H Hins.
    destruct (verify_dir_unfold files subs) as [recs ->]. apply (honest_verify_body md keys files l); assumption.
  Qed.

  Theorem honest_verify_inspection : forall md keys files subs l h0 rest i name,
    honest md keys files l h0 rest -> ly_inspect l = [i] -> closing_inspection i h0 rest ->
    verify b64dec loads sig_ok now_s now_us exec (Dir files subs) (mkArgs md keys None name) =
    (Ok (summary_of name h0 rest), [Exec (in_run i)]).
  Proof.
    intros md keys files subs l h0 rest i name H Hins Hci.
    destruct (verify_dir_unfold files subs) as [recs ->]. apply (honest_verify_body_inspection md keys files l); assumption.
  Qed.
  (* ---------------------------------------------------------------- *)
  (** ** The statements of Props/C11.v: in_toto_verify at the root (step name ""), on the directory
         alone and on any directory tree around it *)

  Theorem honest_verifies : forall md keys files subs l h0 rest,
    honest md keys files l h0 rest -> ly_inspect l = [] ->
    let a := mkArgs md keys None (JStr []) in
    let summary := summary_of (JStr []) h0 rest in
    verify_body b64dec loads sig_ok now_s now_us exec files []
                (verify_in_missing_dir b64dec loads sig_ok now_s now_us exec) a = (Ok summary, []) /\
    verify b64dec loads sig_ok now_s now_us exec (Dir files subs) a = (Ok summary, []) /\
    l_materials summary = l_materials (h_link h0) /\
    l_products summary = l_products (h_link (last rest h0)).
  Proof.
    intros md keys files subs l h0 rest H Hins a summary. repeat split.
    - apply (honest_verify_body md keys files l); assumption.
    - apply (honest_verify md keys files subs l); assumption.
  Qed.

  Theorem honest_verifies_inspection : forall md keys files subs l h0 rest i,
    honest md keys files l h0 rest -> ly_inspect l = [i] -> closing_inspection i h0 rest ->
    let a := mkArgs md keys None (JStr []) in
    let summary := summary_of (JStr []) h0 rest in
    verify_body b64dec loads sig_ok now_s now_us exec files []
                (verify_in_missing_dir b64dec loads sig_ok now_s now_us exec) a = (Ok summary, [Exec (in_run i)]) /\
    verify b64dec loads sig_ok now_s now_us exec (Dir files subs) a = (Ok summary, [Exec (in_run i)]) /\
    l_materials summary = l_materials (h_link h0) /\
    l_products summary = l_products (h_link (last rest h0)).
  Proof.
    intros md keys files subs l h0 rest i H Hins Hci a summary. repeat split.
    - apply (honest_verify_body_inspection md keys files l); assumption.
    - apply (honest_verify_inspection md keys files subs l); assumption.
  Qed.
End Honest.
