(** Utf8Proofs.v — code-point order is byte order of the UTF-8 encodings; UTF-8 is injective.
    Also: [lex_ltb] is a strict total order and [lex_leb] a total order (reused by DirDigestProofs). *)
From Coq Require Import List NArith Bool Lia ZifyBool ZifyN.
From InToto.Model Require Import Base Utf8.
Local Open Scope N_scope.
Local Ltac Zify.zify_post_hook ::= Z.div_mod_to_equations.

(** * [lex_ltb] is a strict total order *)

Lemma lex_ltb_nil_r : forall a, lex_ltb a [] = false.
Proof. destruct a; reflexivity. Qed.

Lemma lex_ltb_irrefl : forall a, lex_ltb a a = false.
Proof.
  induction a as [|x a IH]; [reflexivity|].
  cbn [lex_ltb]. rewrite N.ltb_irrefl, N.eqb_refl, IH. reflexivity.
Qed.

Lemma lex_ltb_cons : forall x a y b,
  lex_ltb (x :: a) (y :: b) = true <-> x < y \/ (x = y /\ lex_ltb a b = true).
Proof.
  intros. cbn [lex_ltb].
  rewrite orb_true_iff, andb_true_iff, N.ltb_lt, N.eqb_eq. reflexivity.
Qed.

Lemma lex_ltb_app_same : forall p x y, lex_ltb (p ++ x) (p ++ y) = lex_ltb x y.
Proof.
  induction p as [|c p IH]; intros x y; [reflexivity|].
  cbn [app lex_ltb]. rewrite N.ltb_irrefl, N.eqb_refl, IH. reflexivity.
Qed.

Lemma lex_ltb_asym : forall a b, lex_ltb a b = true -> lex_ltb b a = false.
Proof.
  induction a as [|x a IH]; intros [|y b] H; try reflexivity; try discriminate.
  apply lex_ltb_cons in H.
  destruct (lex_ltb (y :: b) (x :: a)) eqn:E; [|reflexivity].
  apply lex_ltb_cons in E.
  destruct H as [H|[H1 H2]], E as [E|[E1 E2]]; try lia.
  apply IH in H2. congruence.
Qed.

Lemma lex_ltb_trans : forall a b c,
  lex_ltb a b = true -> lex_ltb b c = true -> lex_ltb a c = true.
Proof.
  induction a as [|x a IH]; intros [|y b] [|z c] H1 H2; try reflexivity; try discriminate.
  apply lex_ltb_cons in H1. apply lex_ltb_cons in H2. apply lex_ltb_cons.
  destruct H1 as [H1|[H1 H1']], H2 as [H2|[H2 H2']].
  - left; lia.
  - left; lia.
  - left; lia.
  - right. split; [lia|]. eapply IH; eassumption.
Qed.

Lemma lex_ltb_total : forall a b, a <> b -> lex_ltb a b = true \/ lex_ltb b a = true.
Proof.
  induction a as [|x a IH]; intros [|y b] H.
  - congruence.
  - left; reflexivity.
  - right; reflexivity.
  - rewrite !lex_ltb_cons.
    destruct (N.lt_trichotomy x y) as [L|[E|L]]; [left; left; exact L | | right; left; exact L].
    subst y. assert (a <> b) as Hab by congruence.
    destruct (IH b Hab) as [K|K]; [left|right]; right; split; auto.
Qed.

(** * [lex_leb] is a total order *)

Lemma lex_leb_refl : forall a, lex_leb a a = true.
Proof. intro a. unfold lex_leb. rewrite lex_ltb_irrefl. reflexivity. Qed.

Lemma lex_leb_total : forall a b, lex_leb a b = false -> lex_leb b a = true.
Proof.
  unfold lex_leb. intros a b H. apply negb_false_iff in H.
  apply lex_ltb_asym in H. rewrite H. reflexivity.
Qed.

Lemma lex_leb_antisym : forall a b, lex_leb a b = true -> lex_leb b a = true -> a = b.
Proof.
  unfold lex_leb. intros a b H1 H2.
  apply negb_true_iff in H1. apply negb_true_iff in H2.
  destruct (list_eq_dec N.eq_dec a b) as [E|E]; [exact E|].
  destruct (lex_ltb_total a b E); congruence.
Qed.

Lemma lex_leb_trans : forall a b c,
  lex_leb a b = true -> lex_leb b c = true -> lex_leb a c = true.
Proof.
  unfold lex_leb. intros a b c H1 H2.
  apply negb_true_iff in H1. apply negb_true_iff in H2. apply negb_true_iff.
  destruct (lex_ltb c a) eqn:E; [|reflexivity].
  destruct (list_eq_dec N.eq_dec a b) as [Eab|Eab]; [subst; congruence|].
  destruct (lex_ltb_total a b Eab) as [K|K]; [|congruence].
  rewrite (lex_ltb_trans c a b E K) in H2. discriminate.
Qed.

(** * one code point *)

Lemma utf8_char_nonempty : forall c, utf8_char c <> [].
Proof.
  intro c. unfold utf8_char.
  destruct (c <? 128); [discriminate|].
  destruct (c <? 2048); [discriminate|].
  destruct (c <? 65536); discriminate.
Qed.

(** the encoding of a smaller code point is bytewise smaller, whatever follows;
    no range restriction is needed (bytes are unbounded numbers in the model) *)
Lemma utf8_char_lt : forall c d x y, c < d ->
  lex_ltb (utf8_char c ++ x) (utf8_char d ++ y) = true.
Proof.
  intros c d x y Hlt. unfold utf8_char.
  repeat match goal with
  | |- context [N.ltb ?a ?b] => destruct (N.ltb_spec a b); cbv iota
  end;
  cbn [app]; rewrite ?lex_ltb_cons; lia.
Qed.

(** * strings *)

Lemma utf8_cons : forall c s, utf8 (c :: s) = utf8_char c ++ utf8 s.
Proof. reflexivity. Qed.

Theorem utf8_order_gen : forall a b, lex_ltb (utf8 a) (utf8 b) = lex_ltb a b.
Proof.
  induction a as [|c a IH]; intros [|d b].
  - reflexivity.
  - rewrite utf8_cons. cbn [utf8 flat_map lex_ltb].
    destruct (utf8_char d) eqn:E; [apply utf8_char_nonempty in E; contradiction | reflexivity].
  - cbn [utf8 flat_map]. rewrite lex_ltb_nil_r. reflexivity.
  - rewrite !utf8_cons. cbn [lex_ltb].
    destruct (N.lt_trichotomy c d) as [L|[E|L]].
    + rewrite (utf8_char_lt c d _ _ L). apply N.ltb_lt in L. rewrite L. reflexivity.
    + subst d. rewrite lex_ltb_app_same, N.ltb_irrefl, N.eqb_refl, IH. reflexivity.
    + rewrite (lex_ltb_asym _ _ (utf8_char_lt d c (utf8 b) (utf8 a) L)).
      assert (c <? d = false) as -> by (apply N.ltb_ge; lia).
      assert (c =? d = false) as -> by (apply N.eqb_neq; lia).
      reflexivity.
Qed.

Theorem utf8_inj_gen : forall a b, utf8 a = utf8 b -> a = b.
Proof.
  intros a b H.
  destruct (list_eq_dec N.eq_dec a b) as [E|E]; [exact E|].
  pose proof (lex_ltb_irrefl (utf8 b)) as I.
  destruct (lex_ltb_total a b E) as [K|K]; rewrite <- utf8_order_gen in K.
  - rewrite H in K. congruence.
  - rewrite H in K. congruence.
Qed.

(** the statements as used by the properties (Python only encodes scalar values) *)
Theorem utf8_order : forall a b, encodable a = true -> encodable b = true ->
  lex_ltb (utf8 a) (utf8 b) = lex_ltb a b.
Proof. intros a b _ _. apply utf8_order_gen. Qed.

Theorem utf8_inj : forall a b, encodable a = true -> encodable b = true ->
  utf8 a = utf8 b -> a = b.
Proof. intros a b _ _. apply utf8_inj_gen. Qed.
