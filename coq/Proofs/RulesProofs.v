(** RulesProofs.v — proofs behind C03: the artifact-rule evaluator of Model/Rules.v
    implements the declarative filter of RulesSpec.v. *)
From InToto.Model Require Import Base Json Rule Glob Rules.
From InToto.Proofs Require Import RulesSpec.

(** * Generic facts about association lists and list-sets *)

Lemma keys_In_lookup : forall (A : Type) (k : str) (m : list (str * A)),
  In k (keys m) <-> exists v, lookup k m = Some v.
Proof.
  intros A k m. unfold keys. induction m as [|[k' v'] m IH]; simpl.
  - split; [intros [] | intros [v Hv]; discriminate].
  - destruct (eqs k k') eqn:E.
    + apply eqs_eq in E. subst k'. split.
      * intros _. exists v'. reflexivity.
      * intros _. left. reflexivity.
    + apply eqs_neq in E. rewrite <- IH. split.
      * intros [Hk|Hk]; [congruence | assumption].
      * intro Hk. right. assumption.
Qed.

Lemma keys_In_lookup_none : forall (A : Type) (k : str) (m : list (str * A)),
  ~ In k (keys m) <-> lookup k m = None.
Proof.
  intros A k m. rewrite keys_In_lookup. destruct (lookup k m) as [v|].
  - split; [intro Hn; exfalso; apply Hn; exists v; reflexivity | discriminate].
  - split; [reflexivity | intros _ [v Hv]; discriminate].
Qed.

Lemma set_diff_In : forall x a b, In x (set_diff a b) <-> In x a /\ ~ In x b.
Proof.
  intros x a b. unfold set_diff. rewrite filter_In, negb_true_iff, mem_str_false. tauto.
Qed.

Lemma set_inter_In : forall x a b, In x (set_inter a b) <-> In x a /\ In x b.
Proof.
  intros x a b. unfold set_inter. rewrite filter_In, mem_str_In. tauto.
Qed.

Lemma dedup_In : forall x l, In x (dedup l) <-> In x l.
Proof.
  intros x l. induction l as [|y l IH]; simpl.
  - tauto.
  - destruct (mem_str y l) eqn:E.
    + apply mem_str_In in E. rewrite IH. split.
      * intro Hx. right. assumption.
      * intros [Hx|Hx]; [subst y; assumption | assumption].
    + simpl. rewrite IH. tauto.
Qed.

Lemma skipn_app_exact : forall (A : Type) (p r : list A), skipn (length p) (p ++ r) = r.
Proof.
  intros A p r. induction p as [|x p IH]; simpl; [reflexivity | exact IH].
Qed.

(** * Path arithmetic: posix_join / replace("\\", "/") *)

Lemma posix_join_eq : forall a b,
  posix_join a b =
  if (match b with c :: _ => N.eqb c 47 | [] => false end) then b
  else match a with
       | [] => b
       | _ => if ends_with_c 47 a then a ++ b else a ++ 47%N :: b
       end.
Proof.
  intros a b. destruct b as [|c b]; [reflexivity|].
  destruct c as [|p]; [reflexivity|].
  repeat (destruct p as [p|p|]; try reflexivity).
Qed.

Lemma ends_with_c_spec : forall c s, ends_with_c c s = true -> exists x, s = x ++ [c].
Proof.
  intros c s. induction s as [|y s IH]; intro H.
  - discriminate.
  - destruct s as [|z s].
    + simpl in H. apply N.eqb_eq in H. subst y. exists []. reflexivity.
    + change (ends_with_c c (z :: s) = true) in H.
      destruct (IH H) as [x Hx]. exists (y :: x). rewrite Hx. reflexivity.
Qed.

Lemma replace_bs_app : forall a b, replace_bs (a ++ b) = replace_bs a ++ replace_bs b.
Proof. intros a b. unfold replace_bs, replace_c. apply map_app. Qed.

Lemma replace_bs_no_bs : forall r, no_bs r -> replace_bs r = r.
Proof.
  intros r. unfold no_bs, replace_bs, replace_c. induction r as [|c r IH]; intro H; simpl.
  - reflexivity.
  - destruct (N.eqb c 92) eqn:E.
    + apply N.eqb_eq in E. exfalso. apply H. left. assumption.
    + f_equal. apply IH. intro Hin. apply H. right. assumption.
Qed.

Lemma posix_join_nonslash : forall sp r, sp <> [] -> (forall r', r <> 47%N :: r') ->
  posix_join sp r = posix_join sp [] ++ r.
Proof.
  intros sp r Hsp Hr. rewrite !posix_join_eq.
  destruct sp as [|s0 sp]; [congruence|].
  assert (Hc : (match r with c :: _ => N.eqb c 47 | [] => false end) = false).
  { destruct r as [|c r]; [reflexivity|]. apply N.eqb_neq. intro Hc. subst c.
    apply (Hr r). reflexivity. }
  rewrite Hc.
  destruct (ends_with_c 47 (s0 :: sp)); rewrite <- app_assoc; reflexivity.
Qed.

Lemma norm_prefix_ends : forall sp, sp <> [] -> exists x, norm_prefix sp = x ++ [47%N].
Proof.
  intros sp Hsp. unfold norm_prefix. rewrite posix_join_eq.
  destruct sp as [|s0 sp]; [congruence|].
  destruct (ends_with_c 47 (s0 :: sp)) eqn:E.
  - apply ends_with_c_spec in E. destruct E as [x Hx]. rewrite Hx.
    exists (replace_bs x). rewrite app_nil_r, replace_bs_app. reflexivity.
  - exists (replace_bs (s0 :: sp)). rewrite replace_bs_app. reflexivity.
Qed.

Lemma full_path_prefix : forall sp r, sp <> [] -> no_bs r -> (forall r', r <> 47%N :: r') ->
  full_path sp r = norm_prefix sp ++ r.
Proof.
  intros sp r Hsp Hbs Hr. unfold full_path, norm_prefix.
  destruct sp as [|s0 sp]; [congruence|].
  rewrite (posix_join_nonslash (s0 :: sp) r Hsp Hr).
  rewrite replace_bs_app, (replace_bs_no_bs r Hbs). reflexivity.
Qed.

(** The condition on the queue for a MATCH rule with a non-empty source prefix [sp]:
    recorded paths contain no backslash, and nothing in the queue continues the
    normalised prefix [norm_prefix sp] with a second '/'.
    NOTE: RulesSpec.queue_ok is written [Match _ (_ :: _ as sp) _ _ _], which Coq parses as
    [_ :: (_ as sp)], so there [sp] is bound to the TAIL of the source prefix and the condition
    talks about the wrong prefix (C03_consume_exact / C03_consume_total are false with it).
    [queue_ok_src] is the intended condition, with the alias on the whole prefix; once
    RulesSpec.queue_ok is written [Match _ ((_ :: _) as sp) _ _ _] the two are convertible. *)
Definition queue_ok_src (m : meaning) (queue : list str) : Prop :=
  match m with
  | Match _ ((_ :: _) as sp) _ _ _ =>
      forall a, In a queue -> no_bs a /\ ~ (exists r, a = norm_prefix sp ++ 47%N :: r)
  | _ => True
  end.

(** the queue after stripping the source prefix *)
Definition filtered (sp : str) (queue : list str) : list str :=
  match sp with
  | [] => queue
  | _ => let np := norm_prefix sp in
         flat_map (fun a => if starts_with np a then [drop (length np) a] else []) queue
  end.

Lemma strip_In : forall np r queue,
  In r (flat_map (fun a => if starts_with np a then [drop (length np) a] else []) queue)
  <-> In (np ++ r) queue.
Proof.
  intros np r queue. rewrite in_flat_map. split.
  - intros [a [Ha Hr]]. destruct (starts_with np a) eqn:E.
    + apply starts_with_spec in E. destruct E as [r' Hr']. subst a.
      unfold drop in Hr. rewrite skipn_app_exact in Hr.
      destruct Hr as [Hr|[]]. subst r'. assumption.
    + destruct Hr.
  - intro H. exists (np ++ r). split; [assumption|].
    assert (E : starts_with np (np ++ r) = true).
    { apply starts_with_spec. exists r. reflexivity. }
    rewrite E. unfold drop. rewrite skipn_app_exact. left. reflexivity.
Qed.

Lemma filtered_In : forall sp r queue, In r (filtered sp queue) <-> In (src_prefix sp ++ r) queue.
Proof.
  intros sp r queue. destruct sp as [|s0 sp].
  - simpl. tauto.
  - unfold filtered, src_prefix. apply strip_In.
Qed.

Lemma full_path_ok : forall p sp d dp step queue r,
  queue_ok_src (Match p sp d dp step) queue ->
  In (src_prefix sp ++ r) queue ->
  full_path sp r = src_prefix sp ++ r.
Proof.
  intros p sp d dp step queue r Hq Hin. destruct sp as [|s0 sp]; [reflexivity|].
  unfold queue_ok_src in Hq. unfold src_prefix in *.
  destruct (Hq _ Hin) as [Hbs Hns].
  apply full_path_prefix.
  - discriminate.
  - intro Hr. apply Hbs. apply in_or_app. right. assumption.
  - intros r' Hr'. subst r. apply Hns. exists r'. reflexivity.
Qed.

(** the second loop of verify_match_rule, named *)
Definition match_go (sp dp : str) (src dest : amap) : list str -> res (list str) :=
  fix go (l : list str) : res (list str) :=
    match l with
    | [] => Ok []
    | r :: l' =>
        let fs := full_path sp r in
        let fd := full_path dp r in
        match lookup fs src with
        | None => Err EKeyError
        | Some hs =>
            do rest <- go l';
            match lookup fd dest with
            | None => Ok rest
            | Some hd => if py_eqb hs hd then Ok (if mem_str fs rest then rest else fs :: rest) else Ok rest
            end
        end
    end.

Definition go_hit (sp dp : str) (src dest : amap) (l : list str) (x : str) : Prop :=
  exists r hs hd, In r l /\ x = full_path sp r /\ lookup x src = Some hs /\
                  lookup (full_path dp r) dest = Some hd /\ py_eqb hs hd = true.

Lemma match_go_cases : forall sp dp src dest l,
  (exists c, match_go sp dp src dest l = Ok c /\
             (forall r, In r l -> lookup (full_path sp r) src <> None) /\
             (forall x, In x c <-> go_hit sp dp src dest l x))
  \/ (match_go sp dp src dest l = Err EKeyError /\
      exists r, In r l /\ lookup (full_path sp r) src = None).
Proof.
  intros sp dp src dest l. induction l as [|r l IH].
  - left. exists []. split; [reflexivity|]. split.
    + intros r [].
    + intro x. split; [intros [] | intros (r & hs & hd & [] & _)].
  - simpl. destruct (lookup (full_path sp r) src) as [hs|] eqn:Hs.
    + destruct IH as [(c & Hc & Hall & Hin) | (Hc & r0 & Hr0 & Hnone)].
      * left. rewrite Hc. simpl.
        assert (Hall' : forall r1, r = r1 \/ In r1 l -> lookup (full_path sp r1) src <> None).
        { intros r1 [Hr1|Hr1]; [subst r1; rewrite Hs; discriminate | apply Hall; assumption]. }
        assert (Hweak : forall x, go_hit sp dp src dest l x -> go_hit sp dp src dest (r :: l) x).
        { intros x (r1 & hs1 & hd1 & Hr1 & Hrest). exists r1, hs1, hd1. split; [right; assumption | assumption]. }
        destruct (lookup (full_path dp r) dest) as [hd|] eqn:Hd.
        -- destruct (py_eqb hs hd) eqn:Heq.
           ++ destruct (mem_str (full_path sp r) c) eqn:Hmem.
              ** exists c. split; [reflexivity|]. split; [exact Hall'|].
                 intro x. split.
                 --- intro Hx. apply Hweak. apply Hin. assumption.
                 --- intros (r1 & hs1 & hd1 & [Hr1|Hr1] & Hx & Hrest).
                     +++ subst r1. subst x. apply mem_str_In. assumption.
                     +++ apply Hin. exists r1, hs1, hd1. split; [assumption|]. split; assumption.
              ** exists (full_path sp r :: c). split; [reflexivity|]. split; [exact Hall'|].
                 intro x. split.
                 --- intros [Hx|Hx].
                     +++ subst x. exists r, hs, hd. split; [left; reflexivity|].
                         split; [reflexivity|]. split; [assumption|]. split; assumption.
                     +++ apply Hweak. apply Hin. assumption.
                 --- intros (r1 & hs1 & hd1 & [Hr1|Hr1] & Hx & Hrest).
                     +++ subst r1. left. symmetry. assumption.
                     +++ right. apply Hin. exists r1, hs1, hd1. split; [assumption|]. split; assumption.
           ++ exists c. split; [reflexivity|]. split; [exact Hall'|].
              intro x. split.
              ** intro Hx. apply Hweak. apply Hin. assumption.
              ** intros (r1 & hs1 & hd1 & [Hr1|Hr1] & Hx & Hs1 & Hd1 & Heq1).
                 --- subst r1. subst x. rewrite Hs in Hs1. rewrite Hd in Hd1.
                     injection Hs1 as Hs1. injection Hd1 as Hd1. subst hs1 hd1. congruence.
                 --- apply Hin. exists r1, hs1, hd1. repeat split; assumption.
        -- exists c. split; [reflexivity|]. split; [exact Hall'|].
           intro x. split.
           ++ intro Hx. apply Hweak. apply Hin. assumption.
           ++ intros (r1 & hs1 & hd1 & [Hr1|Hr1] & Hx & Hs1 & Hd1 & Heq1).
              ** subst r1. rewrite Hd in Hd1. discriminate.
              ** apply Hin. exists r1, hs1, hd1. repeat split; assumption.
      * right. rewrite Hc. simpl. split; [reflexivity|].
        exists r0. split; [right; assumption | assumption].
    + right. split; [reflexivity|]. exists r. split; [left; reflexivity | assumption].
Qed.

Section Proofs.
  Variable matches : str -> str -> option bool.

  (** * fnmatch.filter *)

  Lemma fnfilter_cases : forall names pat,
    (exists f, fnfilter matches names pat = Ok f /\
               (forall a, In a names -> matches pat a <> None) /\
               (forall x, In x f <-> In x names /\ matches pat x = Some true))
    \/ (fnfilter matches names pat = Err EUnmodelled /\
        exists a, In a names /\ matches pat a = None).
  Proof.
    intros names pat. unfold fnfilter. induction names as [|x names IH].
    - left. exists []. split; [reflexivity|]. split.
      + intros a [].
      + intro y. simpl. tauto.
    - simpl. destruct (matches pat x) as [b|] eqn:Hx.
      + destruct IH as [(f & Hf & Hall & Hin) | (Hf & a & Ha & Hnone)].
        * left. exists (if b then x :: f else f). split.
          { rewrite Hf. reflexivity. }
          split.
          { intros a [Ha|Ha]; [subst a; rewrite Hx; discriminate | apply Hall; assumption]. }
          intro y. destruct b; simpl; rewrite Hin; split.
          -- intros [Hy|[Hy HM]]; [subst y; split; [left; reflexivity | assumption] | split; [right; assumption | assumption]].
          -- intros [[Hy|Hy] HM]; [left; assumption | right; split; assumption].
          -- intros [Hy HM]. split; [right; assumption | assumption].
          -- intros [[Hy|Hy] HM]; [subst y; congruence | split; assumption].
        * right. split.
          { rewrite Hf. reflexivity. }
          exists a. split; [right; assumption | assumption].
      + right. split.
        { reflexivity. }
        exists x. split; [left; reflexivity | assumption].
  Qed.

  Lemma fnfilter_supported : forall names pat, supported matches pat ->
    exists f, fnfilter matches names pat = Ok f /\
              (forall x, In x f <-> In x names /\ matches pat x = Some true).
  Proof.
    intros names pat Hsup.
    destruct (fnfilter_cases names pat) as [(f & Hf & _ & Hin) | (_ & a & _ & Hnone)].
    - exists f. split; assumption.
    - exfalso. exact (Hsup a Hnone).
  Qed.

  Lemma match_rule_unfold : forall pat sp d dp step queue src ls,
    match_rule matches pat sp d dp step queue src ls =
    match lookup step ls with
    | None => Ok []
    | Some dl => do g <- fnfilter matches (filtered sp queue) pat;
                 match_go sp dp src (arts d dl) g
    end.
  Proof. reflexivity. Qed.

  (** * One consuming rule *)

  (** what the consuming rules remove, as a set; [None] for DISALLOW / REQUIRE *)
  Lemma consumed_set : forall side item ls queue m,
    consuming m -> supported matches (pattern_of m) -> queue_ok_src m queue ->
    (forall a, In a queue -> In a (keys (arts side item))) ->
    exists c, apply_rule matches side item ls queue m = Ok (set_diff queue c) /\
              forall a, In a queue -> (In a c <-> consumes matches side item ls m a).
  Proof.
    intros side item ls queue m Hcons Hsup Hqok Hsub.
    destruct m as [k p | p sp d dp step].
    - simpl in Hsup.
      destruct (fnfilter_supported queue p Hsup) as (f & Hf & Hin).
      destruct k; simpl in Hcons; try contradiction; clear Hcons.
      + (* Create *)
        eexists. split.
        { simpl. unfold create_rule. rewrite Hf. simpl. reflexivity. }
        intros a Ha. rewrite set_inter_In, dedup_In, set_diff_In, Hin. simpl. unfold M. tauto.
      + (* Modify *)
        eexists. split.
        { simpl. unfold modify_rule. rewrite Hf. simpl. reflexivity. }
        intros a Ha. rewrite filter_In, dedup_In, Hin. simpl. unfold M. split.
        * intros [[_ HM] Hlk]. split; [assumption|].
          destruct (lookup a (l_materials item)) as [hm|]; [|discriminate].
          destruct (lookup a (l_products item)) as [hp|]; [|discriminate].
          exists hm, hp. split; [reflexivity|]. split; [reflexivity|].
          apply negb_true_iff. assumption.
        * intros [HM (hm & hp & Hm & Hp & Heq)]. split; [split; assumption|].
          rewrite Hm, Hp, Heq. reflexivity.
      + (* Delete *)
        eexists. split.
        { simpl. unfold delete_rule. rewrite Hf. simpl. reflexivity. }
        intros a Ha. rewrite set_inter_In, dedup_In, set_diff_In, Hin. simpl. unfold M. tauto.
      + (* Allow *)
        eexists. split.
        { simpl. unfold allow_rule. rewrite Hf. simpl. reflexivity. }
        intros a Ha. rewrite dedup_In, Hin. simpl. unfold M. tauto.
    - (* Match *)
      simpl in Hsup. unfold apply_rule. rewrite match_rule_unfold.
      destruct (lookup step ls) as [dl|] eqn:Hstep.
      + destruct (fnfilter_supported (filtered sp queue) p Hsup) as (g & Hg & Hgin).
        rewrite Hg. simpl.
        assert (Hfp : forall r, In r g -> full_path sp r = src_prefix sp ++ r /\ In (src_prefix sp ++ r) queue).
        { intros r Hr. apply Hgin in Hr. destruct Hr as [Hr _]. apply filtered_In in Hr.
          split; [|assumption]. apply (full_path_ok p sp d dp step queue r Hqok Hr). }
        destruct (match_go_cases sp dp (arts side item) (arts d dl) g)
          as [(c & Hc & _ & Hcin) | (_ & r & Hr & Hnone)].
        * exists c. rewrite Hc. simpl. split; [reflexivity|].
          intros a Ha. rewrite Hcin. unfold go_hit. simpl. split.
          -- intros (r & hs & hd & Hr & Hx & Hs & Hd & Heq).
             destruct (Hfp r Hr) as [Hfr _].
             exists r, dl, hs, hd. split; [congruence|].
             split; [apply Hgin in Hr; destruct Hr as [_ HM]; exact HM|].
             split; [exact Hstep|]. split; [assumption|]. split; assumption.
          -- intros (r & dl0 & hs & hd & Hx & HM & Hdl & Hs & Hd & Heq).
             rewrite Hstep in Hdl. injection Hdl as Hdl. subst dl0.
             assert (Hr : In r g).
             { apply Hgin. split; [|exact HM]. apply filtered_In. rewrite <- Hx. assumption. }
             destruct (Hfp r Hr) as [Hfr _].
             exists r, hs, hd. split; [assumption|]. split; [congruence|].
             split; [assumption|]. split; assumption.
        * exfalso. destruct (Hfp r Hr) as [Hfr Hq]. rewrite Hfr in Hnone.
          apply keys_In_lookup_none in Hnone. apply Hnone. apply Hsub. assumption.
      + exists []. split.
        { simpl. reflexivity. }
        intros a Ha. simpl. split; [intros [] |].
        intros (r & dl0 & hs & hd & _ & _ & Hdl & _). rewrite Hstep in Hdl. discriminate.
  Qed.

  Lemma consume_total : forall side item ls queue m,
    consuming m -> supported matches (pattern_of m) -> queue_ok_src m queue ->
    (forall a, In a queue -> In a (keys (arts side item))) ->
    exists q', apply_rule matches side item ls queue m = Ok q'.
  Proof.
    intros side item ls queue m Hcons Hsup Hqok Hsub.
    destruct (consumed_set side item ls queue m Hcons Hsup Hqok Hsub) as (c & Hc & _).
    exists (set_diff queue c). assumption.
  Qed.

  Lemma consume_exact : forall side item ls queue m q',
    consuming m -> supported matches (pattern_of m) -> queue_ok_src m queue ->
    (forall a, In a queue -> In a (keys (arts side item))) ->
    apply_rule matches side item ls queue m = Ok q' ->
    forall a, In a q' <-> In a queue /\ ~ consumes matches side item ls m a.
  Proof.
    intros side item ls queue m q' Hcons Hsup Hqok Hsub Hq' a.
    destruct (consumed_set side item ls queue m Hcons Hsup Hqok Hsub) as (c & Hc & Hin).
    rewrite Hc in Hq'. injection Hq' as Hq'. subst q'.
    rewrite set_diff_In. split.
    - intros [Ha Hn]. split; [assumption|]. intro Hx. apply Hn. apply Hin; assumption.
    - intros [Ha Hn]. split; [assumption|]. intro Hx. apply Hn. apply Hin; assumption.
  Qed.

  (** * DISALLOW / REQUIRE *)

  Lemma disallow_spec : forall side item ls queue p, supported matches p ->
    (apply_rule matches side item ls queue (Generic Disallow p) = Err ERule
       <-> exists a, In a queue /\ M matches p a) /\
    (apply_rule matches side item ls queue (Generic Disallow p) = Ok queue
       <-> forall a, In a queue -> matches p a = Some false).
  Proof.
    intros side item ls queue p Hsup. simpl. unfold disallow_rule.
    destruct (fnfilter_supported queue p Hsup) as (f & Hf & Hin).
    rewrite Hf. simpl. destruct f as [|x f]; simpl.
    - split; split.
      + discriminate.
      + intros (a & Ha & HM). exfalso. apply (Hin a). split; assumption.
      + intros _ a Ha. destruct (matches p a) as [[|]|] eqn:E.
        * exfalso. apply (Hin a). split; assumption.
        * reflexivity.
        * exfalso. exact (Hsup a E).
      + reflexivity.
    - assert (Hx : In x queue /\ matches p x = Some true).
      { apply Hin. left. reflexivity. }
      destruct Hx as [Hxq HxM]. split; split.
      + intros _. exists x. split; assumption.
      + reflexivity.
      + discriminate.
      + intro Hall. rewrite (Hall x Hxq) in HxM. discriminate.
  Qed.

  Lemma require_spec : forall side item ls queue f,
    (apply_rule matches side item ls queue (Generic Require f) = Ok queue <-> In f queue) /\
    (apply_rule matches side item ls queue (Generic Require f) = Err ERule <-> ~ In f queue).
  Proof.
    intros side item ls queue f. simpl. unfold require_rule.
    destruct (mem_str f queue) eqn:E; simpl.
    - apply mem_str_In in E. split; split.
      + intros _. assumption.
      + reflexivity.
      + discriminate.
      + intro Hn. contradiction.
    - apply mem_str_false in E. split; split.
      + discriminate.
      + intro Hn. contradiction.
      + intros _. assumption.
      + reflexivity.
  Qed.

  (** * Whole rule lists *)

  Definition paths_ok (side : dkind) (item : link) (queue : list str) : Prop :=
    forall a, In a queue ->
      In a (keys (arts side item)) /\ no_bs a /\ ~ (exists x y, a = x ++ 47%N :: 47%N :: y).

  Lemma paths_ok_queue_ok_src : forall side item queue m, paths_ok side item queue -> queue_ok_src m queue.
  Proof.
    intros side item queue m Hg. destruct m as [k p | p sp d dp step]; [exact I|].
    destruct sp as [|s0 sp]; [exact I|].
    unfold queue_ok_src. intros a Ha. destruct (Hg a Ha) as (_ & Hbs & Hdd).
    split; [assumption|]. intros [r Hr].
    destruct (norm_prefix_ends (s0 :: sp)) as [x Hx]; [discriminate|].
    apply Hdd. exists x, r. rewrite Hr, Hx, <- app_assoc. reflexivity.
  Qed.

  Lemma meaning_kind : forall m,
    consuming m \/ (exists p, m = Generic Disallow p) \/ (exists f, m = Generic Require f).
  Proof.
    intros [k p | p sp d dp step]; [destruct k|]; simpl; eauto.
  Qed.

  Lemma filter_gen : forall side item ls (rules : list json) (ms : list meaning),
    Forall2 (fun j m => unpack_rule j = Ok m) rules ms ->
    Forall (fun m => supported matches (pattern_of m)) ms ->
    forall queue, paths_ok side item queue ->
    exists v, res_verdict (run_rules matches side item ls queue rules) = Some v /\
              steps matches side item ls ms queue v.
  Proof.
    intros side item ls rules ms HF2. induction HF2 as [|j m rules ms Hj HF2 IH]; intros Hsup queue Hg.
    - exists (Pass queue). split; [reflexivity | constructor].
    - inversion Hsup as [|m0 ms0 Hsm Hsms]; subst m0 ms0.
      specialize (IH Hsms). simpl. rewrite Hj. simpl.
      destruct (meaning_kind m) as [Hcons | [[p Hm] | [f Hm]]].
      + assert (Hqok : queue_ok_src m queue) by (apply (paths_ok_queue_ok_src side item); assumption).
        assert (Hsub : forall a, In a queue -> In a (keys (arts side item))).
        { intros a Ha. destruct (Hg a Ha) as [Hk _]. assumption. }
        destruct (consume_total side item ls queue m Hcons Hsm Hqok Hsub) as [q' Hq'].
        pose proof (consume_exact side item ls queue m q' Hcons Hsm Hqok Hsub Hq') as Hex.
        rewrite Hq'. simpl.
        destruct (IH q') as (v & Hv & Hst).
        { intros a Ha. apply Hg. apply Hex in Ha. destruct Ha as [Ha _]. assumption. }
        exists v. split; [assumption|].
        apply S_consume with q'; assumption.
      + subst m. simpl in Hsm. simpl. unfold disallow_rule.
        destruct (fnfilter_supported queue p Hsm) as (f & Hf & Hin).
        rewrite Hf. simpl. destruct f as [|x f]; simpl.
        * destruct (IH queue Hg) as (v & Hv & Hst). exists v. split; [assumption|].
          apply S_disallow; [|assumption].
          intros a Ha. destruct (matches p a) as [[|]|] eqn:E.
          -- exfalso. apply (Hin a). split; assumption.
          -- reflexivity.
          -- exfalso. exact (Hsm a E).
        * exists Fail. split; [reflexivity|].
          assert (Hx : In x queue /\ matches p x = Some true).
          { apply Hin. left. reflexivity. }
          destruct Hx as [Hxq HxM].
          apply S_disallow_fail with x; assumption.
      + subst m. simpl. unfold require_rule.
        destruct (mem_str f queue) eqn:E; simpl.
        * apply mem_str_In in E. destruct (IH queue Hg) as (v & Hv & Hst).
          exists v. split; [assumption|]. apply S_require; assumption.
        * apply mem_str_false in E. exists Fail. split; [reflexivity|].
          apply S_require_fail. assumption.
  Qed.

  Lemma filter_spec : forall side item ls (rules : list json) (ms : list meaning) queue r,
    Forall2 (fun j m => unpack_rule j = Ok m) rules ms ->
    Forall (fun m => supported matches (pattern_of m)) ms ->
    (forall a, In a queue -> In a (keys (arts side item)) /\ no_bs a /\
                             ~ (exists x y, a = x ++ 47%N :: 47%N :: y)) ->
    run_rules matches side item ls queue rules = r ->
    exists v, res_verdict r = Some v /\ steps matches side item ls ms queue v.
  Proof.
    intros side item ls rules ms queue r HF2 Hsup Hg Hr. subst r.
    apply filter_gen; assumption.
  Qed.

  (** * Determinism of the declarative filter *)

  Lemma steps_det_gen : forall side item ls ms q1 v1,
    steps matches side item ls ms q1 v1 ->
    forall q2 v2, same_set q1 q2 -> steps matches side item ls ms q2 v2 -> verdict_equiv v1 v2.
  Proof.
    intros side item ls ms q1 v1 H1.
    induction H1 as [ q
                    | p q ms v Hall Hst IH
                    | p q ms a Ha HM
                    | f q ms v Hf Hst IH
                    | f q ms Hf
                    | m q q' ms v Hcons Hq' Hst IH ];
      intros q2 v2 Hs H2.
    - inversion H2; subst. simpl. assumption.
    - inversion H2 as [ | p0 q0 ms0 v0 Hall2 Hst2 | p0 q0 ms0 a2 Ha2 HM2 | | |
                        m0 q0 q0' ms0 v0 Hcons2 Hq2' Hst2 ]; subst.
      + apply (IH q2 v2 Hs Hst2).
      + exfalso. apply Hs in Ha2. unfold M in HM2. rewrite (Hall a2 Ha2) in HM2. discriminate.
      + simpl in Hcons2. contradiction.
    - inversion H2 as [ | p0 q0 ms0 v0 Hall2 Hst2 | p0 q0 ms0 a2 Ha2 HM2 | | |
                        m0 q0 q0' ms0 v0 Hcons2 Hq2' Hst2 ]; subst.
      + exfalso. apply Hs in Ha. unfold M in HM. rewrite (Hall2 a Ha) in HM. discriminate.
      + exact I.
      + simpl in Hcons2. contradiction.
    - inversion H2 as [ | | | f0 q0 ms0 v0 Hf2 Hst2 | f0 q0 ms0 Hf2 |
                        m0 q0 q0' ms0 v0 Hcons2 Hq2' Hst2 ]; subst.
      + apply (IH q2 v2 Hs Hst2).
      + exfalso. apply Hf2. apply Hs. assumption.
      + simpl in Hcons2. contradiction.
    - inversion H2 as [ | | | f0 q0 ms0 v0 Hf2 Hst2 | f0 q0 ms0 Hf2 |
                        m0 q0 q0' ms0 v0 Hcons2 Hq2' Hst2 ]; subst.
      + exfalso. apply Hf. apply Hs. assumption.
      + exact I.
      + simpl in Hcons2. contradiction.
    - inversion H2 as [ | p0 q0 ms0 v0 Hall2 Hst2 | p0 q0 ms0 a2 Ha2 HM2
                        | f0 q0 ms0 v0 Hf2 Hst2 | f0 q0 ms0 Hf2 |
                        m0 q0 q0' ms0 v0 Hcons2 Hq2' Hst2 ]; subst;
        try (simpl in Hcons; contradiction).
      apply (IH q0' v2); [|assumption].
      intro x. rewrite Hq', Hq2', (Hs x). tauto.
  Qed.

  Lemma same_set_refl : forall q, same_set q q.
  Proof. intros q x. tauto. Qed.

  Lemma steps_deterministic : forall side item ls ms q v1 v2,
    steps matches side item ls ms q v1 -> steps matches side item ls ms q v2 -> verdict_equiv v1 v2.
  Proof.
    intros side item ls ms q v1 v2 H1 H2.
    apply (steps_det_gen side item ls ms q v1 H1 q v2 (same_set_refl q) H2).
  Qed.

  (** * Independence of storage order *)

  Definition res_equiv (r r' : res (list str)) : Prop :=
    match r, r' with
    | Ok q, Ok q' => same_set q q'
    | Err e, Err e' => e = e'
    | _, _ => False
    end.

  Lemma set_diff_equiv : forall a a' b b', same_set a a' -> same_set b b' ->
    same_set (set_diff a b) (set_diff a' b').
  Proof. intros a a' b b' Ha Hb x. rewrite !set_diff_In, (Ha x), (Hb x). tauto. Qed.

  Lemma set_inter_equiv : forall a a' b b', same_set a a' -> same_set b b' ->
    same_set (set_inter a b) (set_inter a' b').
  Proof. intros a a' b b' Ha Hb x. rewrite !set_inter_In, (Ha x), (Hb x). tauto. Qed.

  Lemma dedup_equiv : forall a a', same_set a a' -> same_set (dedup a) (dedup a').
  Proof. intros a a' Ha x. rewrite !dedup_In. apply Ha. Qed.

  Lemma filter_equiv : forall (f g : str -> bool) a a', (forall x, f x = g x) -> same_set a a' ->
    same_set (filter f a) (filter g a').
  Proof. intros f g a a' Hfg Ha x. rewrite !filter_In, (Ha x), (Hfg x). tauto. Qed.

  Lemma keys_equiv : forall m m' : amap, amap_equiv m m' -> same_set (keys m) (keys m').
  Proof.
    intros m m' Hm x. rewrite !keys_In_lookup. rewrite (Hm x). tauto.
  Qed.

  Lemma filtered_equiv : forall sp q q', same_set q q' -> same_set (filtered sp q) (filtered sp q').
  Proof. intros sp q q' Hq x. rewrite !filtered_In. apply Hq. Qed.

  Lemma fnfilter_equiv : forall p q q', same_set q q' ->
    res_equiv (fnfilter matches q p) (fnfilter matches q' p).
  Proof.
    intros p q q' Hq.
    destruct (fnfilter_cases q p) as [(f & Hf & Hall & Hin) | (Hf & a & Ha & Hnone)];
      destruct (fnfilter_cases q' p) as [(f' & Hf' & Hall' & Hin') | (Hf' & a' & Ha' & Hnone')];
      rewrite Hf, Hf'; simpl.
    - intro x. rewrite Hin, Hin', (Hq x). tauto.
    - apply Hq in Ha'. exact (Hall a' Ha' Hnone').
    - apply Hq in Ha. exact (Hall' a Ha Hnone).
    - reflexivity.
  Qed.

  Lemma match_go_equiv : forall sp dp src src' dest dest' l l',
    amap_equiv src src' -> amap_equiv dest dest' -> same_set l l' ->
    res_equiv (match_go sp dp src dest l) (match_go sp dp src' dest' l').
  Proof.
    intros sp dp src src' dest dest' l l' Hsrc Hdest Hl.
    destruct (match_go_cases sp dp src dest l) as [(c & Hc & Hall & Hin) | (Hc & r & Hr & Hnone)];
      destruct (match_go_cases sp dp src' dest' l') as [(c' & Hc' & Hall' & Hin') | (Hc' & r' & Hr' & Hnone')];
      rewrite Hc, Hc'; simpl.
    - intro x. rewrite Hin, Hin'. unfold go_hit. split.
      + intros (r & hs & hd & Hr & Hx & Hs & Hd & Heq). exists r, hs, hd.
        rewrite <- (Hsrc x), <- (Hdest (full_path dp r)). apply Hl in Hr. repeat split; assumption.
      + intros (r & hs & hd & Hr & Hx & Hs & Hd & Heq). exists r, hs, hd.
        rewrite (Hsrc x), (Hdest (full_path dp r)). apply Hl in Hr. repeat split; assumption.
    - apply Hl in Hr'. rewrite <- (Hsrc (full_path sp r')) in Hnone'. exact (Hall r' Hr' Hnone').
    - apply Hl in Hr. rewrite (Hsrc (full_path sp r)) in Hnone. exact (Hall' r Hr Hnone).
    - reflexivity.
  Qed.

  Lemma arts_equiv : forall d l l', link_equiv l l' -> amap_equiv (arts d l) (arts d l').
  Proof. intros d l l' [Hm Hp]. destruct d; simpl; assumption. Qed.

  Lemma match_rule_equiv : forall pat sp d dp step q q' src src' ls ls',
    links_equiv ls ls' -> amap_equiv src src' -> same_set q q' ->
    res_equiv (match_rule matches pat sp d dp step q src ls)
              (match_rule matches pat sp d dp step q' src' ls').
  Proof.
    intros pat sp d dp step q q' src src' ls ls' Hls Hsrc Hq.
    rewrite !match_rule_unfold. specialize (Hls step).
    destruct (lookup step ls) as [dl|]; destruct (lookup step ls') as [dl'|]; try contradiction.
    - pose proof (fnfilter_equiv pat _ _ (filtered_equiv sp q q' Hq)) as Hf.
      destruct (fnfilter matches (filtered sp q) pat) as [g|e];
        destruct (fnfilter matches (filtered sp q') pat) as [g'|e']; simpl in Hf; try contradiction.
      + simpl. apply match_go_equiv; [assumption | apply arts_equiv; assumption | assumption].
      + simpl. assumption.
    - simpl. intro x. tauto.
  Qed.

  Lemma diff_bind_equiv : forall q q' (r r' : res (list str)), same_set q q' -> res_equiv r r' ->
    res_equiv (do c <- r; Ok (set_diff q c)) (do c <- r'; Ok (set_diff q' c)).
  Proof.
    intros q q' r r' Hq Hr. destruct r as [c|e]; destruct r' as [c'|e']; simpl in *; try contradiction.
    - apply set_diff_equiv; assumption.
    - assumption.
  Qed.

  Lemma fn_bind_equiv : forall p q q' (k k' : list str -> list str), same_set q q' ->
    (forall f f', same_set f f' -> same_set (k f) (k' f')) ->
    res_equiv (do f <- fnfilter matches q p; Ok (k f)) (do f <- fnfilter matches q' p; Ok (k' f)).
  Proof.
    intros p q q' k k' Hq Hk. pose proof (fnfilter_equiv p q q' Hq) as Hf.
    destruct (fnfilter matches q p) as [f|e]; destruct (fnfilter matches q' p) as [f'|e'];
      simpl in *; try contradiction.
    - apply Hk. assumption.
    - assumption.
  Qed.

  Lemma apply_rule_equiv : forall side item item' ls ls' q q' m,
    link_equiv item item' -> links_equiv ls ls' -> same_set q q' ->
    res_equiv (apply_rule matches side item ls q m) (apply_rule matches side item' ls' q' m).
  Proof.
    intros side item item' ls ls' q q' m Hitem Hls Hq.
    pose proof Hitem as [Hmats Hprods].
    destruct m as [k p | p sp d dp step].
    - destruct k; unfold apply_rule.
      + (* Create *)
        apply diff_bind_equiv; [assumption|]. unfold create_rule.
        apply fn_bind_equiv; [assumption|]. intros f f' Hf.
        apply set_inter_equiv; [apply dedup_equiv; assumption|].
        apply set_diff_equiv; apply keys_equiv; assumption.
      + (* Modify *)
        apply diff_bind_equiv; [assumption|]. unfold modify_rule.
        apply fn_bind_equiv; [assumption|]. intros f f' Hf.
        apply filter_equiv; [|apply dedup_equiv; assumption].
        intro x. rewrite (Hmats x), (Hprods x). reflexivity.
      + (* Delete *)
        apply diff_bind_equiv; [assumption|]. unfold delete_rule.
        apply fn_bind_equiv; [assumption|]. intros f f' Hf.
        apply set_inter_equiv; [apply dedup_equiv; assumption|].
        apply set_diff_equiv; apply keys_equiv; assumption.
      + (* Allow *)
        apply diff_bind_equiv; [assumption|]. unfold allow_rule.
        apply fn_bind_equiv; [assumption|]. intros f f' Hf.
        apply dedup_equiv; assumption.
      + (* Disallow *)
        unfold disallow_rule. pose proof (fnfilter_equiv p q q' Hq) as Hf.
        destruct (fnfilter matches q p) as [f|e]; destruct (fnfilter matches q' p) as [f'|e'];
          simpl in Hf; try contradiction.
        * destruct f as [|x f]; destruct f' as [|x' f']; simpl.
          -- assumption.
          -- destruct (proj2 (Hf x') (or_introl eq_refl)).
          -- destruct (proj1 (Hf x) (or_introl eq_refl)).
          -- reflexivity.
        * simpl. assumption.
      + (* Require *)
        unfold require_rule.
        destruct (mem_str p q) eqn:E; destruct (mem_str p q') eqn:E'; simpl.
        * assumption.
        * apply mem_str_In in E. apply mem_str_false in E'. apply E'. apply Hq. assumption.
        * apply mem_str_In in E'. apply mem_str_false in E. apply E. apply Hq. assumption.
        * reflexivity.
    - unfold apply_rule. apply diff_bind_equiv; [assumption|].
      apply match_rule_equiv; [assumption | apply arts_equiv; assumption | assumption].
  Qed.

  Lemma order_independent : forall side item item' ls ls' rules queue queue',
    link_equiv item item' -> links_equiv ls ls' -> same_set queue queue' ->
    match run_rules matches side item ls queue rules, run_rules matches side item' ls' queue' rules with
    | Ok q, Ok q' => same_set q q'
    | Err e, Err e' => e = e'
    | _, _ => False
    end.
  Proof.
    intros side item item' ls ls' rules. induction rules as [|j rules IH];
      intros queue queue' Hitem Hls Hq.
    - simpl. assumption.
    - simpl. destruct (unpack_rule j) as [m|e]; simpl; [|reflexivity].
      pose proof (apply_rule_equiv side item item' ls ls' queue queue' m Hitem Hls Hq) as Ha.
      destruct (apply_rule matches side item ls queue m) as [q1|e1];
        destruct (apply_rule matches side item' ls' queue' m) as [q1'|e1'];
        simpl in Ha; try contradiction; simpl.
      + apply IH; assumption.
      + assumption.
  Qed.

  (** * verify_all_item_rules *)

  Lemma both_lists : forall items ls,
    verify_all_item_rules matches items ls = Ok tt <->
    Forall (fun it => let '(name, em, ep) := it in
              (exists q, verify_item_rules matches name Materials em ls = Ok q) /\
              (exists q, verify_item_rules matches name Products ep ls = Ok q)) items.
  Proof.
    intros items ls. induction items as [|[[name em] ep] items IH].
    - simpl. split; [intros _; constructor | reflexivity].
    - rewrite Forall_cons_iff. simpl.
      destruct (verify_item_rules matches name Materials em ls) as [q1|e1]; simpl.
      + destruct (verify_item_rules matches name Products ep ls) as [q2|e2]; simpl.
        * rewrite IH. split.
          -- intro H. split; [split; [exists q1 | exists q2]; reflexivity | assumption].
          -- intros [_ H]. assumption.
        * split; [discriminate|]. intros [[_ [q Hq]] _]. discriminate.
      + split; [discriminate|]. intros [[[q Hq] _] _]. discriminate.
  Qed.
End Proofs.

(** * Glob facts *)

Lemma star_matches_all : forall a, glob_match [42%N] a = Some true.
Proof.
  intro a. change (Some (gm [TStar] a) = Some true). f_equal.
  induction a as [|x a IH]; [reflexivity|]. simpl. simpl in IH. exact IH.
Qed.
