(** Utf8Decode.v — the strict decoder of Model/Streams.v is exactly the inverse of the encoder of Model/Utf8.v:
    [utf8_decode bs = Some s]  iff  [s] consists of scalar values and [utf8 s = bs]. *)
From Coq Require Import List NArith Bool Lia ZifyBool ZifyN.
From InToto.Model Require Import Base Utf8 Streams.
From InToto.Proofs Require Import StreamsProofs.
Import ListNotations.
Local Open Scope N_scope.
Local Ltac Zify.zify_post_hook ::= Z.div_mod_to_equations.

(** what the held bytes of a running decoder look like *)
Definition pend_inv (p : bytes) : Prop :=
  match p with
  | [] => True
  | [l] => 194 <= l <= 244
  | [l; b1] => 224 <= l <= 244 /\ 128 <= b1 <= 191 /\ (l = 224 -> 160 <= b1) /\
               (l = 240 -> 144 <= b1) /\ (l = 244 -> b1 < 144)
  | [l; b1; b2] => 240 <= l <= 244 /\ 128 <= b1 <= 191 /\ (l = 240 -> 144 <= b1) /\ (l = 244 -> b1 < 144) /\
                   128 <= b2 <= 191
  | _ => False
  end.

Ltac split_if H :=
  repeat match type of H with
  | (if ?c then _ else _) = _ => let E := fresh "E" in destruct c eqn:E; try discriminate H
  end.

Lemma step_hold : forall p b, pend_inv p -> u8_step p b = Some (p ++ [b], []) -> pend_inv (p ++ [b]).
Proof.
  intros p b I H. unfold u8_step, is_cont in H.
  destruct p as [|l [|b1 [|b2 [|b3 p]]]]; cbn [pend_inv app] in *; try contradiction.
  - split_if H; inversion H; subst; lia.
  - split_if H; inversion H; subst; lia.
  - split_if H; inversion H; subst; lia.
  - split_if H; inversion H.
Qed.

Lemma step_emit : forall p b c, pend_inv p -> u8_step p b = Some ([], [c]) ->
  utf8_char c = p ++ [b] /\ scalar c = true.
Proof.
  intros p b c I H. unfold u8_step, is_cont in H.
  destruct p as [|l [|b1 [|b2 [|b3 p]]]]; cbn [pend_inv app] in *; try contradiction.
  - split_if H; inversion H; subst c. unfold utf8_char, scalar.
    assert (b <? 128 = true) as -> by lia. split; [reflexivity | lia].
  - split_if H; inversion H; subst c. unfold utf8_char, scalar.
    set (c := (l - 192) * 64 + (b - 128)).
    assert (c <? 128 = false) as -> by (subst c; lia).
    assert (c <? 2048 = true) as -> by (subst c; lia).
    split; [|subst c; lia].
    f_equal; [subst c; lia|]. f_equal. subst c; lia.
  - split_if H; inversion H; subst c. unfold utf8_char, scalar.
    set (c := (l - 224) * 4096 + (b1 - 128) * 64 + (b - 128)).
    assert (c <? 128 = false) as -> by (subst c; lia).
    assert (c <? 2048 = false) as -> by (subst c; lia).
    assert (c <? 65536 = true) as -> by (subst c; lia).
    split; [|subst c; lia].
    f_equal; [subst c; lia|]. f_equal; [subst c; lia|]. f_equal. subst c; lia.
  - split_if H; inversion H; subst c. unfold utf8_char, scalar.
    set (c := (l - 240) * 262144 + (b1 - 128) * 4096 + (b2 - 128) * 64 + (b - 128)).
    assert (c <? 128 = false) as -> by (subst c; lia).
    assert (c <? 2048 = false) as -> by (subst c; lia).
    assert (c <? 65536 = false) as -> by (subst c; lia).
    split; [|subst c; lia].
    f_equal; [subst c; lia|]. f_equal; [subst c; lia|]. f_equal; [subst c; lia|]. f_equal. subst c; lia.
Qed.

Lemma utf8_app : forall a b, utf8 (a ++ b) = utf8 a ++ utf8 b.
Proof. intros a b. unfold utf8. apply flat_map_app. Qed.

Lemma feed_sound : forall bs p t, u8_feed [] bs = Some (p, t) ->
  bs = utf8 t ++ p /\ encodable t = true /\ pend_inv p.
Proof.
  induction bs as [|b bs IH] using rev_ind; intros p t H.
  - cbn in H. inversion H; subst. repeat split.
  - rewrite u8_feed_app in H.
    destruct (u8_feed [] bs) as [[p0 t0]|] eqn:F; [|discriminate].
    cbn [u8_feed] in H. destruct (u8_step p0 b) as [[p1 e]|] eqn:S; [|discriminate].
    inversion H; subst p t. clear H. rewrite app_nil_r.
    destruct (IH p0 t0 eq_refl) as (I1 & I2 & I3).
    destruct (u8_step_shape _ _ _ _ S) as [[-> [c ->]]|[-> ->]].
    + destruct (step_emit _ _ _ I3 S) as [C1 C2].
      rewrite utf8_app, app_nil_r. cbn [utf8 flat_map]. rewrite app_nil_r, C1, app_assoc, <- I1.
      split; [reflexivity|]. split; [|exact I].
      unfold encodable. rewrite forallb_app. cbn [forallb]. unfold encodable in I2. rewrite I2, C2. reflexivity.
    + rewrite app_nil_r. split; [rewrite app_assoc, <- I1; reflexivity|]. split; [exact I2|].
      apply step_hold; assumption.
Qed.

Ltac stp := cbn [u8_feed u8_step]; unfold is_cont.

Lemma feed_char : forall c, scalar c = true -> u8_feed [] (utf8_char c) = Some ([], [c]).
Proof.
  intros c Hs. unfold scalar in Hs. unfold utf8_char.
  destruct (c <? 128) eqn:E1.
  - cbn [u8_feed u8_step]. rewrite E1. reflexivity.
  - destruct (c <? 2048) eqn:E2.
    + stp.
      assert (192 + c / 64 <? 128 = false) as -> by lia.
      assert ((194 <=? 192 + c / 64) && (192 + c / 64 <=? 244) = true) as -> by lia.
      stp.
      assert (192 + c / 64 <? 224 = true) as -> by lia.
      assert ((128 <=? 128 + c mod 64) && (128 + c mod 64 <=? 191) = true) as -> by lia.
      stp. cbn [app]. do 3 f_equal. lia.
    + destruct (c <? 65536) eqn:E3.
      * set (l := 224 + c / 4096). set (b1 := 128 + (c / 64) mod 64). set (b2 := 128 + c mod 64).
        stp.
        assert (l <? 128 = false) as -> by (subst l; lia).
        assert ((194 <=? l) && (l <=? 244) = true) as -> by (subst l; lia).
        stp.
        assert (l <? 224 = false) as -> by (subst l; lia).
        assert (l <? 240 = true) as -> by (subst l; lia).
        assert ((128 <=? b1) && (b1 <=? 191) && negb ((l =? 224) && (b1 <? 160)) = true) as -> by (subst l b1; lia).
        stp.
        assert (l <? 240 = true) as -> by (subst l; lia).
        assert ((128 <=? b2) && (b2 <=? 191) && negb ((l =? 237) && (160 <=? b1)) = true) as -> by (subst l b1 b2; lia).
        stp. cbn [app]. do 3 f_equal. subst l b1 b2. lia.
      * set (l := 240 + c / 262144). set (b1 := 128 + (c / 4096) mod 64).
        set (b2 := 128 + (c / 64) mod 64). set (b3 := 128 + c mod 64).
        stp.
        assert (l <? 128 = false) as -> by (subst l; lia).
        assert ((194 <=? l) && (l <=? 244) = true) as -> by (subst l; lia).
        stp.
        assert (l <? 224 = false) as -> by (subst l; lia).
        assert (l <? 240 = false) as -> by (subst l; lia).
        assert ((128 <=? b1) && (b1 <=? 191) && negb ((l =? 240) && (b1 <? 144)) && negb ((l =? 244) && (144 <=? b1)) = true)
          as -> by (subst l b1; lia).
        stp.
        assert (l <? 240 = false) as -> by (subst l; lia).
        assert ((128 <=? b2) && (b2 <=? 191) = true) as -> by (subst b2; lia).
        stp.
        assert ((128 <=? b3) && (b3 <=? 191) = true) as -> by (subst b3; lia).
        stp. cbn [app]. do 3 f_equal. subst l b1 b2 b3. lia.
Qed.

Lemma feed_complete : forall s, encodable s = true -> u8_feed [] (utf8 s) = Some ([], s).
Proof.
  induction s as [|c s IH]; intro H; [reflexivity|].
  unfold encodable in H. cbn [forallb] in H. apply andb_true_iff in H. destruct H as [H1 H2].
  cbn [utf8 flat_map]. rewrite u8_feed_app, (feed_char c H1).
  change (flat_map utf8_char s) with (utf8 s). rewrite (IH H2). reflexivity.
Qed.

Theorem utf8_decode_iff : forall bs s, utf8_decode bs = Some s <-> (utf8 s = bs /\ encodable s = true).
Proof.
  intros bs s. unfold utf8_decode. split.
  - intro H. destruct (u8_feed [] bs) as [[[|x p] t]|] eqn:F; try discriminate. inversion H; subst t.
    destruct (feed_sound _ _ _ F) as (A & B & _). rewrite app_nil_r in A. auto.
  - intros [<- H]. rewrite (feed_complete s H). reflexivity.
Qed.

(** a byte string that is not the encoding of any string of scalar values is rejected *)
Corollary utf8_decode_none : forall bs, utf8_decode bs = None <-> forall s, encodable s = true -> utf8 s <> bs.
Proof.
  intro bs. split.
  - intros H s Hs E. assert (utf8_decode bs = Some s) as K by (apply utf8_decode_iff; auto). congruence.
  - intro H. destruct (utf8_decode bs) as [s|] eqn:E; [|reflexivity].
    apply utf8_decode_iff in E. destruct E as [E1 E2]. exfalso. exact (H s E2 E1).
Qed.
