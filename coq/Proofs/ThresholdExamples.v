(** ThresholdExamples.v — one small concrete supply chain on which the hypotheses of the
    C02 / C05 / C08 theorems hold, evaluated by the kernel; the witnesses of finding D2b
    (signature of the other key family aborts verification) and the regression witnesses
    for the repaired D2a (sibling subkey) and D8 (replayed link). *)
From Coq Require Import String Ascii.
From InToto.Model Require Import Base Json Strs Utf8 Canon Rule Glob Rules Expiry Subst Meta Verify.
From InToto.Proofs Require Import VerifySpec ThresholdSpec VerifyThreshold VerifyAgreement VerifyIgnored.

Definition s (x : string) : str := List.map (fun a => N.of_nat (nat_of_ascii a)) (list_ascii_of_string x).
Local Open Scope string_scope.

(** oracles of the example: a signature value is valid for a key token iff it begins with the token
    (whatever the message; gpg values are signature|other_headers); base64 / json.loads are not needed
    (traditional format only) *)
Definition x_sig_ok (tok : str) (_ : list N) (v : str) : bool := starts_with tok v.
Definition x_b64 (_ : str) : option (list N) := None.
Definition x_loads (_ : list N) : option json := None.
Definition x_exec (_ : list json) : exec_result := ExCrash.
Definition x_now_s : Z := 1800000000.
Definition x_now_us : Z := 1800000000000000.

Definition sslib_key (kid pub : string) : json :=
  JDict [(S_keyid, JStr (s kid)); (S_keytype, JStr S_ed25519); (S_scheme, JStr S_ed25519);
         (S_keyval, JDict [(S_public, JStr (s pub))])].
Definition gpg_sub (kid : string) (created validity : Z) : json :=
  JDict [(S_keyid, JStr (s kid)); (S_type, JStr S_rsa); (S_method, JStr (s "pgp+rsa-pkcsv1.5"));
         (S_hashes, JList [JStr (s "pgp+SHA2")]); (S_keyval, JDict [(S_public, JDict [])]);
         (S_creation_time, JInt created); (S_validity_period, JInt validity)].
Definition gpg_master (kid : string) (subs : list (str * json)) : json :=
  JDict [(S_keyid, JStr (s kid)); (S_type, JStr S_rsa); (S_method, JStr (s "pgp+rsa-pkcsv1.5"));
         (S_hashes, JList [JStr (s "pgp+SHA2")]); (S_keyval, JDict [(S_public, JDict [])]);
         (S_subkeys, JDict subs)].

Definition kO := sslib_key "00" "0000".
Definition kA := sslib_key "aa" "a1a1".
Definition kB := sslib_key "bb" "b1b1".
Definition kM := gpg_master "cc" [(s "c1", gpg_sub "c1" 0 0); (s "c2", gpg_sub "c2" 0 0)].
Definition kX := gpg_master "ee" [].      (* no subkeys; used with an expiry below *)
Definition kXexp : json :=
  JDict [(S_keyid, JStr (s "ee")); (S_type, JStr S_rsa); (S_method, JStr (s "pgp+rsa-pkcsv1.5"));
         (S_hashes, JList [JStr (s "pgp+SHA2")]); (S_keyval, JDict [(S_public, JDict [])]);
         (S_creation_time, JInt 1000); (S_validity_period, JInt 1000)].

Definition sslib_sig (kid v : string) : json := JDict [(S_keyid, JStr (s kid)); (S_sig, JStr (s v))].
Definition gpg_sig (kid v : string) : json :=
  JDict [(S_keyid, JStr (s kid)); (S_other_headers, JStr (s "04")); (S_signature, JStr (s v))].

Definition hashrec (d : string) : json := JDict [(s "sha256", JStr (s d))].

(** a link file as json.load returns it *)
Definition link_file (name : string) (mats prods : list (str * json)) (sigs : list json) : file :=
  FJson (JDict [(S_signed, JDict [(S__type, JStr S_link); (S_name, JStr (s name));
                                  (S_materials, JDict mats); (S_products, JDict prods);
                                  (S_byproducts, JDict []); (S_command, JList []); (S_environment, JDict [])]);
                (S_signatures, JList sigs)]).

Definition mk_step (name : string) (pubkeys : list string) (thr : Z) : step :=
  mkStep (s name) [] [] (List.map s pubkeys) [] (JInt thr).
Definition mk_layout (steps : list step) (keys : list (str * json)) : layout :=
  mkLayout steps [] keys (s "2030-01-01T00:00:00Z") 1893456000000000 [].
Definition root (l : layout) : args :=
  mkArgs (Metablock [sslib_sig "00" "0000"] (PLayout l)) (JDict [(s "00", kO)]) None (JStr []).

Definition run (files : list (str * file)) (l : layout) : result :=
  verify_body x_b64 x_loads x_sig_ok x_now_s x_now_us x_exec files [] (fun _ => (Err EUnmodelled, [])) (root l).
Definition verdict (r : result) : option err := match fst r with Ok _ => None | Err e => Some e end.

Definition P1 := [(s "out", hashrec "ab")].
Definition P2 := [(s "out", hashrec "cd")].

(** two sslib functionaries, threshold 2 *)
Definition L2 := mk_layout [mk_step "s1" ["aa"; "bb"] 2] [(s "aa", kA); (s "bb", kB)].
Definition fA := (s "s1.aa.link", link_file "s1" [] P1 [sslib_sig "aa" "a1a1"]).
Definition fB := (s "s1.bb.link", link_file "s1" [] P1 [sslib_sig "bb" "b1b1"]).
Definition fB_dissent := (s "s1.bb.link", link_file "s1" [] P2 [sslib_sig "bb" "b1b1"]).
Definition fB_badsig := (s "s1.bb.link", link_file "s1" [] P2 [sslib_sig "bb" "beef"]).
Definition fB_replayed := (s "s1.bb.link", link_file "s2" [] P1 [sslib_sig "bb" "b1b1"]).
Definition fB_gpgsig := (s "s1.bb.link", link_file "s1" [] P2 [gpg_sig "bb" "beef"]).

Example ex_accept2 : verdict (run [fA; fB] L2) = None.
Proof. vm_compute. reflexivity. Qed.
Example ex_accept2_products : option_map l_products (match fst (run [fA; fB] L2) with Ok x => Some x | _ => None end) = Some P1.
Proof. vm_compute. reflexivity. Qed.
Example ex_one_missing : verdict (run [fA] L2) = Some ELinkNotFound.
Proof. vm_compute. reflexivity. Qed.
Example ex_badsig_not_counted : verdict (run [fA; fB_badsig] L2) = Some EThreshold.
Proof. vm_compute. reflexivity. Qed.
(** C08 / D8 regression: a validly signed link recorded for another step does not count *)
Example ex_replayed_not_counted : verdict (run [fA; fB_replayed] L2) = Some EThreshold.
Proof. vm_compute. reflexivity. Qed.
(** C05: two valid links that differ in one product hash *)
Example ex_dissent_rejected : verdict (run [fA; fB_dissent] L2) = Some EThreshold.
Proof. vm_compute. reflexivity. Qed.
Example ex_dissent_first_rejected : verdict (run [fB_dissent; fA] L2) = Some EThreshold.
Proof. vm_compute. reflexivity. Qed.

(** threshold 1: the representative is the first verified link in load order (order of pubkeys),
    a differing second one is not compared, an invalid first one is skipped *)
Definition L1 := mk_layout [mk_step "s1" ["aa"; "bb"] 1] [(s "aa", kA); (s "bb", kB)].
Definition products_of (r : result) : option amap := match fst r with Ok x => Some (l_products x) | _ => None end.
Example ex_thr1_first : products_of (run [fB_dissent; fA] L1) = Some P1.
Proof. vm_compute. reflexivity. Qed.
Definition fA_badsig := (s "s1.aa.link", link_file "s1" [] P1 [sslib_sig "aa" "beef"]).
Example ex_thr1_invalid_first_skipped : products_of (run [fA_badsig; fB_dissent] L1) = Some P2.
Proof. vm_compute. reflexivity. Qed.

(** the bad-but-well-formed guard of C02_ignored is satisfiable: an invalidly signed, differing link *)
Definition md_of (f : str * file) : res metadata :=
  match snd f with FJson j => from_dict x_b64 x_loads j | FMalformed => Err EValueError end.
Example ex_bad_file_guard :
  match md_of fB_badsig with
  | Ok md => bad_file_b x_sig_ok x_now_s L1 (fst fB_badsig) md
  | Err _ => false
  end = true.
Proof. vm_compute. reflexivity. Qed.
Example ex_bad_file_ignored : run [fA; fB_badsig] L1 = run [fA] L1 /\ verdict (run [fA] L1) = None.
Proof. vm_compute. split; reflexivity. Qed.
(** ... and the only visible effect of such a file: the preliminary count *)
Example ex_bad_file_count : verdict (run [fA] L2) = Some ELinkNotFound /\ verdict (run [fA; fB_badsig] L2) = Some EThreshold.
Proof. vm_compute. split; reflexivity. Qed.

(** finding D2b: the same position, but the signature is of the other key family *)
Example ex_gpgsig_not_bad_file :
  match md_of fB_gpgsig with
  | Ok md => bad_file_b x_sig_ok x_now_s L1 (fst fB_gpgsig) md
  | Err _ => true
  end = false.
Proof. vm_compute. reflexivity. Qed.
Example ex_family_mismatch_aborts : verdict (run [fA] L1) = None /\ run [fA; fB_gpgsig] L1 = (Err EFormat, []).
Proof. vm_compute. split; reflexivity. Qed.

(** gpg: master cc with signing subkeys c1 c2 *)
Definition LM (thr : Z) := mk_layout [mk_step "s1" ["cc"] thr] [(s "cc", kM)].
Definition fM_c1 := (s "s1.c1.link", link_file "s1" [] P1 [gpg_sig "c1" "c1"]).
Definition fM_c2 := (s "s1.c2.link", link_file "s1" [] P1 [gpg_sig "c2" "c2"]).
Definition fM_cc := (s "s1.cc.link", link_file "s1" [] P1 [gpg_sig "cc" "cc"]).
(** a subkey of an authorised master counts as the master; several of them count once *)
Example ex_subkeys_count_once :
  verdict (run [fM_c1; fM_c2; fM_cc] (LM 1)) = None /\ verdict (run [fM_c1; fM_c2; fM_cc] (LM 2)) = Some EThreshold.
Proof. vm_compute. split; reflexivity. Qed.

(** D2a regression: only subkey c1 is authorised, the store holds the master: a link under c1's name
    signed by c1 counts; signed by the sibling c2 or by the master it does not *)
Definition LS := mk_layout [mk_step "s1" ["c1"] 1] [(s "cc", kM)].
Definition fS_by_c1 := (s "s1.c1.link", link_file "s1" [] P1 [gpg_sig "c1" "c1"]).
Definition fS_by_c2 := (s "s1.c1.link", link_file "s1" [] P1 [gpg_sig "c2" "c2"]).
Definition fS_by_cc := (s "s1.c1.link", link_file "s1" [] P1 [gpg_sig "cc" "cc"]).
Example ex_subkey_alone :
  verdict (run [fS_by_c1] LS) = None /\ verdict (run [fS_by_c2] LS) = Some EThreshold /\
  verdict (run [fS_by_cc] LS) = Some EThreshold /\ verdict (run [fM_c2] LS) = Some ELinkNotFound.
Proof. vm_compute. repeat split; reflexivity. Qed.

(** an expired gpg key: the link is skipped, not fatal *)
Definition LX := mk_layout [mk_step "s1" ["ee"; "aa"] 1] [(s "ee", kXexp); (s "aa", kA)].
Definition fX := (s "s1.ee.link", link_file "s1" [] P2 [gpg_sig "ee" "ee"]).
Example ex_expired_skipped : products_of (run [fX; fA] LX) = Some P1 /\ verdict (run [fX] LX) = Some EThreshold.
Proof. vm_compute. split; reflexivity. Qed.

(** sslib-format signature presented for a gpg key: the other direction of D2b *)
Definition fM_sslibsig := (s "s1.cc.link", link_file "s1" [] P2 [sslib_sig "cc" "beef"]).
Example ex_family_mismatch_aborts_gpg :
  verdict (run [fM_c1] (LM 1)) = None /\ run [fM_c1; fM_sslibsig] (LM 1) = (Err EValueError, []).
Proof. vm_compute. split; reflexivity. Qed.

(** well-formed artifact maps exist and differ only in storage order *)
Example ex_wf_link : wf_link (mkLink (JStr (s "s1")) [] P1 (JDict []) (JList []) (JDict [])).
Proof.
  split; split; try constructor; try (intros []); try constructor.
  exists [(s "sha256", JStr (s "ab"))]. split; [reflexivity|]. split.
  - constructor; [intros []|constructor].
  - constructor; [eexists; reflexivity|constructor].
Qed.
Example ex_order_insensitive :
  amap_eqb [(s "a", hashrec "01"); (s "b", hashrec "02")] [(s "b", hashrec "02"); (s "a", hashrec "01")] = true.
Proof. vm_compute. reflexivity. Qed.

(* ------------------------------------------------------------------ *)
(** * D2b as a theorem: C02's "being ignored" fails for family-mismatched signatures *)

Theorem family_mismatch_refuted :
  exists b64dec loads sig_ok now_s now_us exec files files' fn j md recs missing a sum tr l,
    file_added fn (FJson j) files files' /\ from_dict b64dec loads j = Ok md /\
    ThresholdSpec.pre_layout sig_ok now_s now_us a = Ok l /\
    (* the added file is invalidly signed: no key of the layout validates any signature on it *)
    (forall kid k sg msg, In (kid, k) (ly_keys l) -> In sg (md_signatures md) ->
       sslib_verify sig_ok sg k msg <> Ok true /\ gpg_verify sig_ok now_s sg k msg <> Ok true) /\
    (* without it: accepted; with it: not ignored, verification aborts *)
    verify_body b64dec loads sig_ok now_s now_us exec files recs missing a = (Ok sum, tr) /\
    verify_body b64dec loads sig_ok now_s now_us exec files' recs missing a = (Err EFormat, []).
Proof.
  exists x_b64, x_loads, x_sig_ok, x_now_s, x_now_us, x_exec, [fA], [fA; fB_gpgsig], (fst fB_gpgsig).
  destruct (md_of fB_gpgsig) as [md|] eqn:E; [|vm_compute in E; discriminate].
  destruct (run [fA] L1) as [[sum|] tr] eqn:ER; [|vm_compute in ER; discriminate].
  eexists _, md, [], (fun _ => (Err EUnmodelled, [])), (root L1), sum, tr, L1.
  split; [|split; [exact E|split; [vm_compute; reflexivity|split; [|split; [exact ER|vm_compute; reflexivity]]]]].
  - split; [vm_compute; reflexivity|]. intro n. cbn [lookup fA fB_gpgsig fst snd].
    destruct (eqs n (s "s1.aa.link")) eqn:E1; destruct (eqs n (s "s1.bb.link")) eqn:E2; try reflexivity.
    apply eqs_eq in E1. apply eqs_eq in E2. subst. vm_compute in E2. discriminate.
  - vm_compute in E. injection E as <-.
    intros kid k sg msg Hk Hs. cbn [md_signatures] in Hs. destruct Hs as [<-|[]].
    cbn [ly_keys L1 mk_layout] in Hk. destruct Hk as [Hk|[Hk|[]]]; injection Hk as <- <-; split; vm_compute; discriminate.
Qed.

(* ------------------------------------------------------------------ *)
(** * regression witness for the repaired D8: the link-signature stage as it was before commit
      5cf545d (no comparison of the signed step name) counted a replayed link *)

Section Legacy.
  Variable sig_ok : str -> list N -> str -> bool.
  Variable now_s : Z.
  Fixpoint verify_step_links_legacy (l : layout) (mk : list (str * json)) (st : step)
           (found : list (str * metadata)) (used : list str) (acc : list (str * metadata))
    : res (list str * list (str * metadata)) :=
    match found with
    | [] => Ok (used, acc)
    | (kid, md) :: found' =>
        match verification_key l mk st kid with
        | None => verify_step_links_legacy l mk st found' used acc
        | Some (Err e) => Err e
        | Some (Ok (vk, mainid)) =>
            match verify_signature sig_ok now_s md vk with
            | Err ESignature | Err EKeyExpired => verify_step_links_legacy l mk st found' used acc
            | Err e => Err e
            | Ok _ =>
                match mainid with
                | JStr mkid => verify_step_links_legacy l mk st found' (used ++ [mkid]) (dict_set kid md acc)
                | _ => Err EUnmodelled
                end
            end
        end
    end.
End Legacy.

Definition loaded (files : list (str * file)) (l : layout) (st : step) : list (str * metadata) :=
  match load_step x_b64 x_loads files l st with Ok f => f | Err _ => [] end.
Definition st1 := mk_step "s1" ["aa"; "bb"] 2.

Theorem legacy_replay_refuted :
  exists used good kid md lk,
    verify_step_links_legacy x_sig_ok x_now_s L2 (main_keys_for_subkeys L2) st1 (loaded [fA; fB_replayed] L2 st1) [] []
      = Ok (used, good) /\
    length (dedup used) = 2 /\ In (kid, md) good /\ get_payload md = Ok (PLink lk) /\
    l_name lk <> JStr (st_name st1) /\
    (* the repaired stage skips it *)
    (exists used', verify_step_links x_sig_ok x_now_s L2 (main_keys_for_subkeys L2) st1 (loaded [fA; fB_replayed] L2 st1) [] []
                   = Ok (used', filter (fun kv => eqs (fst kv) (s "aa")) good) /\ length (dedup used') = 1).
Proof.
  destruct (verify_step_links_legacy x_sig_ok x_now_s L2 (main_keys_for_subkeys L2) st1 (loaded [fA; fB_replayed] L2 st1) [] [])
    as [[used good]|] eqn:E; [|vm_compute in E; discriminate].
  vm_compute in E. injection E as <- <-.
  do 5 eexists. split; [reflexivity|]. split; [vm_compute; reflexivity|].
  split; [right; left; reflexivity|]. split; [vm_compute; reflexivity|]. split; [vm_compute; discriminate|].
  eexists. split; vm_compute; reflexivity.
Qed.

(* ------------------------------------------------------------------ *)
(** * observation (candidate finding, reported): key expiry is checked on the SELECTED (sub)key only.
      An expired master key whose signing subkey carries no expiry of its own: the subkey's link counts. *)
Definition kMexp : json :=
  JDict [(S_keyid, JStr (s "dd")); (S_type, JStr S_rsa); (S_method, JStr (s "pgp+rsa-pkcsv1.5"));
         (S_hashes, JList [JStr (s "pgp+SHA2")]); (S_keyval, JDict [(S_public, JDict [])]);
         (S_creation_time, JInt 1000); (S_validity_period, JInt 1000);
         (S_subkeys, JDict [(s "d1", gpg_sub "d1" 1000 0)])].
Definition LE := mk_layout [mk_step "s1" ["dd"] 1] [(s "dd", kMexp)].
Definition fE_master := (s "s1.dd.link", link_file "s1" [] P1 [gpg_sig "dd" "dd"]).
Definition fE_sub := (s "s1.d1.link", link_file "s1" [] P1 [gpg_sig "d1" "d1"]).
Example ex_expired_master_live_subkey :
  verdict (run [fE_master] LE) = Some EThreshold /\ verdict (run [fE_sub] LE) = None.
Proof. vm_compute. split; reflexivity. Qed.
