(** RecordGuard.v — what a successful verify_signature of the preliminary record implies
    (used for the "edited" / "signed by another key" clauses of C12_guard). *)
From InToto.Model Require Import Base Json Strs Utf8 Canon Glob Rules Meta Record.
From InToto.Proofs Require Import RecordFs.

(** the bytes a signature of this metadata object is made over *)
Definition msg_of (md : metadata) : res (list N) :=
  match md with
  | Metablock _ p => signed_bytes_mb p
  | Envelope pb pt _ _ => Ok (pae (utf8 pt) pb)
  end.
Definition md_sigs (md : metadata) : list json :=
  match md with Metablock s _ => s | Envelope _ _ s _ => s end.

Section WithOracles.
  Variable sig_ok : str -> list N -> str -> bool.
  Variable now_s : Z.

  Lemma gpg_verify_true : forall sig key msg, gpg_verify sig_ok now_s sig key msg = Ok true ->
    exists t s, sig_ok t msg s = true.
  Proof.
    intros sig key msg H. unfold gpg_verify in H.
    destruct (jstr_of (jget S_keyid sig)) as [skid|]; [|discriminate H].
    destruct (jstr_of (jget S_keyid key)) as [mkid|]; [|discriminate H].
    destruct (jstr_of (jget S_signature sig)) as [sval|]; [|discriminate H].
    destruct (negb (gpg_sig_schema_ok sig)); [discriminate H|].
    match type of H with context [sig_ok (fst ?sel) msg ?v] => set (SEL := sel) in *; set (V := v) in * end.
    assert (forall r, (if Nat.even (length (match jget S_other_headers sig with Some (JStr o) => o | _ => [] end))
                       then Ok (sig_ok (fst SEL) msg V) else Err EValueError) = Ok true ->
                      r = tt -> exists t s, sig_ok t msg s = true) as Hchk.
    { intros r Hc _. destruct (Nat.even _); [|discriminate Hc]. inversion Hc. eauto. }
    destruct (jget S_creation_time (snd SEL)) as [[| |c| | | |]|];
      destruct (jget S_validity_period (snd SEL)) as [[| |v| | | |]|];
      try (exact (Hchk tt H eq_refl)).
    destruct ((negb (Z.eqb c 0) && negb (Z.eqb v 0) && Z.ltb (c + v) now_s)%bool); [discriminate H|].
    exact (Hchk tt H eq_refl).
  Qed.

  Lemma sslib_verify_true : forall sig key msg, sslib_verify sig_ok sig key msg = Ok true ->
    exists t s, sig_ok t msg s = true.
  Proof.
    intros sig key msg H. unfold sslib_verify in H.
    destruct (jstr_of (jget S_keyid sig)) as [skid|]; [|discriminate H].
    destruct (jstr_of (jget S_keyid key)) as [kid|]; [|discriminate H].
    destruct (jstr_of (jget S_sig sig)) as [sval|]; [|discriminate H].
    destruct (negb (eqs skid kid)); [discriminate H|].
    destruct (negb (hex_even sval)); [discriminate H|].
    destruct (jget S_keyval key) as [kv|]; [|discriminate H].
    destruct (jstr_of (jget S_public kv)) as [pub|]; [|discriminate H].
    inversion H. eauto.
  Qed.

  (** success needs a cryptographically valid signature over exactly the bytes of THIS content *)
  Lemma verify_ok_sig : forall md key, verify_signature sig_ok now_s md key = Ok tt ->
    exists m t s, msg_of md = Ok m /\ sig_ok t m s = true.
  Proof.
    intros md key H. destruct md as [sigs p|pb pt sigs parsed]; unfold verify_signature in H.
    - inv_bind H. rename x into shape. destruct (jstr_of (jget S_keyid key)) as [kid|]; [|discriminate H].
      match type of H with context [find ?f sigs] => destruct (find f sigs) as [sg|] end.
      + inv_bind H. rename x into msg. exists msg. simpl. 
        destruct (has S_signature sg && has S_other_headers sg).
        * destruct shape; [|discriminate H]. inv_bind H. destruct x; [|discriminate H].
          destruct (gpg_verify_true _ _ _ E1) as (t & s & G). exists t, s. auto.
        * destruct shape; [discriminate H|]. destruct (has S_sig sg); [|discriminate H].
          inv_bind H. destruct x; [|discriminate H].
          destruct (sslib_verify_true _ _ _ E1) as (t & s & G). exists t, s. auto.
      + destruct (forallb _ sigs); discriminate H.
    - destruct (jget S_keyid key) as [[| | | |kid| |]|]; try discriminate H.
      inv_bind H. destruct x; [discriminate H|].
      match type of H with (if ?b then _ else _) = _ => destruct b eqn:EX end; [|discriminate H].
      apply existsb_exists in EX. destruct EX as (s & _ & EX).
      destruct (jstr_of (jget S_keyid s)); [|discriminate EX].
      apply andb_true_iff in EX. destruct EX as [_ EX].
      destruct (sslib_verify sig_ok s key (pae (utf8 pt) pb)) as [[|]|] eqn:SV; try discriminate EX.
      destruct (sslib_verify_true _ _ _ SV) as (t & sv & G). exists (pae (utf8 pt) pb), t, sv. auto.
  Qed.

  (** ... and a signature entry carrying the finishing key's id (or the id of one of its subkeys) *)
  Lemma verify_ok_keyid : forall md key, verify_signature sig_ok now_s md key = Ok tt ->
    exists s k, In s (md_sigs md) /\ jstr_of (jget S_keyid s) = Some k /\
                (jstr_of (jget S_keyid key) = Some k \/ In k (subkey_ids key)).
  Proof.
    intros md key H. destruct md as [sigs p|pb pt sigs parsed]; unfold verify_signature in H.
    - inv_bind H. destruct (jstr_of (jget S_keyid key)) as [kid|]; [|discriminate H].
      match type of H with context [find ?f sigs] => destruct (find f sigs) as [sg|] eqn:F end.
      + apply find_some in F. destruct F as [I F]. destruct (jstr_of (jget S_keyid sg)) as [k|] eqn:K; [|discriminate F].
        exists sg, k. split; [assumption|]. split; [assumption|].
        apply orb_true_iff in F. destruct F as [F|F]; [left; apply eqs_eq in F; subst; reflexivity | right; apply mem_str_In; assumption].
      + destruct (forallb _ sigs); discriminate H.
    - destruct (jget S_keyid key) as [[| | | |kid| |]|] eqn:K; try discriminate H.
      inv_bind H. destruct x; [discriminate H|].
      match type of H with (if ?b then _ else _) = _ => destruct b eqn:EX end; [|discriminate H].
      apply existsb_exists in EX. destruct EX as (s & I & EX).
      destruct (jstr_of (jget S_keyid s)) as [k|] eqn:KS; [|discriminate EX].
      apply andb_true_iff in EX. destruct EX as [EX _]. apply eqs_eq in EX. subst k.
      exists s, kid. simpl. auto.
  Qed.
End WithOracles.
