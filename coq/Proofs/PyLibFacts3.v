(** PyLibFacts3.v — loops of the translated Python fragment over embedded strings, and the
    "forward" reading of verify_match_rule (the loop accumulates from the first path on) with
    its equivalence to the model's [match_rule] (used by Tie/C03.v). *)
From Coq Require Import Lia.
From InToto.Model Require Import Base Json PyLib Glob PyLibGlob Rule Rules.
From InToto.Proofs Require Import PyLibFacts2.

(** * Loops whose state is an embedded list / set of strings *)

Fixpoint fold_res {A S : Type} (step : A -> S -> res S) (l : list A) (st : S) : res S :=
  match l with
  | [] => Ok st
  | x :: l' => do st' <- step x st; fold_res step l' st'
  end.

Lemma py_fold_strs : forall {S : Type} (W : S -> pyval) (body : pyval -> pyval -> res pyval) (step : str -> S -> res S),
  (forall x st, body (VStr x) (W st) = res_map2 W (step x st)) ->
  forall l st, py_fold (map VStr l) (W st) body = res_map2 W (fold_res step l st).
Proof.
  intros S W body step H. induction l as [|x l IH]; intro st; [reflexivity|].
  cbn [map py_fold fold_res]. rewrite H. destruct (step x st) as [st'|e]; [|reflexivity].
  cbn [res_map2 bind]. apply IH.
Qed.

Lemma py_fold_map : forall {A S T : Type} (E : A -> pyval) (W : S -> T) (body : pyval -> T -> res T)
                          (step : A -> S -> res S),
  (forall x st, body (E x) (W st) = res_map2 W (step x st)) ->
  forall l st, py_fold (map E l) (W st) body = res_map2 W (fold_res step l st).
Proof.
  intros A S T E W body step H. induction l as [|x l IH]; intro st; [reflexivity|].
  cbn [map py_fold fold_res]. rewrite H. destruct (step x st) as [st'|e]; [|reflexivity].
  cbn [res_map2 bind]. apply IH.
Qed.

Lemma znat_of_nat : forall n, znat (Z.of_nat n) = n.
Proof.
  intro n. destruct n as [|n]; [reflexivity|].
  cbn [Z.of_nat znat].
  assert (forall p, pos_nat p = Pos.to_nat p) as Hp.
  { induction p as [p IH|p IH|]; cbn [pos_nat]; [rewrite IH, Pos2Nat.inj_xI; lia | rewrite IH, Pos2Nat.inj_xO; lia | reflexivity]. }
  rewrite Hp. apply SuccNat2Pos.id_succ.
Qed.

Lemma py_slice_from_len : forall a p,
  (do t <- py_len (VStr p); py_slice_from (VStr a) t) = Ok (VStr (drop (length p) a)).
Proof.
  intros a p. cbn [py_len bind]. unfold py_slice_from. cbn [as_int].
  assert ((Z.of_nat (length p) <? 0)%Z = false) as -> by (apply Z.ltb_ge; lia).
  rewrite znat_of_nat. reflexivity.
Qed.

Lemma py_path_join_str : forall a b, py_path_join (VStr a) (VStr b) = Ok (VStr (posix_join a b)).
Proof. reflexivity. Qed.

Lemma py_replace_bs : forall s, py_replace1 (VStr s) (VStr [92%N]) (VStr [47%N]) = Ok (VStr (replace_bs s)).
Proof. reflexivity. Qed.

Lemma py_index_amap : forall (m : amap) k,
  py_index (inj_amap m) (VStr k) = match lookup k m with Some v => Ok (inj v) | None => Err EKeyError end.
Proof. intros m k. unfold py_index, inj_amap. rewrite pv_assoc_inj. destruct (lookup k m); reflexivity. Qed.

(** * Links as the translated code sees them: name -> object with the two artifact maps *)
Definition link_pv (l : link) : pyval :=
  VDict [(VStr k_materials, inj_amap (l_materials l)); (VStr k_products, inj_amap (l_products l))].
Definition links_pv (ls : links) : pyval := VDict (map (fun nl => (VStr (fst nl), link_pv (snd nl))) ls).

Lemma pv_assoc_links : forall k (ls : links),
  pv_assoc pv_eqb (VStr k) (map (fun nl => (VStr (fst nl), link_pv (snd nl))) ls) = option_map link_pv (lookup k ls).
Proof.
  induction ls as [|[k' v] ls IH]; cbn; [reflexivity|]. destruct (eqs k k'); [reflexivity | exact IH].
Qed.

Lemma py_get_links : forall ls k,
  py_get (links_pv ls) (VStr k) VNone = Ok (match lookup k ls with Some l => link_pv l | None => VNone end).
Proof. intros ls k. unfold py_get, links_pv. rewrite pv_assoc_links. destruct (lookup k ls); reflexivity. Qed.

Lemma py_index_links : forall ls k,
  py_index (links_pv ls) (VStr k) = match lookup k ls with Some l => Ok (link_pv l) | None => Err EKeyError end.
Proof. intros ls k. unfold py_index, links_pv. rewrite pv_assoc_links. destruct (lookup k ls); reflexivity. Qed.

Lemma py_getattr_link : forall l d, py_getattr (link_pv l) (VStr (dkind_name d)) = Ok (inj_amap (arts d l)).
Proof. intros l d. destruct d; reflexivity. Qed.

(** * verify_match_rule read forwards *)
Definition match_step (sp dp : str) (src dest : amap) (r : str) (acc : list str) : res (list str) :=
  let fs := full_path sp r in
  let fd := full_path dp r in
  match lookup fs src with
  | None => Err EKeyError
  | Some hs =>
      match lookup fd dest with
      | None => Ok acc
      | Some hd => if py_eqb hs hd then Ok (if mem_str fs acc then acc else acc ++ [fs]) else Ok acc
      end
  end.

Definition prefix_step (np : str) (a : str) (acc : list str) : res (list str) :=
  Ok (if starts_with np a then acc ++ [drop (length np) a] else acc).

Definition match_rule_fwd (pat sp : str) (d : dkind) (dp step : str)
           (queue : list str) (src : amap) (ls : links) : res (list str) :=
  match lookup step ls with
  | None => Ok []
  | Some dl =>
      let dest := arts d dl in
      do filtered <- match sp with
                     | [] => Ok queue
                     | _ => fold_res (prefix_step (norm_prefix sp)) queue []
                     end;
      do globbed <- fnfilter glob_match filtered pat;
      fold_res (match_step sp dp src dest) globbed []
  end.

(** same outcome: the same error, or lists with the same elements *)
Definition res_same (a b : res (list str)) : Prop :=
  match a, b with
  | Ok x, Ok y => forall z, In z x <-> In z y
  | Err e, Err e' => e = e'
  | _, _ => False
  end.

Lemma prefix_fold : forall np q acc,
  fold_res (prefix_step np) q acc =
  Ok (acc ++ flat_map (fun a => if starts_with np a then [drop (length np) a] else []) q).
Proof.
  intros np. induction q as [|a q IH]; intro acc; cbn [fold_res flat_map]; [rewrite app_nil_r; reflexivity|].
  unfold prefix_step at 1. cbn [bind]. rewrite IH. destruct (starts_with np a); [rewrite <- app_assoc|]; reflexivity.
Qed.

Section MatchLoop.
  Variables (sp dp : str) (src dest : amap).

  Let go_model :=
    fix go (l : list str) : res (list str) :=
      match l with
      | [] => Ok []
      | r :: l' =>
          let fs := full_path sp r in
          let fd := full_path dp r in
          match lookup fs src with
          | None => Err EKeyError
          | Some hs =>
              do rest <- go l';
              match lookup fd dest with
              | None => Ok rest
              | Some hd => if py_eqb hs hd then Ok (if mem_str fs rest then rest else fs :: rest) else Ok rest
              end
          end
      end.

  (** which paths the loop consumes, independently of the order of accumulation *)
  Definition consumes (r : str) : bool :=
    match lookup (full_path sp r) src, lookup (full_path dp r) dest with
    | Some hs, Some hd => py_eqb hs hd
    | _, _ => false
    end.
  Definition defined (r : str) : bool :=
    match lookup (full_path sp r) src with Some _ => true | None => false end.

  Lemma go_model_spec : forall l,
    match go_model l with
    | Ok x => forallb defined l = true /\ forall z, In z x <-> exists r, In r l /\ consumes r = true /\ z = full_path sp r
    | Err e => e = EKeyError /\ forallb defined l = false
    end.
  Proof.
    induction l as [|r l IH]; cbn [go_model forallb].
    - split; [reflexivity|]. intro z. split; [intros [] | intros [r [[] _]]].
    - assert (defined r = match lookup (full_path sp r) src with Some _ => true | None => false end) as -> by reflexivity.
      unfold consumes. destruct (lookup (full_path sp r) src) as [hs|] eqn:Es; [|split; reflexivity].
      fold go_model. destruct (go_model l) as [rest|e]; cbn [bind andb].
      + destruct IH as [Hd IH].
        destruct (lookup (full_path dp r) dest) as [hd|] eqn:Ed.
        * destruct (py_eqb hs hd) eqn:Eq.
          -- split; [exact Hd|]. intro z.
             assert (In z (if mem_str (full_path sp r) rest then rest else full_path sp r :: rest) <->
                     z = full_path sp r \/ In z rest) as ->.
             { destruct (mem_str (full_path sp r) rest) eqn:Em.
               - apply mem_str_In in Em. split; [intro H; right; exact H | intros [->|H]; assumption].
               - cbn [In]. split; [intros [H|H]; [left; symmetry; exact H | right; exact H]
                                  | intros [H|H]; [left; symmetry; exact H | right; exact H]]. }
             rewrite IH. split.
             ++ intros [->|[r0 [Hin [Hc Hz]]]].
                ** exists r. split; [left; reflexivity|]. rewrite Es, Ed. split; [exact Eq | reflexivity].
                ** exists r0. split; [right; exact Hin | split; assumption].
             ++ intros [r0 [[<-|Hin] [Hc Hz]]]; [left; exact Hz | right; exists r0; split; [exact Hin | split; assumption]].
          -- split; [exact Hd|]. intro z. rewrite IH. split.
             ++ intros [r0 [Hin [Hc Hz]]]. exists r0. split; [right; exact Hin | split; assumption].
             ++ intros [r0 [[<-|Hin] [Hc Hz]]].
                ** rewrite Es, Ed, Eq in Hc. discriminate.
                ** exists r0. split; [exact Hin | split; assumption].
        * split; [exact Hd|]. intro z. rewrite IH. split.
          -- intros [r0 [Hin [Hc Hz]]]. exists r0. split; [right; exact Hin | split; assumption].
          -- intros [r0 [[<-|Hin] [Hc Hz]]].
             ++ rewrite Es, Ed in Hc. discriminate.
             ++ exists r0. split; [exact Hin | split; assumption].
      + destruct IH as [-> Hd]. split; [reflexivity | exact Hd].
  Qed.

  Lemma fwd_spec : forall l acc,
    match fold_res (match_step sp dp src dest) l acc with
    | Ok x => forallb defined l = true /\
              forall z, In z x <-> In z acc \/ exists r, In r l /\ consumes r = true /\ z = full_path sp r
    | Err e => e = EKeyError /\ forallb defined l = false
    end.
  Proof.
    induction l as [|r l IH]; intro acc; cbn [fold_res forallb].
    - split; [reflexivity|]. intro z. split; [intro H; left; exact H | intros [H|[r [[] _]]]; exact H].
    - assert (defined r = match lookup (full_path sp r) src with Some _ => true | None => false end) as -> by reflexivity.
      unfold match_step at 1, consumes.
      destruct (lookup (full_path sp r) src) as [hs|] eqn:Es; [|split; reflexivity].
      cbn [andb].
      assert (forall acc', (forall z, In z acc' <-> In z acc \/ (consumes r = true /\ z = full_path sp r)) ->
              match fold_res (match_step sp dp src dest) l acc' with
              | Ok x => forallb defined l = true /\
                        forall z, In z x <-> In z acc \/ exists r0, (r = r0 \/ In r0 l) /\ consumes r0 = true /\ z = full_path sp r0
              | Err e => e = EKeyError /\ forallb defined l = false
              end) as Hstep.
      { intros acc' Hacc. specialize (IH acc'). destruct (fold_res (match_step sp dp src dest) l acc') as [x|e]; [|exact IH].
        destruct IH as [Hd IH]. split; [exact Hd|]. intro z. rewrite IH, Hacc. split.
        - intros [[H|[Hc Hz]]|[r0 [Hin [Hc Hz]]]].
          + left; exact H.
          + right. exists r. split; [left; reflexivity | split; assumption].
          + right. exists r0. split; [right; exact Hin | split; assumption].
        - intros [H|[r0 [[<-|Hin] [Hc Hz]]]].
          + left; left; exact H.
          + left; right; split; assumption.
          + right. exists r0. split; [exact Hin | split; assumption]. }
      unfold consumes in Hstep. rewrite Es in Hstep.
      destruct (lookup (full_path dp r) dest) as [hd|] eqn:Ed.
      + destruct (py_eqb hs hd) eqn:Eq; cbn [bind].
        * apply Hstep. intro z. destruct (mem_str (full_path sp r) acc) eqn:Em.
          -- apply mem_str_In in Em. split; [intro H; left; exact H | intros [H|[_ ->]]; assumption].
          -- rewrite in_app_iff. cbn [In]. split.
             ++ intros [H|[H|[]]]; [left; exact H | right; split; [reflexivity | symmetry; exact H]].
             ++ intros [H|[_ H]]; [left; exact H | right; left; symmetry; exact H].
        * apply Hstep. intro z. split; [intro H; left; exact H | intros [H|[H _]]; [exact H | discriminate]].
      + cbn [bind]. apply Hstep. intro z. split; [intro H; left; exact H | intros [H|[H _]]; [exact H | discriminate]].
  Qed.

  Lemma fwd_same_model : forall l, res_same (fold_res (match_step sp dp src dest) l []) (go_model l).
  Proof.
    intro l. pose proof (fwd_spec l []) as Hf. pose proof (go_model_spec l) as Hm. unfold res_same.
    destruct (fold_res (match_step sp dp src dest) l []) as [x|e]; destruct (go_model l) as [y|e'].
    - destruct Hf as [_ Hf]. destruct Hm as [_ Hm]. intro z. rewrite Hf, Hm. split; [intros [[]|H]; exact H | intro H; right; exact H].
    - destruct Hf as [Hf _]. destruct Hm as [_ Hm]. congruence.
    - destruct Hf as [_ Hf]. destruct Hm as [Hm _]. congruence.
    - destruct Hf as [-> _]. destruct Hm as [-> _]. reflexivity.
  Qed.
End MatchLoop.

Theorem match_rule_fwd_same : forall pat sp d dp step queue src ls,
  res_same (match_rule_fwd pat sp d dp step queue src ls) (match_rule glob_match pat sp d dp step queue src ls).
Proof.
  intros pat sp d dp step queue src ls. unfold match_rule_fwd, match_rule.
  destruct (lookup step ls) as [dl|]; [|cbn; tauto].
  assert (match sp with
          | [] => Ok queue
          | _ => fold_res (prefix_step (norm_prefix sp)) queue []
          end = Ok (match sp with
                    | [] => queue
                    | _ => flat_map (fun a => if starts_with (norm_prefix sp) a then [drop (length (norm_prefix sp)) a] else []) queue
                    end)) as ->.
  { destruct sp; [reflexivity|]. rewrite prefix_fold. reflexivity. }
  cbn [bind].
  destruct (fnfilter glob_match _ pat) as [globbed|e]; [|cbn; reflexivity].
  cbn [bind]. apply fwd_same_model.
Qed.

Print Assumptions match_rule_fwd_same.
