(** DirDigestProofs.v — proofs for C20 (directory digest construction). *)
From Coq Require Import List NArith Bool Lia Permutation.
From InToto.Model Require Import Base Utf8 DirDigest.
From InToto.Proofs Require Import Utf8Proofs.
Local Open Scope N_scope.

(** * construction *)

Lemma construction : forall H files,
  dir_digest H files = H (utf8 (flat_map (fun f => snd f ++ [32; 32]%N ++ fst f ++ [10]%N) (sort_files files)))
  /\ dir_digest H [] = H [].
Proof. intros H files. split; reflexivity. Qed.

(** * the sort *)

Lemma insert_by_perm : forall x l, Permutation (insert_by x l) (x :: l).
Proof.
  induction l as [|y l IH]; cbn [insert_by].
  - apply Permutation_refl.
  - destruct (lex_leb (fst x) (fst y)).
    + apply Permutation_refl.
    + eapply perm_trans; [apply perm_skip; exact IH | apply perm_swap].
Qed.

Lemma sort_files_perm : forall l, Permutation (sort_files l) l.
Proof.
  induction l as [|x l IH]; cbn [sort_files].
  - apply perm_nil.
  - eapply perm_trans; [apply insert_by_perm | apply perm_skip; exact IH].
Qed.

Fixpoint sorted (l : list (str * str)) : Prop :=
  match l with
  | [] => True
  | x :: l' => match l' with [] => True | y :: _ => lex_leb (fst x) (fst y) = true end /\ sorted l'
  end.

Lemma insert_by_sorted : forall x l, sorted l -> sorted (insert_by x l).
Proof.
  induction l as [|y l IH]; intro S.
  - cbn. auto.
  - cbn [insert_by]. destruct (lex_leb (fst x) (fst y)) eqn:E.
    + cbn [sorted]. split; [exact E|exact S].
    + apply lex_leb_total in E. destruct S as [S1 S2]. specialize (IH S2).
      cbn [sorted]. split; [|exact IH].
      destruct l as [|z l]; cbn [insert_by].
      * exact E.
      * destruct (lex_leb (fst x) (fst z)); [exact E | exact S1].
Qed.

Lemma sort_files_sorted : forall l, sorted (sort_files l).
Proof.
  induction l as [|x l IH]; cbn [sort_files]; [exact I | apply insert_by_sorted; exact IH].
Qed.

Lemma sorted_adjacent : forall pre l a b post, sorted l -> l = pre ++ a :: b :: post ->
  lex_leb (fst a) (fst b) = true.
Proof.
  induction pre as [|p pre IH]; intros l a b post S E; subst l.
  - destruct S as [S _]. exact S.
  - destruct S as [_ S]. eapply IH; [exact S | reflexivity].
Qed.

Lemma sorted_spec : forall files,
  Permutation (sort_files files) files /\
  (forall pre a b post, sort_files files = pre ++ a :: b :: post -> lex_leb (fst a) (fst b) = true).
Proof.
  intro files. split; [apply sort_files_perm|].
  intros pre a b post E. eapply sorted_adjacent; [apply sort_files_sorted | exact E].
Qed.

(** * order independence *)

Lemma insert_by_swap : forall x y l, fst x <> fst y ->
  insert_by x (insert_by y l) = insert_by y (insert_by x l).
Proof.
  intros x y l N. induction l as [|z l IH].
  - cbn [insert_by].
    destruct (lex_leb (fst x) (fst y)) eqn:A, (lex_leb (fst y) (fst x)) eqn:B; try reflexivity.
    + elim N. apply lex_leb_antisym; assumption.
    + apply lex_leb_total in A. congruence.
  - cbn [insert_by].
    destruct (lex_leb (fst y) (fst z)) eqn:Yz, (lex_leb (fst x) (fst z)) eqn:Xz; cbn [insert_by].
    + rewrite Yz, Xz.
      destruct (lex_leb (fst x) (fst y)) eqn:A, (lex_leb (fst y) (fst x)) eqn:B; try reflexivity.
      * elim N. apply lex_leb_antisym; assumption.
      * apply lex_leb_total in A. congruence.
    + rewrite Yz, Xz.
      destruct (lex_leb (fst x) (fst y)) eqn:A; [|reflexivity].
      rewrite (lex_leb_trans _ _ _ A Yz) in Xz. discriminate.
    + rewrite Yz, Xz.
      destruct (lex_leb (fst y) (fst x)) eqn:B; [|reflexivity].
      rewrite (lex_leb_trans _ _ _ B Xz) in Yz. discriminate.
    + rewrite Yz, Xz, IH. reflexivity.
Qed.

Lemma sort_files_perm_eq : forall m1 m2, Permutation m1 m2 -> NoDup (map fst m1) ->
  sort_files m1 = sort_files m2.
Proof.
  induction 1 as [|x l l' P IH|x y l|l l' l'' P1 IH1 P2 IH2]; intro ND.
  - reflexivity.
  - cbn [sort_files]. cbn [map] in ND. inversion ND; subst. rewrite IH by assumption. reflexivity.
  - cbn [sort_files]. cbn [map] in ND. inversion ND as [|? ? Hin _]; subst.
    apply insert_by_swap. intro E. apply Hin. left. symmetry. exact E.
  - rewrite IH1 by assumption. apply IH2.
    eapply Permutation_NoDup; [apply Permutation_map; exact P1 | exact ND].
Qed.

Lemma order_free : forall H m1 m2, NoDup (map fst m1) -> Permutation m1 m2 ->
  dir_digest H m1 = dir_digest H m2.
Proof.
  intros H m1 m2 ND P. unfold dir_digest, dir_text.
  rewrite (sort_files_perm_eq m1 m2 P ND). reflexivity.
Qed.

(** * sensitivity *)

Definition entry_ok' (f : str * str) : Prop :=
  (forall c, In c (snd f) -> c <> 32%N /\ c <> 10%N) /\ ~ In 10%N (fst f) /\
  encodable (fst f) = true /\ encodable (snd f) = true.
Definition wf_files' (m : list (str * str)) : Prop := NoDup (map fst m) /\ Forall entry_ok' m.

(** a text is split uniquely at the first occurrence of a separator *)
Lemma split_first_unique : forall (c : N) a b x y,
  ~ In c a -> ~ In c b -> a ++ c :: x = b ++ c :: y -> a = b /\ x = y.
Proof.
  induction a as [|p a IH]; intros [|q b] x y Ha Hb E; cbn [app] in E.
  - inversion E. auto.
  - inversion E; subst. elim Hb. left; reflexivity.
  - inversion E; subst. elim Ha. left; reflexivity.
  - inversion E; subst.
    destruct (IH b x y) as [E1 E2]; auto.
    + intro K. apply Ha. right; exact K.
    + intro K. apply Hb. right; exact K.
    + subst. auto.
Qed.

Lemma line_app_inj : forall f g r s, entry_ok' f -> entry_ok' g ->
  line f ++ r = line g ++ s -> f = g /\ r = s.
Proof.
  intros [p h] [p' h'] r s (Hh & Hp & _) (Hh' & Hp' & _) E.
  unfold line in E. cbn [fst snd] in *.
  rewrite <- !app_assoc in E. cbn [app] in E.
  apply split_first_unique in E;
    [| intro K; apply Hh in K; tauto | intro K; apply Hh' in K; tauto].
  destruct E as [E1 E2]. inversion E2 as [E3]. clear E2.
  apply split_first_unique in E3; [| assumption | assumption].
  destruct E3 as [E3 E4]. subst. auto.
Qed.

Lemma lines_text_inj : forall l1 l2, Forall entry_ok' l1 -> Forall entry_ok' l2 ->
  lines_text l1 = lines_text l2 -> l1 = l2.
Proof.
  induction l1 as [|f l1 IH]; intros [|g l2] F1 F2 E.
  - reflexivity.
  - exfalso. cbn [lines_text flat_map] in E. unfold line in E.
    destruct (snd g); discriminate.
  - exfalso. cbn [lines_text flat_map] in E. unfold line in E.
    destruct (snd f); discriminate.
  - inversion F1; subst. inversion F2; subst.
    change (line f ++ lines_text l1 = line g ++ lines_text l2) in E.
    apply line_app_inj in E; [| assumption | assumption].
    destruct E as [E1 E2]. subst g. f_equal. apply IH; assumption.
Qed.

Lemma sensitive : forall H m1 m2, wf_files' m1 -> wf_files' m2 ->
  dir_digest H m1 = dir_digest H m2 ->
  Permutation m1 m2 \/ exists b1 b2, b1 <> b2 /\ H b1 = H b2.
Proof.
  intros H m1 m2 [ND1 F1] [ND2 F2] E. unfold dir_digest in E.
  destruct (list_eq_dec N.eq_dec (utf8 (dir_text m1)) (utf8 (dir_text m2))) as [U|U].
  - left. apply utf8_inj_gen in U. unfold dir_text in U.
    apply lines_text_inj in U.
    + eapply perm_trans; [apply Permutation_sym, sort_files_perm|].
      rewrite U. apply sort_files_perm.
    + eapply Permutation_Forall; [apply Permutation_sym, sort_files_perm | exact F1].
    + eapply Permutation_Forall; [apply Permutation_sym, sort_files_perm | exact F2].
  - right. exists (utf8 (dir_text m1)), (utf8 (dir_text m2)). split; assumption.
Qed.

(** * a newline in a file name makes the construction ambiguous *)

Lemma newline_refuted : exists m1 m2, NoDup (map fst m1) /\ NoDup (map fst m2) /\
  ~ Permutation m1 m2 /\ forall H, dir_digest H m1 = dir_digest H m2.
Proof.
  (* m1: one file named "a\n0  b" with digest "0"; m2: files "a" and "b", both with digest "0" *)
  exists [([97; 10; 48; 32; 32; 98], [48])], [([97], [48]); ([98], [48])].
  split; [|split; [|split]].
  - cbn [map fst]. constructor; [intros []|constructor].
  - cbn [map fst]. constructor.
    + intros [K|[]]. discriminate.
    + constructor; [intros []|constructor].
  - intro P. apply Permutation_length in P. discriminate.
  - intro H. unfold dir_digest. f_equal.
Qed.
