(** VerifySpec.v — vocabulary for the statements about the verification core
    (definitions only). *)
From InToto.Model Require Import Base Json Strs Utf8 Canon Rule Glob Rules Expiry Subst Meta Verify.

Section Spec.
  Variable b64dec : str -> option (list N).
  Variable loads : list N -> option json.
  Variable sig_ok : str -> list N -> str -> bool.
  Variable now_s : Z.
  Variable now_us : Z.
  Variable exec : list json -> exec_result.

  Definition vsig := verify_signature sig_ok now_s.
  Definition vbody := verify_body b64dec loads sig_ok now_s now_us exec.
  Definition vfy := verify b64dec loads sig_ok now_s now_us exec.

  (** the sub-directory verifiers the recursion hands to verify_body *)
  Definition recs_of (subs : list (str * dirtree)) : list (str * (args -> result)) :=
    map (fun nt => (fst nt, vfy (snd nt))) subs.
  Definition vmissing := verify_in_missing_dir b64dec loads sig_ok now_s now_us exec.

  (** ideal signatures: a signature value validates at most one message per key *)
  Definition ideal_sigs : Prop :=
    forall tok m1 m2 v, sig_ok tok m1 v = true -> sig_ok tok m2 v = true -> m1 = m2.

  (** the bytes a signature on this metadata is made over, and the content they determine *)
  Definition signed_message (md : metadata) : res (list N) :=
    match md with
    | Metablock _ p => signable_bytes (payload_asdict p)
    | Envelope pbytes pt _ _ => Ok (pae (utf8 pt) pbytes)
    end.

  (** [carries_valid_sig md key]: some signature listed in [md] is by [key] (its key id or one of
      its subkeys' ids) and cryptographically valid over exactly [signed_message md] *)
  Definition sig_keyid_matches (key sig : json) : Prop :=
    exists kid k, jstr_of (jget S_keyid key) = Some kid /\ jstr_of (jget S_keyid sig) = Some k /\
                  (k = kid \/ In k (subkey_ids key)).
  Definition md_signatures (md : metadata) : list json :=
    match md with Metablock s _ => s | Envelope _ _ s _ => s end.
  Definition carries_valid_sig (md : metadata) (key : json) : Prop :=
    exists sig msg, In sig (md_signatures md) /\ sig_keyid_matches key sig /\ signed_message md = Ok msg /\
      (sslib_verify sig_ok sig key msg = Ok true \/ gpg_verify sig_ok now_s sig key msg = Ok true).

  (** declarative authorisation (property C02; the relation with the functionary a link counts for is
      [ThresholdSpec.counts]): a link file named after [link_keyid] may count for step [s], verified
      with key [vk] *)
  Inductive authorised (l : layout) (s : step) (link_keyid : str) (vk : json) : Prop :=
  | A_key a :                      (* the authorised key itself, present in the key store *)
      In a (st_pubkeys s) -> lookup a (ly_keys l) = Some vk -> link_keyid = a -> authorised l s link_keyid vk
  | A_subkey_of_master a :         (* a subkey of an authorised master key *)
      In a (st_pubkeys s) -> lookup a (ly_keys l) = Some vk -> In link_keyid (subkey_ids vk) ->
      authorised l s link_keyid vk
  | A_subkey_alone a m mk :        (* an individually authorised subkey: verified with that subkey's entry
                                      of its master key alone - not the master, not a sibling *)
      In a (st_pubkeys s) -> In (m, mk) (ly_keys l) -> subkey_entry mk a = Some vk -> link_keyid = a ->
      authorised l s link_keyid vk.

  (** own events of one layout: the inspections that were started, a prefix of the layout's list *)
  Definition insp_cmds (l : layout) : list ev := map (fun i => Exec (in_run i)) (ly_inspect l).

  Definition is_prefix {A} (p l : list A) : Prop := exists r, l = p ++ r.

  (** an inspection result that lets the run continue *)
  Definition exec_good (r : exec_result) : bool :=
    match r with ExDone (JInt z) _ _ => Z.eqb z 0 | _ => false end.
End Spec.
