(** MatchProofs.v — the three reports of match_products partition the differences (C19). *)
From InToto.Model Require Import Base Json Match.

Lemma in_keys_lookup : forall {A} k (m : list (str * A)), In k (keys m) <-> exists v, lookup k m = Some v.
Proof.
  intros A k m. induction m as [|[k' v'] m IH]; simpl.
  - split; [tauto | intros [v H]; discriminate].
  - destruct (eqs k k') eqn:E.
    + apply eqs_eq in E. subst. split; [eauto | auto].
    + apply eqs_neq in E. rewrite IH. split.
      * intros [H|H]; [congruence | exact H].
      * intros H. right. exact H.
Qed.

Lemma not_in_keys_lookup : forall {A} k (m : list (str * A)), ~ In k (keys m) <-> lookup k m = None.
Proof.
  intros A k m. rewrite in_keys_lookup. destruct (lookup k m) as [v|].
  - split; [intros H; exfalso; apply H; eauto | discriminate].
  - split; [reflexivity | intros _ [v H]; discriminate].
Qed.

Lemma set_diff_In : forall a b x, In x (set_diff a b) <-> In x a /\ ~ In x b.
Proof.
  intros a b x. unfold set_diff. rewrite filter_In, negb_true_iff, mem_str_false. tauto.
Qed.
Lemma set_inter_In : forall a b x, In x (set_inter a b) <-> In x a /\ In x b.
Proof.
  intros a b x. unfold set_inter. rewrite filter_In, mem_str_In. tauto.
Qed.

Definition only_p (r : list str * list str * list str) := fst (fst r).
Definition notin_p (r : list str * list str * list str) := snd (fst r).
Definition differ_p (r : list str * list str * list str) := snd r.

Lemma partition_spec : forall P A n,
  (In n (only_p (match_products P A)) <-> In n (keys P) /\ ~ In n (keys A)) /\
  (In n (notin_p (match_products P A)) <-> In n (keys A) /\ ~ In n (keys P)) /\
  (In n (differ_p (match_products P A)) <->
     exists x y, lookup n P = Some x /\ lookup n A = Some y /\ py_eqb x y = false).
Proof.
  intros P A n. unfold match_products, only_p, notin_p, differ_p. simpl.
  split; [apply set_diff_In | split; [apply set_diff_In | split]].
  - intros H. apply filter_In in H. destruct H as [Hi Hd]. unfold differs in Hd.
    destruct (lookup n P) as [x|]; try discriminate. destruct (lookup n A) as [y|]; try discriminate.
    exists x, y. repeat split. apply negb_true_iff. exact Hd.
  - intros [x [y [Hx [Hy He]]]]. apply filter_In. split.
    + apply set_inter_In. split; apply in_keys_lookup; eauto.
    + unfold differs. rewrite Hx, Hy, He. reflexivity.
Qed.

Lemma reports_disjoint : forall P A n,
  ~ (In n (only_p (match_products P A)) /\ In n (notin_p (match_products P A))) /\
  ~ (In n (only_p (match_products P A)) /\ In n (differ_p (match_products P A))) /\
  ~ (In n (notin_p (match_products P A)) /\ In n (differ_p (match_products P A))).
Proof.
  intros P A n. destruct (partition_spec P A n) as [H1 [H2 H3]].
  repeat split; intros [Ha Hb].
  - apply H1 in Ha. apply H2 in Hb. tauto.
  - apply H1 in Ha. apply H3 in Hb. destruct Hb as [x [y [_ [Hy _]]]].
    destruct Ha as [_ Ha]. apply Ha. apply in_keys_lookup. eauto.
  - apply H2 in Ha. apply H3 in Hb. destruct Hb as [x [y [Hx _]]].
    destruct Ha as [_ Ha]. apply Ha. apply in_keys_lookup. eauto.
Qed.

(** the two maps are equal as maps: same names, equal hash records *)
Definition same_artifacts (P A : list (str * json)) : Prop :=
  forall n, match lookup n P, lookup n A with
            | Some x, Some y => py_eqb x y = true
            | None, None => True
            | _, _ => False
            end.

Lemma nil_iff_no_member : forall (l : list str), l = [] <-> forall x, ~ In x l.
Proof.
  intros l. split; [intros -> x H; exact H|].
  destruct l as [|a l]; [reflexivity|]. intros H. exfalso. apply (H a). left. reflexivity.
Qed.

Lemma all_empty_iff_equal : forall P A,
  (only_p (match_products P A) = [] /\ notin_p (match_products P A) = [] /\ differ_p (match_products P A) = [])
  <-> same_artifacts P A.
Proof.
  intros P A. rewrite !nil_iff_no_member. split.
  - intros [H1 [H2 H3]] n.
    destruct (partition_spec P A n) as [S1 [S2 S3]].
    destruct (lookup n P) as [x|] eqn:Ex; destruct (lookup n A) as [y|] eqn:Ey.
    + destruct (py_eqb x y) eqn:E; [reflexivity|]. exfalso. apply (H3 n). apply S3. eauto.
    + apply (H1 n). apply S1. split; [apply in_keys_lookup; eauto | apply not_in_keys_lookup; assumption].
    + apply (H2 n). apply S2. split; [apply in_keys_lookup; eauto | apply not_in_keys_lookup; assumption].
    + exact I.
  - intros Hs. repeat split; intros n Hn; specialize (Hs n);
      destruct (partition_spec P A n) as [S1 [S2 S3]].
    + apply S1 in Hn. destruct Hn as [Ha Hb]. apply in_keys_lookup in Ha. destruct Ha as [v Hv].
      apply not_in_keys_lookup in Hb. rewrite Hv, Hb in Hs. exact Hs.
    + apply S2 in Hn. destruct Hn as [Ha Hb]. apply in_keys_lookup in Ha. destruct Ha as [v Hv].
      apply not_in_keys_lookup in Hb. rewrite Hv, Hb in Hs. exact Hs.
    + apply S3 in Hn. destruct Hn as [x [y [Hx [Hy He]]]]. rewrite Hx, Hy in Hs. congruence.
Qed.
