(** VerifyRec.v — the recursion of in_toto_verify into sublayouts (property C06):
    nested induction principle for [dirtree], unfolding of [verify], the relation between the
    verified metadata of a step and the chain entries the later stages evaluate, failure
    propagation at every depth, the shape of the summary link, non-interference of the
    parent's other keys / files / sibling directories. *)
From InToto.Model Require Import Base Json Strs Utf8 Canon Rule Glob Rules Expiry Subst Meta Verify.
From InToto.Proofs Require Import VerifySpec.

(* ------------------------------------------------------------------ *)
(** * Induction over directory trees (nested through [list]) *)

Section DirInd.
  Variable P : dirtree -> Prop.
  Hypothesis Hdir : forall files subs, Forall (fun nt => P (snd nt)) subs -> P (Dir files subs).

  Fixpoint dirtree_nested_ind (d : dirtree) : P d :=
    match d with
    | Dir files subs =>
        Hdir files subs
          ((fix go (l : list (str * dirtree)) : Forall (fun nt => P (snd nt)) l :=
              match l with
              | [] => Forall_nil _
              | nt :: l' => Forall_cons nt (dirtree_nested_ind (snd nt)) (go l')
              end) subs)
    end.
End DirInd.

(** depth of a tree, only used to show that examples are nested *)
Fixpoint dir_depth (d : dirtree) : nat :=
  match d with
  | Dir _ subs => S (fold_right (fun nt m => Nat.max (dir_depth (snd nt)) m) O subs)
  end.

(* ------------------------------------------------------------------ *)
(** * Generic facts *)

Lemma bind_Ok : forall (A B : Type) (r : res A) (f : A -> res B) b,
  bind r f = Ok b -> exists a, r = Ok a /\ f a = Ok b.
Proof. intros A B [a|e] f b H; simpl in H; [exists a; auto | discriminate]. Qed.

Lemma mapM_Forall2 : forall (A B : Type) (f : A -> res B) l ys,
  mapM f l = Ok ys -> Forall2 (fun x y => f x = Ok y) l ys.
Proof.
  intros A B f. induction l as [|x l IH]; simpl; intros ys H.
  - inversion H. constructor.
  - apply bind_Ok in H. destruct H as [y [Hy H]]. apply bind_Ok in H. destruct H as [ys' [Hys H]].
    inversion H; subst. constructor; [assumption | apply IH; assumption].
Qed.

Lemma mapM_ext_in : forall (A B : Type) (f g : A -> res B) l,
  (forall x, In x l -> f x = g x) -> mapM f l = mapM g l.
Proof.
  intros A B f g. induction l as [|x l IH]; simpl; intro H; [reflexivity|].
  rewrite (H x (or_introl eq_refl)). rewrite IH; [reflexivity|]. intros y Hy. apply H. right. assumption.
Qed.

Lemma lookup_In : forall (A : Type) k (l : list (str * A)) v, lookup k l = Some v -> In (k, v) l.
Proof.
  intros A k. induction l as [|[k' v'] l IH]; simpl; intros v H; [discriminate|].
  destruct (eqs k k') eqn:E.
  - apply eqs_eq in E. inversion H; subst. left. reflexivity.
  - right. apply IH. assumption.
Qed.

Lemma lookup_map_snd : forall (A B : Type) (f : A -> B) k (l : list (str * A)),
  lookup k (map (fun nt => (fst nt, f (snd nt))) l) = option_map f (lookup k l).
Proof.
  intros A B f k. induction l as [|[k' v] l IH]; simpl; [reflexivity|].
  destruct (eqs k k'); [reflexivity | exact IH].
Qed.

(* ------------------------------------------------------------------ *)
Section Rec.
  Variable b64dec : str -> option (list N).
  Variable loads : list N -> option json.
  Variable sig_ok : str -> list N -> str -> bool.
  Variable now_s : Z.
  Variable now_us : Z.
  Variable exec : list json -> exec_result.

  Local Notation vfy := (vfy b64dec loads sig_ok now_s now_us exec).
  Local Notation vbody := (vbody b64dec loads sig_ok now_s now_us exec).
  Local Notation recs_of := (recs_of b64dec loads sig_ok now_s now_us exec).
  Local Notation vmissing := (vmissing b64dec loads sig_ok now_s now_us exec).
  Local Notation vsig := (vsig sig_ok now_s).
  Local Notation stage_pre := (stage_pre b64dec loads sig_ok now_s now_us).
  Local Notation stage_final := (stage_final exec).
  Local Notation load_links_for_layout := (load_links_for_layout b64dec loads).
  Local Notation load_step := (load_step b64dec loads).
  Local Notation load_keyids := (load_keyids b64dec loads).
  Local Notation load_file := (load_file b64dec loads).
  Local Notation vlst := (verify_link_signature_thresholds sig_ok now_s).
  Local Notation verify_step_links := (verify_step_links sig_ok now_s).
  Local Notation verify_metadata_signatures := (verify_metadata_signatures sig_ok now_s).

  (** ** [verify] is [verify_body] applied to the verifiers of the sub-directories *)
  Lemma verify_unfold : forall files subs,
    vfy (Dir files subs) = vbody files (recs_of subs) vmissing.
  Proof.
    intros files subs. unfold VerifySpec.vfy, VerifySpec.vbody, VerifySpec.recs_of, VerifySpec.vmissing.
    cbn [verify]. f_equal.
    induction subs as [|[n t] subs IH]; [reflexivity|].
    cbn [map fst snd]. f_equal. exact IH.
  Qed.

  Lemma lookup_recs_of : forall n subs,
    lookup n (recs_of subs) = option_map (fun t => vfy t) (lookup n subs).
  Proof. intros n subs. unfold VerifySpec.recs_of. apply lookup_map_snd. Qed.

  (** ** Nothing is loaded from an empty directory, so its verifier never recurses *)
  Lemma load_keyids_nofiles : forall sname kids acc, load_keyids [] sname kids acc = Ok acc.
  Proof. intros sname. induction kids as [|k kids IH]; intro acc; simpl; [reflexivity | apply IH]. Qed.

  Lemma load_step_nofiles : forall l s f, load_step [] l s = Ok f -> f = [].
  Proof.
    intros l s f. unfold Verify.load_step. destruct (negb (name_ok (st_name s))); [discriminate|].
    rewrite load_keyids_nofiles. cbn [bind length].
    destruct (Z.of_nat 0 <? st_threshold s)%Z; intro H; [discriminate | inversion H; reflexivity].
  Qed.

  Definition all_empty {A B} (l : list (str * list (A * B))) : Prop := Forall (fun e => snd e = []) l.

  Lemma load_links_nofiles : forall l sm, load_links_for_layout [] l = Ok sm -> all_empty sm.
  Proof.
    intros l sm H. unfold Verify.load_links_for_layout in H. apply mapM_Forall2 in H.
    unfold all_empty. induction H as [|s e ss es Hs _ IH]; constructor; [|exact IH].
    apply bind_Ok in Hs. destruct Hs as [f [Hf He]]. inversion He; subst. simpl.
    eapply load_step_nofiles. exact Hf.
  Qed.

  Lemma vlst_all_empty : forall l sm vm, all_empty sm -> vlst l sm = Ok vm -> all_empty vm.
  Proof.
    intros l sm vm Hsm H. unfold Verify.verify_link_signature_thresholds in H. apply mapM_Forall2 in H.
    unfold all_empty. induction H as [|s e ss es Hs _ IH]; constructor; [|exact IH].
    assert (Hfound : match lookup (st_name s) sm with Some f => f | None => [] end = []).
    { destruct (lookup (st_name s) sm) as [f|] eqn:E; [|reflexivity].
      apply lookup_In in E. unfold all_empty in Hsm. rewrite Forall_forall in Hsm.
      exact (Hsm _ E). }
    rewrite Hfound in Hs. simpl in Hs.
    destruct (0 <? st_threshold s)%Z; [discriminate|].
    inversion Hs; subst. reflexivity.
  Qed.

  Lemma subs_links_nil : forall recs missing l s tr,
    subs_links recs missing l s [] tr = (Ok [], tr).
  Proof. reflexivity. Qed.

  Lemma subs_steps_all_empty : forall recs missing recs' missing' l vm tr,
    all_empty vm -> subs_steps recs missing l vm tr = subs_steps recs' missing' l vm tr.
  Proof.
    intros recs missing recs' missing' l vm. induction vm as [|[s kms] vm IH]; intros tr H; [reflexivity|].
    inversion H as [|? ? Hk Hvm]; subst. simpl in Hk. subst kms. cbn [subs_steps subs_links].
    rewrite (IH tr Hvm). reflexivity.
  Qed.

  Lemma stage_pre_nofiles : forall a l vm, stage_pre [] a = Ok (l, vm) -> all_empty vm.
  Proof.
    intros a l vm H. unfold Verify.stage_pre in H.
    repeat (apply bind_Ok in H; destruct H as [? [? H]]).
    inversion H; subst. eapply vlst_all_empty; [|eassumption]. eapply load_links_nofiles. eassumption.
  Qed.

  Lemma verify_body_nofiles : forall recs missing recs' missing' a,
    verify_body b64dec loads sig_ok now_s now_us exec [] recs missing a =
    verify_body b64dec loads sig_ok now_s now_us exec [] recs' missing' a.
  Proof.
    intros. unfold verify_body. destruct (stage_pre [] a) as [[l vm]|e] eqn:E; [|reflexivity].
    rewrite (subs_steps_all_empty recs missing recs' missing' l vm [] (stage_pre_nofiles _ _ _ E)).
    reflexivity.
  Qed.

  (** the verifier used for a sub-directory that does not exist is [verify] of the empty tree *)
  Lemma vmissing_is_verify_empty : forall a, vmissing a = vfy (Dir [] []) a.
  Proof.
    intro a. rewrite verify_unfold. unfold VerifySpec.vmissing, verify_in_missing_dir, VerifySpec.vbody.
    apply verify_body_nofiles.
  Qed.

  (** ** The recursive call *)
  Definition sub_dir (subs : list (str * dirtree)) (name : str) : dirtree :=
    match lookup name subs with Some t => t | None => Dir [] [] end.

  (** layout.keys.get(keyid) *)
  Definition delegating_key (l : layout) (kid : str) : json :=
    match lookup kid (ly_keys l) with Some k => k | None => JNull end.

  (** the arguments of the recursive call for metadata [md] stored under file-name key id [kid]
      of step [s]: ONLY that functionary's key, no parameters, the step's name *)
  Definition sub_args (l : layout) (s kid : str) (md : metadata) : args :=
    mkArgs md (JDict [(kid, delegating_key l kid)]) None (JStr s).

  Definition sub_call (subs : list (str * dirtree)) (l : layout) (s kid : str) (md : metadata) : result :=
    vfy (sub_dir subs (sublayout_dirname s kid)) (sub_args l s kid md).

  Lemma sub_verifier_eq : forall subs name a,
    match lookup name (recs_of subs) with Some f => f a | None => vmissing a end = vfy (sub_dir subs name) a.
  Proof.
    intros subs name a. rewrite lookup_recs_of. unfold sub_dir.
    destruct (lookup name subs); simpl; [reflexivity | apply vmissing_is_verify_empty].
  Qed.

  (** one-step unfolding of [subs_links] in terms of [sub_call] *)
  Lemma subs_links_cons : forall subs l s kid md kms tr,
    subs_links (recs_of subs) vmissing l s ((kid, md) :: kms) tr =
    match get_payload md with
    | Err e => (Err e, tr)
    | Ok (PLink lk) =>
        let '(r, tr') := subs_links (recs_of subs) vmissing l s kms tr in
        (do rest <- r; Ok ((kid, lk) :: rest), tr')
    | Ok (PLayout _) =>
        match sub_call subs l s kid md with
        | (Err e, str) => (Err e, tr ++ str)
        | (Ok summary, str) =>
            let '(r, tr') := subs_links (recs_of subs) vmissing l s kms (tr ++ str) in
            (do rest <- r; Ok ((kid, summary) :: rest), tr')
        end
    end.
  Proof.
    intros. cbn [subs_links]. destruct (get_payload md) as [[lk|ly]|e]; try reflexivity.
    unfold sub_call, sub_args, delegating_key. rewrite <- sub_verifier_eq.
    destruct (lookup (sublayout_dirname s kid) (recs_of subs)); reflexivity.
  Qed.

  (** ** Verified metadata vs. chain entries *)
  Inductive entry_ok (subs : list (str * dirtree)) (l : layout) (s : str)
    : str * metadata -> str * link -> Prop :=
  | entry_link : forall kid md lk,
      get_payload md = Ok (PLink lk) -> entry_ok subs l s (kid, md) (kid, lk)
  | entry_sub : forall kid md ly summary str,
      get_payload md = Ok (PLayout ly) ->
      sub_call subs l s kid md = (Ok summary, str) ->
      entry_ok subs l s (kid, md) (kid, summary).

  Definition step_ok (subs : list (str * dirtree)) (l : layout)
             (e : str * list (str * metadata)) (c : str * list (str * link)) : Prop :=
    fst e = fst c /\ Forall2 (entry_ok subs l (fst e)) (snd e) (snd c).

  Lemma subs_links_ok : forall subs l s kms tr kl tr',
    subs_links (recs_of subs) vmissing l s kms tr = (Ok kl, tr') ->
    Forall2 (entry_ok subs l s) kms kl.
  Proof.
    intros subs l s. induction kms as [|[kid md] kms IH]; intros tr kl tr' H.
    - inversion H. constructor.
    - rewrite subs_links_cons in H.
      destruct (get_payload md) as [[lk|ly]|e] eqn:Ep; [| |discriminate].
      + destruct (subs_links (recs_of subs) vmissing l s kms tr) as [r tr1] eqn:Er.
        destruct r as [rest|e]; [|discriminate]. inversion H; subst.
        constructor; [apply entry_link; assumption | eapply IH; eassumption].
      + destruct (sub_call subs l s kid md) as [[summary|e] str] eqn:Es; [|discriminate].
        destruct (subs_links (recs_of subs) vmissing l s kms (tr ++ str)) as [r tr1] eqn:Er.
        destruct r as [rest|e]; [|discriminate]. inversion H; subst.
        constructor; [eapply entry_sub; eassumption | eapply IH; eassumption].
  Qed.

  Lemma subs_steps_ok : forall subs l vm tr chain tr',
    subs_steps (recs_of subs) vmissing l vm tr = (Ok chain, tr') ->
    Forall2 (step_ok subs l) vm chain.
  Proof.
    intros subs l. induction vm as [|[s kms] vm IH]; intros tr chain tr' H.
    - inversion H. constructor.
    - cbn [subs_steps] in H.
      destruct (subs_links (recs_of subs) vmissing l s kms tr) as [[kl|e] tr1] eqn:El; [|discriminate].
      destruct (subs_steps (recs_of subs) vmissing l vm tr1) as [r2 tr2] eqn:Es.
      destruct r2 as [rest|e]; [|discriminate]. inversion H; subst.
      constructor.
      + split; [reflexivity | eapply subs_links_ok; eassumption].
      + eapply IH; eassumption.
  Qed.

  (** ** Decomposition of an accepting run *)
  Lemma verify_accept_inv : forall files subs a summary tr,
    vfy (Dir files subs) a = (Ok summary, tr) ->
    exists l vm chain tr1 reduced,
      stage_pre files a = Ok (l, vm) /\
      subs_steps (recs_of subs) vmissing l vm [] = (Ok chain, tr1) /\
      stage_mid l chain = Ok reduced /\
      stage_final l reduced (a_step_name a) tr1 = (Ok summary, tr).
  Proof.
    intros files subs a summary tr H. rewrite verify_unfold in H. unfold VerifySpec.vbody, verify_body in H.
    destruct (stage_pre files a) as [[l vm]|e] eqn:Ep; [|discriminate].
    destruct (subs_steps (recs_of subs) vmissing l vm []) as [[chain|e] tr1] eqn:Es; [|discriminate].
    destruct (stage_mid l chain) as [reduced|e] eqn:Em; [|discriminate].
    exists l, vm, chain, tr1, reduced. auto.
  Qed.

  Lemma stage_mid_inv : forall l chain reduced,
    stage_mid l chain = Ok reduced ->
    verify_threshold_constraints l chain = Ok tt /\
    reduce_chain_links chain = Ok reduced /\
    verify_all_item_rules glob_match (step_items l) reduced = Ok tt.
  Proof.
    intros l chain reduced H. unfold stage_mid in H.
    apply bind_Ok in H. destruct H as [[] [H1 H]].
    apply bind_Ok in H. destruct H as [red [H2 H]].
    apply bind_Ok in H. destruct H as [[] [H3 H]].
    inversion H; subst. auto.
  Qed.

  Lemma stage_final_inv : forall l reduced name tr0 summary tr,
    stage_final l reduced name tr0 = (Ok summary, tr) ->
    exists ilinks,
      run_all_inspections exec (ly_inspect l) [] tr0 = (Ok ilinks, tr) /\
      verify_all_item_rules glob_match (insp_items l) (combine_links reduced ilinks) = Ok tt /\
      get_summary_link l reduced name = Ok summary.
  Proof.
    intros l reduced name tr0 summary tr H. unfold Verify.stage_final in H.
    destruct (run_all_inspections exec (ly_inspect l) [] tr0) as [[ilinks|e] tr'] eqn:Er; [|discriminate].
    injection H as H1 H2. subst tr'.
    apply bind_Ok in H1. destruct H1 as [[] [Hr Hs]].
    exists ilinks. split; [reflexivity|]. split; assumption.
  Qed.

  (** C06_recursive *)
  Theorem verify_recursive : forall files subs a summary tr,
    vfy (Dir files subs) a = (Ok summary, tr) ->
    exists l vm chain reduced,
      stage_pre files a = Ok (l, vm) /\
      Forall2 (step_ok subs l) vm chain /\
      verify_threshold_constraints l chain = Ok tt /\
      reduce_chain_links chain = Ok reduced /\
      verify_all_item_rules glob_match (step_items l) reduced = Ok tt /\
      get_summary_link l reduced (a_step_name a) = Ok summary.
  Proof.
    intros files subs a summary tr H.
    destruct (verify_accept_inv _ _ _ _ _ H) as [l [vm [chain [tr1 [reduced [Hp [Hs [Hm Hf]]]]]]]].
    destruct (stage_mid_inv _ _ _ Hm) as [Ht [Hr Hrules]].
    destruct (stage_final_inv _ _ _ _ _ _ Hf) as [il [_ [_ Hsum]]].
    exists l, vm, chain, reduced. repeat split; try assumption.
    eapply subs_steps_ok; eassumption.
  Qed.

  (** pointwise reading: every verified sublayout metadata was verified recursively and accepted,
      and the chain holds exactly its summary at the same position *)
  Corollary verify_recursive_pointwise : forall files subs a summary tr,
    vfy (Dir files subs) a = (Ok summary, tr) ->
    exists l vm chain,
      stage_pre files a = Ok (l, vm) /\
      (exists reduced, stage_mid l chain = Ok reduced /\ get_summary_link l reduced (a_step_name a) = Ok summary) /\
      map fst chain = map fst vm /\
      forall s kms kid md ly, In (s, kms) vm -> In (kid, md) kms -> get_payload md = Ok (PLayout ly) ->
        exists sub_summary str kl,
          sub_call subs l s kid md = (Ok sub_summary, str) /\
          In (s, kl) chain /\ In (kid, sub_summary) kl /\ map fst kl = map fst kms.
  Proof.
    intros files subs a summary tr H.
    destruct (verify_accept_inv _ _ _ _ _ H) as [l [vm [chain [tr1 [reduced [Hp [Hs [Hm Hf]]]]]]]].
    destruct (stage_final_inv _ _ _ _ _ _ Hf) as [il [_ [_ Hsum]]].
    pose proof (subs_steps_ok _ _ _ _ _ _ Hs) as HF.
    exists l, vm, chain. split; [assumption|]. split; [exists reduced; auto|].
    split.
    - clear -HF. induction HF as [|e c vm' ch' [He _] _ IH]; simpl; [reflexivity | congruence].
    - intros s kms kid md ly Hin Hk Hpl.
      clear -HF Hin Hk Hpl. induction HF as [|e c vm' ch' [He Hent] _ IH]; [contradiction|].
      destruct Hin as [Heq|Hin].
      + subst e. simpl in He, Hent. destruct c as [s' kl]. simpl in He. subst s'. simpl in Hent.
        assert (Hex : exists sub_summary str, sub_call subs l s kid md = (Ok sub_summary, str) /\ In (kid, sub_summary) kl).
        { clear -Hent Hk Hpl. induction Hent as [|x y kms' kl' Hxy _ IH2]; [contradiction|].
          destruct Hk as [Hx|Hk].
          - subst x. inversion Hxy as [? ? ? Hl|? ? ? ? ? Hl Hc]; subst.
            + rewrite Hpl in Hl. discriminate.
            + exists summary, str. split; [assumption | left; reflexivity].
          - destruct (IH2 Hk) as [ss [st [H1 H2]]]. exists ss, st. split; [assumption | right; assumption]. }
        destruct Hex as [ss [st [H1 H2]]]. exists ss, st, kl. repeat split; try assumption.
        * left. reflexivity.
        * clear -Hent. induction Hent as [|x y ? ? Hxy _ IH2]; simpl; [reflexivity|].
          f_equal; [|exact IH2]. inversion Hxy; reflexivity.
      + destruct (IH Hin) as [ss [st [kl [H1 [H2 [H3 H4]]]]]]. exists ss, st, kl. repeat split; try assumption.
        right. assumption.
  Qed.

  (* ---------------------------------------------------------------- *)
  (** ** Failure propagation *)
  Lemma subs_links_app : forall recs missing l s k1 k2 tr,
    subs_links recs missing l s (k1 ++ k2) tr =
    match subs_links recs missing l s k1 tr with
    | (Ok c1, tr1) =>
        let '(r, tr2) := subs_links recs missing l s k2 tr1 in (do rest <- r; Ok (c1 ++ rest), tr2)
    | (Err e, tr1) => (Err e, tr1)
    end.
  Proof.
    intros recs missing l s. induction k1 as [|[kid md] k1 IH]; intros k2 tr.
    - cbn [app subs_links]. destruct (subs_links recs missing l s k2 tr) as [[r|e] tr2]; reflexivity.
    - cbn [app subs_links]. destruct (get_payload md) as [[lk|ly]|e]; [| |reflexivity].
      + rewrite IH. destruct (subs_links recs missing l s k1 tr) as [[c1|e] tr1]; [|reflexivity].
        destruct (subs_links recs missing l s k2 tr1) as [[r|e] tr2]; reflexivity.
      + destruct (match lookup (sublayout_dirname s kid) recs with Some f => f _ | None => missing _ end) as [[sm|e] str];
          [|reflexivity].
        rewrite IH. destruct (subs_links recs missing l s k1 (tr ++ str)) as [[c1|e] tr1]; [|reflexivity].
        destruct (subs_links recs missing l s k2 tr1) as [[r|e] tr2]; reflexivity.
  Qed.

  Lemma subs_steps_app : forall recs missing l v1 v2 tr,
    subs_steps recs missing l (v1 ++ v2) tr =
    match subs_steps recs missing l v1 tr with
    | (Ok c1, tr1) =>
        let '(r, tr2) := subs_steps recs missing l v2 tr1 in (do rest <- r; Ok (c1 ++ rest), tr2)
    | (Err e, tr1) => (Err e, tr1)
    end.
  Proof.
    intros recs missing l. induction v1 as [|[s kms] v1 IH]; intros v2 tr.
    - cbn [app subs_steps]. destruct (subs_steps recs missing l v2 tr) as [[r|e] tr2]; reflexivity.
    - cbn [app subs_steps]. destruct (subs_links recs missing l s kms tr) as [[kl|e] tr1]; [|reflexivity].
      rewrite IH. destruct (subs_steps recs missing l v1 tr1) as [[c1|e] tr2]; [|reflexivity].
      destruct (subs_steps recs missing l v2 tr2) as [[r|e] tr3]; reflexivity.
  Qed.

  (** the recursive call for [(s, kid, md)] is reached with trace [tr2]: everything before it in
      load order (earlier steps, earlier functionaries of the step) went through *)
  Definition entry_reached (subs : list (str * dirtree)) (l : layout) (vm : list (str * list (str * metadata)))
             (s kid : str) (md : metadata) (tr2 : list ev) : Prop :=
    exists pre kms1 kms2 post c1 tr1 c2,
      vm = pre ++ (s, kms1 ++ (kid, md) :: kms2) :: post /\
      subs_steps (recs_of subs) vmissing l pre [] = (Ok c1, tr1) /\
      subs_links (recs_of subs) vmissing l s kms1 tr1 = (Ok c2, tr2).

  Lemma entry_failure_subs_steps : forall subs l vm s kid md tr2 ly e str,
    entry_reached subs l vm s kid md tr2 ->
    get_payload md = Ok (PLayout ly) ->
    sub_call subs l s kid md = (Err e, str) ->
    subs_steps (recs_of subs) vmissing l vm [] = (Err e, tr2 ++ str).
  Proof.
    intros subs l vm s kid md tr2 ly e str [pre [kms1 [kms2 [post [c1 [tr1 [c2 [Hvm [Hpre Hk1]]]]]]]]] Hpl Hcall.
    subst vm. rewrite subs_steps_app, Hpre. cbn [subs_steps].
    rewrite subs_links_app, Hk1. rewrite subs_links_cons, Hpl, Hcall. reflexivity.
  Qed.

  (** C06_failure_propagates, one level *)
  Theorem sub_failure_propagates : forall files subs a l vm s kid md tr2 ly e str,
    stage_pre files a = Ok (l, vm) ->
    entry_reached subs l vm s kid md tr2 ->
    get_payload md = Ok (PLayout ly) ->
    sub_call subs l s kid md = (Err e, str) ->
    vfy (Dir files subs) a = (Err e, tr2 ++ str).
  Proof.
    intros files subs a l vm s kid md tr2 ly e str Hpre Hr Hpl Hcall.
    rewrite verify_unfold. unfold VerifySpec.vbody, verify_body. rewrite Hpre.
    rewrite (entry_failure_subs_steps _ _ _ _ _ _ _ _ _ _ Hr Hpl Hcall). reflexivity.
  Qed.

  (** ... and the converse: a failure of the sublayout stage is the failure of the first entry
      (in load order) whose payload cannot be read or whose recursive verification fails *)
  Lemma subs_links_err_inv : forall subs l s kms tr e tr',
    subs_links (recs_of subs) vmissing l s kms tr = (Err e, tr') ->
    exists kms1 kid md kms2 c tr1,
      kms = kms1 ++ (kid, md) :: kms2 /\
      subs_links (recs_of subs) vmissing l s kms1 tr = (Ok c, tr1) /\
      ((get_payload md = Err e /\ tr' = tr1) \/
       (exists ly str, get_payload md = Ok (PLayout ly) /\ sub_call subs l s kid md = (Err e, str) /\ tr' = tr1 ++ str)).
  Proof.
    intros subs l s. induction kms as [|[kid md] kms IH]; intros tr e tr' H; [discriminate|].
    rewrite subs_links_cons in H.
    destruct (get_payload md) as [[lk|ly]|e0] eqn:Ep.
    - destruct (subs_links (recs_of subs) vmissing l s kms tr) as [[rest|e1] tr1] eqn:Er; [discriminate|].
      injection H as He Ht. subst e1 tr1.
      destruct (IH _ _ _ Er) as [k1 [kid' [md' [k2 [c [tr1 [Hk [Hok Hcase]]]]]]]].
      exists ((kid, md) :: k1), kid', md', k2, ((kid, lk) :: c), tr1.
      split; [subst kms; reflexivity|]. split; [|exact Hcase].
      rewrite subs_links_cons, Ep, Hok. reflexivity.
    - destruct (sub_call subs l s kid md) as [[sm|e1] str] eqn:Ec.
      + destruct (subs_links (recs_of subs) vmissing l s kms (tr ++ str)) as [[rest|e1] tr1] eqn:Er; [discriminate|].
        injection H as He Ht. subst e1 tr1.
        destruct (IH _ _ _ Er) as [k1 [kid' [md' [k2 [c [tr1 [Hk [Hok Hcase]]]]]]]].
        exists ((kid, md) :: k1), kid', md', k2, ((kid, sm) :: c), tr1.
        split; [subst kms; reflexivity|]. split; [|exact Hcase].
        rewrite subs_links_cons, Ep, Ec, Hok. reflexivity.
      + injection H as He Ht. subst e1 tr'.
        exists [], kid, md, kms, [], tr. split; [reflexivity|]. split; [reflexivity|].
        right. exists ly, str. auto.
    - injection H as He Ht. subst e0 tr'.
      exists [], kid, md, kms, [], tr. split; [reflexivity|]. split; [reflexivity|]. left. auto.
  Qed.

  Lemma subs_steps_err_inv : forall subs l vm e tr,
    subs_steps (recs_of subs) vmissing l vm [] = (Err e, tr) ->
    exists s kid md tr2,
      entry_reached subs l vm s kid md tr2 /\
      ((get_payload md = Err e /\ tr = tr2) \/
       (exists ly str, get_payload md = Ok (PLayout ly) /\ sub_call subs l s kid md = (Err e, str) /\ tr = tr2 ++ str)).
  Proof.
    intros subs l vm e tr.
    assert (G : forall vm tr0 e tr,
      subs_steps (recs_of subs) vmissing l vm tr0 = (Err e, tr) ->
      exists pre s kms1 kid md kms2 post c1 tr1 c2 tr2,
        vm = pre ++ (s, kms1 ++ (kid, md) :: kms2) :: post /\
        subs_steps (recs_of subs) vmissing l pre tr0 = (Ok c1, tr1) /\
        subs_links (recs_of subs) vmissing l s kms1 tr1 = (Ok c2, tr2) /\
        ((get_payload md = Err e /\ tr = tr2) \/
         (exists ly str, get_payload md = Ok (PLayout ly) /\ sub_call subs l s kid md = (Err e, str) /\ tr = tr2 ++ str))).
    { clear vm e tr. induction vm as [|[s kms] vm IH]; intros tr0 e tr H; [discriminate|].
      cbn [subs_steps] in H.
      destruct (subs_links (recs_of subs) vmissing l s kms tr0) as [[kl|e1] tr1] eqn:El.
      - destruct (subs_steps (recs_of subs) vmissing l vm tr1) as [[rest|e2] tr2] eqn:Es; [discriminate|].
        injection H as He Ht. subst e2 tr2.
        destruct (IH _ _ _ Es) as [pre [s' [k1 [kid [md [k2 [post [c1 [tr1' [c2 [tr2 [Hvm [Hpre [Hk Hcase]]]]]]]]]]]]]].
        exists ((s, kms) :: pre), s', k1, kid, md, k2, post, ((s, kl) :: c1), tr1', c2, tr2.
        split; [subst vm; reflexivity|]. split; [|split; assumption].
        cbn [subs_steps]. rewrite El, Hpre. reflexivity.
      - injection H as He Ht. subst e1 tr1.
        destruct (subs_links_err_inv _ _ _ _ _ _ _ El) as [k1 [kid [md [k2 [c [tr1 [Hk [Hok Hcase]]]]]]]].
        exists [], s, k1, kid, md, k2, vm, [], tr0, c, tr1.
        split; [subst kms; reflexivity|]. split; [reflexivity|]. split; assumption. }
    intro H. destruct (G _ _ _ _ H) as [pre [s [k1 [kid [md [k2 [post [c1 [tr1 [c2 [tr2 [Hvm [Hpre [Hk Hcase]]]]]]]]]]]]]].
    exists s, kid, md, tr2. split; [|exact Hcase].
    exists pre, k1, k2, post, c1, tr1, c2. auto.
  Qed.

  (** C06_failure_propagates at every depth: the calls reached from a root call *)
  Inductive reaches : dirtree -> args -> dirtree -> args -> Prop :=
  | reaches_here : forall d a, reaches d a d a
  | reaches_sub : forall files subs a l vm s kid md tr2 ly d' a',
      stage_pre files a = Ok (l, vm) ->
      entry_reached subs l vm s kid md tr2 ->
      get_payload md = Ok (PLayout ly) ->
      reaches (sub_dir subs (sublayout_dirname s kid)) (sub_args l s kid md) d' a' ->
      reaches (Dir files subs) a d' a'.

  Theorem failure_propagates_deep : forall d a d' a' e,
    reaches d a d' a' -> fst (vfy d' a') = Err e -> fst (vfy d a) = Err e.
  Proof.
    intros d a d' a' e H. induction H as [d a | files subs a l vm s kid md tr2 ly d' a' Hpre Hr Hpl Hsub IH]; intro He.
    - exact He.
    - specialize (IH He).
      destruct (vfy (sub_dir subs (sublayout_dirname s kid)) (sub_args l s kid md)) as [r str] eqn:Ec.
      simpl in IH. subst r.
      rewrite (sub_failure_propagates files subs a l vm s kid md tr2 ly e str Hpre Hr Hpl Ec). reflexivity.
  Qed.

  (** every error of a run originates in some reached call, where it is not the error of a deeper call *)
  Definition local_failure (d : dirtree) (a : args) (e : err) : Prop :=
    match d with
    | Dir files subs =>
        stage_pre files a = Err e \/
        (exists l vm, stage_pre files a = Ok (l, vm) /\
           ((exists s kid md tr2, entry_reached subs l vm s kid md tr2 /\ get_payload md = Err e) \/
            (exists chain tr1, subs_steps (recs_of subs) vmissing l vm [] = (Ok chain, tr1) /\
               (stage_mid l chain = Err e \/
                exists reduced, stage_mid l chain = Ok reduced /\
                                fst (stage_final l reduced (a_step_name a) tr1) = Err e))))
    end.

  Theorem failure_origin : forall d a e,
    fst (vfy d a) = Err e -> exists d' a', reaches d a d' a' /\ local_failure d' a' e.
  Proof.
    induction d as [files subs IH] using dirtree_nested_ind. intros a e H.
    assert (IHsub : forall name a0 e0, fst (vfy (sub_dir subs name) a0) = Err e0 ->
                      exists d' a', reaches (sub_dir subs name) a0 d' a' /\ local_failure d' a' e0).
    { intros name a0 e0 H0. unfold sub_dir in *. destruct (lookup name subs) as [t|] eqn:El.
      - apply lookup_In in El. rewrite Forall_forall in IH. exact (IH _ El a0 e0 H0).
      - (* the empty directory: no sub-call is ever reached *)
        exists (Dir [] []), a0. split; [constructor|].
        rewrite verify_unfold in H0. unfold VerifySpec.vbody, verify_body in H0. simpl.
        destruct (stage_pre [] a0) as [[l vm]|e1] eqn:Ep; [|left; simpl in H0; congruence].
        right. exists l, vm. split; [reflexivity|].
        pose proof (stage_pre_nofiles _ _ _ Ep) as Hem.
        destruct (subs_steps (recs_of []) vmissing l vm []) as [[chain|e1] tr1] eqn:Es.
        + right. exists chain, tr1. split; [exact Es|].
          destruct (stage_mid l chain) as [reduced|e1] eqn:Em; [|left; simpl in H0; congruence].
          right. exists reduced. split; [reflexivity | exact H0].
        + exfalso. destruct (subs_steps_err_inv _ _ _ _ _ Es) as [s [kid [md [tr2 [[pre [k1 [k2 [post [c1 [tr1' [c2 [Hvm _]]]]]]]] _]]]]].
          unfold all_empty in Hem. rewrite Forall_forall in Hem.
          assert (Hin : In (s, k1 ++ (kid, md) :: k2) vm) by (subst vm; apply in_or_app; right; left; reflexivity).
          specialize (Hem _ Hin). simpl in Hem. destruct k1; discriminate. }
    rewrite verify_unfold in H. unfold VerifySpec.vbody, verify_body in H.
    destruct (stage_pre files a) as [[l vm]|e1] eqn:Ep.
    - destruct (subs_steps (recs_of subs) vmissing l vm []) as [[chain|e1] tr1] eqn:Es.
      + exists (Dir files subs), a. split; [constructor|]. simpl. right. exists l, vm. split; [assumption|].
        right. exists chain, tr1. split; [assumption|].
        destruct (stage_mid l chain) as [reduced|e1] eqn:Em; [|left; simpl in H; congruence].
        right. exists reduced. split; [reflexivity | exact H].
      + simpl in H. injection H as H. subst e1.
        destruct (subs_steps_err_inv _ _ _ _ _ Es) as [s [kid [md [tr2 [Hr [[Hpl _]|[ly [str [Hpl [Hc _]]]]]]]]]].
        * exists (Dir files subs), a. split; [constructor|]. simpl. right. exists l, vm. split; [assumption|].
          left. exists s, kid, md, tr2. auto.
        * assert (Hf : fst (vfy (sub_dir subs (sublayout_dirname s kid)) (sub_args l s kid md)) = Err e)
            by (unfold sub_call in Hc; rewrite Hc; reflexivity).
          destruct (IHsub _ _ _ Hf) as [d' [a' [Hreach Hloc]]].
          exists d', a'. split; [|assumption]. eapply reaches_sub; eassumption.
    - exists (Dir files subs), a. split; [constructor|]. simpl. left. simpl in H. congruence.
  Qed.

  (* ---------------------------------------------------------------- *)
  (** ** The summary link *)
  Theorem summary_shape : forall l reduced name summary,
    get_summary_link l reduced name = Ok summary ->
    match ly_steps l with
    | [] => summary = empty_link
    | first :: _ =>
        exists f la,
          lookup (st_name first) reduced = Some f /\
          lookup (st_name (last (ly_steps l) first)) reduced = Some la /\
          summary = mkLink name (l_materials f) (l_products la) (l_byproducts la) (l_command la) (JDict [])
    end.
  Proof.
    intros l reduced name summary H. unfold get_summary_link in H.
    destruct (ly_steps l) as [|first rest] eqn:E; [inversion H; reflexivity|].
    destruct (lookup (st_name first) reduced) as [f|]; [|discriminate].
    destruct (lookup (st_name (last (first :: rest) first)) reduced) as [la|]; [|discriminate].
    inversion H; subst. exists f, la. auto.
  Qed.

  (** the representative of a step = its first verified entry in load order *)
  Lemma reduce_chain_links_spec : forall chain reduced,
    reduce_chain_links chain = Ok reduced ->
    Forall2 (fun c r => fst r = fst c /\ exists kid rest, snd c = (kid, snd r) :: rest) chain reduced.
  Proof.
    intros chain reduced H. unfold reduce_chain_links in H. apply mapM_Forall2 in H.
    induction H as [|c r cs rs Hc _ IH]; constructor; [|exact IH].
    destruct (snd c) as [|[kid lk] rest] eqn:E; [discriminate|]. inversion Hc; subst. simpl.
    split; [reflexivity | exists kid, rest; reflexivity].
  Qed.

  (** the name handed down to a sublayout is the step's name *)
  Lemma sub_summary_name : forall subs l s kid md summary str,
    sub_call subs l s kid md = (Ok summary, str) -> l_name summary = JStr s \/ summary = empty_link.
  Proof.
    intros subs l s kid md summary str H. unfold sub_call in H.
    destruct (sub_dir subs (sublayout_dirname s kid)) as [files subs'].
    destruct (verify_recursive _ _ _ _ _ H) as [l' [vm [chain [reduced [_ [_ [_ [_ [_ Hs]]]]]]]]].
    apply summary_shape in Hs. destruct (ly_steps l') as [|first rest]; [right; assumption|].
    destruct Hs as [f [la [_ [_ Hs]]]]. left. subst summary. reflexivity.
  Qed.

  (** without parameters the layout evaluated is the payload itself *)
  Lemma stage_pre_layout_noparams : forall files a l vm,
    stage_pre files a = Ok (l, vm) -> a_params a = None -> get_payload (a_md a) = Ok (PLayout l).
  Proof.
    intros files a l vm H Hn. unfold Verify.stage_pre in H. rewrite Hn in H.
    apply bind_Ok in H. destruct H as [[] [_ H]].
    apply bind_Ok in H. destruct H as [p [Hp H]].
    apply bind_Ok in H. destruct H as [l0 [Hl0 H]].
    apply bind_Ok in H. destruct H as [[] [_ H]].
    apply bind_Ok in H. destruct H as [l1 [Hl1 H]]. inversion Hl1; subst l1.
    apply bind_Ok in H. destruct H as [sm [_ H]].
    apply bind_Ok in H. destruct H as [vm0 [_ H]]. inversion H; subst.
    destruct p as [lk|ly]; [discriminate|]. inversion Hl0; subst. exact Hp.
  Qed.

  (** what the parent receives for a delegated step: the sublayout's own first step's
      representative's materials and its last step's representative's products, named after the step *)
  Theorem sub_summary_shape : forall subs l s kid md summary str,
    sub_call subs l s kid md = (Ok summary, str) ->
    exists ly chain reduced,
      get_payload md = Ok (PLayout ly) /\
      reduce_chain_links chain = Ok reduced /\
      verify_threshold_constraints ly chain = Ok tt /\
      match ly_steps ly with
      | [] => summary = empty_link
      | first :: _ =>
          exists f la,
            lookup (st_name first) reduced = Some f /\
            lookup (st_name (last (ly_steps ly) first)) reduced = Some la /\
            summary = mkLink (JStr s) (l_materials f) (l_products la) (l_byproducts la) (l_command la) (JDict [])
      end.
  Proof.
    intros subs l s kid md summary str H. unfold sub_call in H.
    destruct (sub_dir subs (sublayout_dirname s kid)) as [files subs'].
    destruct (verify_recursive _ _ _ _ _ H) as [l' [vm [chain [reduced [Hp [_ [Ht [Hr [_ Hs]]]]]]]]].
    pose proof (stage_pre_layout_noparams _ _ _ _ Hp eq_refl) as Hpl. cbn [sub_args a_md] in Hpl.
    exists l', chain, reduced. repeat split; try assumption.
    apply summary_shape in Hs. exact Hs.
  Qed.

  (* ---------------------------------------------------------------- *)
  (** ** What an accepted call has checked about its own layout (usable for the recursive call) *)
  Lemma verify_accept_gate : forall d a summary tr,
    vfy d a = (Ok summary, tr) ->
    exists ks ly,
      check_public_keys (a_keys a) = Ok ks /\ ks <> [] /\
      Forall (fun kv => vsig (a_md a) (snd kv) = Ok tt) ks /\
      get_payload (a_md a) = Ok (PLayout ly) /\
      check_expiry (ly_expires_us ly) now_us = Ok tt.
  Proof.
    intros [files subs] a summary tr H.
    destruct (verify_accept_inv _ _ _ _ _ H) as [l [vm [chain [tr1 [reduced [Hp _]]]]]].
    unfold Verify.stage_pre in Hp.
    apply bind_Ok in Hp. destruct Hp as [[] [Hsig Hp]].
    apply bind_Ok in Hp. destruct Hp as [p [Hpl Hp]].
    apply bind_Ok in Hp. destruct Hp as [l0 [Hl0 Hp]].
    apply bind_Ok in Hp. destruct Hp as [[] [Hexp _]].
    destruct p as [lk|ly]; [discriminate|]. inversion Hl0; subst l0.
    unfold Verify.verify_metadata_signatures in Hsig.
    apply bind_Ok in Hsig. destruct Hsig as [ks [Hks Hsig]].
    exists ks, ly. split; [assumption|].
    destruct ks as [|k ks']; [discriminate|]. split; [discriminate|].
    apply bind_Ok in Hsig. destruct Hsig as [us [Hm _]].
    split; [|split; assumption].
    apply mapM_Forall2 in Hm. clear -Hm.
    induction Hm as [|x y xs ys Hxy _ IH]; constructor; [|exact IH].
    destruct y. exact Hxy.
  Qed.

  (** an accepted sublayout is signed by the delegating functionary's key as listed in the
      parent layout, is a layout, and is not expired *)
  Corollary sub_accept_gate : forall subs l s kid md summary str,
    sub_call subs l s kid md = (Ok summary, str) ->
    exists key ly,
      lookup kid (ly_keys l) = Some key /\
      vsig md key = Ok tt /\
      get_payload md = Ok (PLayout ly) /\
      check_expiry (ly_expires_us ly) now_us = Ok tt.
  Proof.
    intros subs l s kid md summary str H. unfold sub_call in H.
    destruct (verify_accept_gate _ _ _ _ H) as [ks [ly [Hks [_ [Hall [Hpl Hexp]]]]]].
    cbn [sub_args a_keys a_md] in *. unfold delegating_key in *.
    destruct (lookup kid (ly_keys l)) as [key|].
    - exists key, ly. split; [reflexivity|]. split; [|split; assumption].
      unfold check_public_keys in Hks. apply bind_Ok in Hks. destruct Hks as [u [_ Hks]].
      inversion Hks; subst ks. inversion Hall; subst. assumption.
    - exfalso. unfold check_public_keys in Hks. cbn [mapM fst snd] in Hks.
      destruct (is_hex kid); discriminate.
  Qed.

  (* ---------------------------------------------------------------- *)
  (** ** Non-interference: the recursion sees only its own sub-directory *)
  Lemma subs_links_ext : forall recs m recs' m' l s kms tr,
    (forall kid md ly a, In (kid, md) kms -> get_payload md = Ok (PLayout ly) ->
       match lookup (sublayout_dirname s kid) recs with Some f => f a | None => m a end =
       match lookup (sublayout_dirname s kid) recs' with Some f => f a | None => m' a end) ->
    subs_links recs m l s kms tr = subs_links recs' m' l s kms tr.
  Proof.
    intros recs m recs' m' l s. induction kms as [|[kid md] kms IH]; intros tr H; [reflexivity|].
    cbn [subs_links]. destruct (get_payload md) as [[lk|ly]|e] eqn:Ep; [| |reflexivity].
    - rewrite IH; [reflexivity|]. intros; eapply H; [right|]; eassumption.
    - rewrite (H kid md ly _ (or_introl eq_refl) Ep).
      destruct (match lookup (sublayout_dirname s kid) recs' with Some f => f _ | None => m' _ end) as [[sm|e] str];
        [|reflexivity].
      rewrite IH; [reflexivity|]. intros; eapply H; [right|]; eassumption.
  Qed.

  Lemma subs_steps_ext : forall recs m recs' m' l vm tr,
    (forall s kms kid md ly a, In (s, kms) vm -> In (kid, md) kms -> get_payload md = Ok (PLayout ly) ->
       match lookup (sublayout_dirname s kid) recs with Some f => f a | None => m a end =
       match lookup (sublayout_dirname s kid) recs' with Some f => f a | None => m' a end) ->
    subs_steps recs m l vm tr = subs_steps recs' m' l vm tr.
  Proof.
    intros recs m recs' m' l. induction vm as [|[s kms] vm IH]; intros tr H; [reflexivity|].
    cbn [subs_steps]. rewrite (subs_links_ext recs m recs' m' l s kms tr).
    - destruct (subs_links recs' m' l s kms tr) as [[kl|e] tr1]; [|reflexivity].
      rewrite IH; [reflexivity|]. intros; eapply H; [right|..]; eassumption.
    - intros; eapply H; [left; reflexivity|..]; eassumption.
  Qed.

  (** C06_keys_and_dir (directories): replacing, adding or removing any sibling directory that is
      not the sub-directory of a verified sublayout metadata leaves verdict, summary and trace unchanged *)
  Theorem verify_sibling_indep : forall files subs subs' a,
    (forall l vm s kms kid md ly,
       stage_pre files a = Ok (l, vm) -> In (s, kms) vm -> In (kid, md) kms ->
       get_payload md = Ok (PLayout ly) ->
       lookup (sublayout_dirname s kid) subs = lookup (sublayout_dirname s kid) subs') ->
    vfy (Dir files subs) a = vfy (Dir files subs') a.
  Proof.
    intros files subs subs' a H. rewrite !verify_unfold. unfold VerifySpec.vbody, verify_body.
    destruct (stage_pre files a) as [[l vm]|e] eqn:Ep; [|reflexivity].
    rewrite (subs_steps_ext (recs_of subs) vmissing (recs_of subs') vmissing l vm []); [reflexivity|].
    intros s kms kid md ly a0 Hs Hk Hpl. rewrite !lookup_recs_of.
    rewrite (H l vm s kms kid md ly eq_refl Hs Hk Hpl). reflexivity.
  Qed.

  (** C06_keys_and_dir (keys, files): the recursive call is a function of the sub-directory, the
      metadata, the delegating key id, that key's entry in the layout and the step name only *)
  Theorem sub_call_only_depends : forall subs subs' l l' s kid md,
    lookup (sublayout_dirname s kid) subs = lookup (sublayout_dirname s kid) subs' ->
    lookup kid (ly_keys l) = lookup kid (ly_keys l') ->
    sub_call subs l s kid md = sub_call subs' l' s kid md.
  Proof.
    intros subs subs' l l' s kid md Hd Hk. unfold sub_call, sub_args, sub_dir, delegating_key.
    rewrite Hd, Hk. reflexivity.
  Qed.

  (* ---------------------------------------------------------------- *)
  (** ** All depths at once *)
  Inductive deep_ok : dirtree -> args -> link -> Prop :=
  | deep_ok_intro : forall files subs a summary l vm chain reduced,
      stage_pre files a = Ok (l, vm) ->
      Forall2 (fun e c =>
                 fst e = fst c /\
                 Forall2 (fun km kl =>
                            fst km = fst kl /\
                            (get_payload (snd km) = Ok (PLink (snd kl)) \/
                             exists ly, get_payload (snd km) = Ok (PLayout ly) /\
                                        deep_ok (sub_dir subs (sublayout_dirname (fst e) (fst km)))
                                                (sub_args l (fst e) (fst km) (snd km)) (snd kl)))
                         (snd e) (snd c)) vm chain ->
      stage_mid l chain = Ok reduced ->
      get_summary_link l reduced (a_step_name a) = Ok summary ->
      deep_ok (Dir files subs) a summary.

  Theorem verify_deep : forall d a summary tr, vfy d a = (Ok summary, tr) -> deep_ok d a summary.
  Proof.
    induction d as [files subs IH] using dirtree_nested_ind. intros a summary tr H.
    destruct (verify_accept_inv _ _ _ _ _ H) as [l [vm [chain [tr1 [reduced [Hp [Hs [Hm Hf]]]]]]]].
    destruct (stage_final_inv _ _ _ _ _ _ Hf) as [il [_ [_ Hsum]]].
    pose proof (subs_steps_ok _ _ _ _ _ _ Hs) as HF.
    eapply deep_ok_intro; try eassumption.
    clear -HF IH. induction HF as [|e c vm' ch' [He Hent] _ IHF]; constructor; [|exact IHF].
    split; [assumption|].
    induction Hent as [|km kl kms kls Hkk _ IHE]; constructor; [|exact IHE].
    inversion Hkk as [kid md lk Hl|kid md ly sm str Hl Hc]; subst; simpl.
    - split; [reflexivity | left; assumption].
    - split; [reflexivity|]. right. exists ly. split; [assumption|].
      unfold sub_call in Hc. unfold sub_dir in *.
      destruct (lookup (sublayout_dirname (fst e) kid) subs) as [t|] eqn:El.
      + apply lookup_In in El. rewrite Forall_forall in IH. exact (IH _ El _ _ _ Hc).
      + (* the missing directory: nothing below *)
        destruct (verify_accept_inv _ _ _ _ _ Hc) as [l2 [vm2 [chain2 [tr2 [red2 [Hp2 [Hs2 [Hm2 Hf2]]]]]]]].
        destruct (stage_final_inv _ _ _ _ _ _ Hf2) as [il2 [_ [_ Hsum2]]].
        eapply deep_ok_intro; try eassumption.
        pose proof (stage_pre_nofiles _ _ _ Hp2) as Hem.
        pose proof (subs_steps_ok _ _ _ _ _ _ Hs2) as HF2.
        clear -HF2 Hem. induction HF2 as [|e2 c2 v2 ch2 [He2 Hent2] _ IH2]; constructor.
        * inversion Hem as [|? ? Hk _]; subst. split; [assumption|].
          rewrite Hk in Hent2. rewrite Hk. inversion Hent2. constructor.
        * apply IH2. inversion Hem; assumption.
  Qed.
End Rec.
