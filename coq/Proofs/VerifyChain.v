(** VerifyChain.v — what acceptance by in_toto_verify says about closed chain layouts (C04, C11):
    inversion of an accepted run into its stages, and the boundary conditions the step and
    inspection rules enforce between consecutive steps and on the final product. *)
From InToto.Model Require Import Base Json Strs Utf8 Canon Rule Glob Rules Expiry Subst Meta Verify Match.
From InToto.Proofs Require Import RulesSpec RulesProofs MatchProofs ChainProofs.

Section Chain.
  Variable b64dec : str -> option (list N).
  Variable loads : list N -> option json.
  Variable sig_ok : str -> list N -> str -> bool.
  Variable now_s : Z.
  Variable now_us : Z.
  Variable exec : list json -> exec_result.

  Let vbody := verify_body b64dec loads sig_ok now_s now_us exec.

  (** an accepted run went through every stage *)
  Lemma verify_body_accept_inv : forall files recs missing a s tr,
    vbody files recs missing a = (Ok s, tr) ->
    exists l vm chain tr1 reduced,
      stage_pre b64dec loads sig_ok now_s now_us files a = Ok (l, vm) /\
      subs_steps recs missing l vm [] = (Ok chain, tr1) /\
      stage_mid l chain = Ok reduced /\
      stage_final exec l reduced (a_step_name a) tr1 = (Ok s, tr).
  Proof.
    intros files recs missing a s tr H. unfold vbody, verify_body in H.
    destruct (stage_pre b64dec loads sig_ok now_s now_us files a) as [[l vm]|e] eqn:Ep; [|discriminate].
    destruct (subs_steps recs missing l vm []) as [[chain|e] tr1] eqn:Es; [|discriminate].
    destruct (stage_mid l chain) as [reduced|e] eqn:Em; [|discriminate].
    exists l, vm, chain, tr1, reduced. auto.
  Qed.

  Lemma stage_mid_inv : forall l chain reduced,
    stage_mid l chain = Ok reduced ->
    verify_threshold_constraints l chain = Ok tt /\
    reduce_chain_links chain = Ok reduced /\
    verify_all_item_rules glob_match (step_items l) reduced = Ok tt.
  Proof.
    intros l chain reduced H. unfold stage_mid in H.
    destruct (verify_threshold_constraints l chain) as [u|e] eqn:E1; [|discriminate]. destruct u. cbn [bind] in H.
    destruct (reduce_chain_links chain) as [r|e] eqn:E2; [|discriminate]. cbn [bind] in H.
    destruct (verify_all_item_rules glob_match (step_items l) r) as [u|e] eqn:E3; [|discriminate]. destruct u.
    cbn [bind] in H. inversion H; subst. repeat split; reflexivity || assumption.
  Qed.

  Lemma stage_final_inv : forall l reduced name tr s tr',
    stage_final exec l reduced name tr = (Ok s, tr') ->
    exists ilinks,
      run_all_inspections exec (ly_inspect l) [] tr = (Ok ilinks, tr') /\
      verify_all_item_rules glob_match (insp_items l) (combine_links reduced ilinks) = Ok tt /\
      get_summary_link l reduced name = Ok s.
  Proof.
    intros l reduced name tr s tr' H. unfold stage_final in H.
    destruct (run_all_inspections exec (ly_inspect l) [] tr) as [[ilinks|e] tr2] eqn:Er; [|inversion H].
    inversion H as [[H1 H2]]. subst tr2. exists ilinks.
    destruct (verify_all_item_rules glob_match (insp_items l) (combine_links reduced ilinks)) as [[]|e];
      [|discriminate]. cbn [bind] in H1. auto.
  Qed.

  (** the material rules of an item, when they are a closed list over a referenced link *)
  Lemma items_closed_materials : forall items ls name em ep d prev req item pl,
    verify_all_item_rules glob_match items ls = Ok tt ->
    In (name, em, ep) items -> em = closed_rules d prev req ->
    lookup name ls = Some item -> lookup prev ls = Some pl ->
    (forall f, In f req -> In f (keys (l_materials item))) /\
    (forall a hs, lookup a (l_materials item) = Some hs ->
       exists hd, lookup a (arts d pl) = Some hd /\ py_eqb hs hd = true).
  Proof.
    intros items ls name em ep d prev req item pl Hall Hin -> Hitem Hpl.
    apply (both_lists glob_match) in Hall. rewrite Forall_forall in Hall.
    specialize (Hall _ Hin). cbn beta iota in Hall. destruct Hall as [[q Hq] _].
    unfold verify_item_rules in Hq. rewrite Hitem in Hq.
    apply (closed_rules_iff Materials item ls d prev req pl Hpl). eauto.
  Qed.

  (** C04, soundness direction, for steps: if verification accepts a layout in which step [s]'s material
      rules are the closed list over the products of step [prev], then the link evaluated for [s] lists as
      materials only artifacts that the link evaluated for [prev] lists as products with an identical
      hash record, and every required name is among them. *)
  Theorem accept_implies_step_boundary : forall files recs missing a sum tr,
    vbody files recs missing a = (Ok sum, tr) ->
    exists l reduced,
      (exists vm, stage_pre b64dec loads sig_ok now_s now_us files a = Ok (l, vm)) /\
      forall s prev req, In s (ly_steps l) -> st_em s = closed_rules Products prev req ->
        forall item pl, lookup (st_name s) reduced = Some item -> lookup prev reduced = Some pl ->
          (forall f, In f req -> In f (keys (l_materials item))) /\
          (forall p hs, lookup p (l_materials item) = Some hs ->
             exists hd, lookup p (l_products pl) = Some hd /\ py_eqb hs hd = true).
  Proof.
    intros files recs missing a sum tr H.
    destruct (verify_body_accept_inv _ _ _ _ _ _ H) as (l & vm & chain & tr1 & reduced & Hp & Hs & Hm & Hf).
    exists l, reduced. split; [eauto|].
    intros s prev req Hin Hem item pl Hitem Hpl.
    destruct (stage_mid_inv _ _ _ Hm) as (_ & _ & Hrules).
    apply (items_closed_materials (step_items l) reduced (st_name s) (st_em s) (st_ep s) Products prev req item pl Hrules);
      try assumption.
    unfold step_items. apply in_map_iff. exists s. split; [reflexivity | assumption].
  Qed.

  (** ... and for the final product: an inspection whose material rules are the closed list over the last
      step's products only passes if what the inspection recorded in the verifier's directory equals it *)
  Theorem accept_implies_final_boundary : forall files recs missing a sum tr,
    vbody files recs missing a = (Ok sum, tr) ->
    exists l reduced ilinks,
      (exists vm, stage_pre b64dec loads sig_ok now_s now_us files a = Ok (l, vm)) /\
      forall i last req, In i (ly_inspect l) -> in_em i = closed_rules Products last req ->
        forall item pl, lookup (in_name i) (combine_links reduced ilinks) = Some item ->
                        lookup last (combine_links reduced ilinks) = Some pl ->
          (forall f, In f req -> In f (keys (l_materials item))) /\
          (forall p hs, lookup p (l_materials item) = Some hs ->
             exists hd, lookup p (l_products pl) = Some hd /\ py_eqb hs hd = true).
  Proof.
    intros files recs missing a sum tr H.
    destruct (verify_body_accept_inv _ _ _ _ _ _ H) as (l & vm & chain & tr1 & reduced & Hp & Hs & Hm & Hf).
    destruct (stage_final_inv _ _ _ _ _ _ Hf) as (ilinks & _ & Hrules & _).
    exists l, reduced, ilinks. split; [eauto|].
    intros i last req Hin Hem item pl Hitem Hpl.
    apply (items_closed_materials (insp_items l) (combine_links reduced ilinks) (in_name i) (in_em i) (in_ep i)
             Products last req item pl Hrules); try assumption.
    unfold insp_items. apply in_map_iff. exists i. split; [reflexivity | assumption].
  Qed.

  (** contrapositive used as "tamper is detected": a boundary whose two maps differ cannot be accepted *)
  Corollary boundary_difference_rejects : forall files recs missing a l vm chain tr1 reduced s prev item pl,
    stage_pre b64dec loads sig_ok now_s now_us files a = Ok (l, vm) ->
    subs_steps recs missing l vm [] = (Ok chain, tr1) ->
    verify_threshold_constraints l chain = Ok tt -> reduce_chain_links chain = Ok reduced ->
    In s (ly_steps l) -> st_em s = closed_rules Products prev (keys (l_products pl)) ->
    lookup (st_name s) reduced = Some item -> lookup prev reduced = Some pl ->
    ~ same_artifacts (l_materials item) (l_products pl) ->
    forall sum tr, vbody files recs missing a <> (Ok sum, tr).
  Proof.
    intros files recs missing a l vm chain tr1 reduced s prev item pl Hp Hs Ht Hr Hin Hem Hitem Hpl Hdiff sum tr H.
    destruct (verify_body_accept_inv _ _ _ _ _ _ H) as (l' & vm' & chain' & tr1' & reduced' & Hp' & Hs' & Hm' & _).
    rewrite Hp in Hp'. inversion Hp'; subst l' vm'. rewrite Hs in Hs'. inversion Hs'; subst chain' tr1'.
    destruct (stage_mid_inv _ _ _ Hm') as (_ & Hr' & Hrules). rewrite Hr in Hr'. inversion Hr'; subst reduced'.
    apply Hdiff. apply (closed_rules_equal_maps Materials item reduced Products prev pl Hpl).
    apply (both_lists glob_match) in Hrules. rewrite Forall_forall in Hrules.
    assert (In (st_name s, st_em s, st_ep s) (step_items l)) as Hi.
    { unfold step_items. apply in_map_iff. exists s. auto. }
    specialize (Hrules _ Hi). cbn beta iota in Hrules. destruct Hrules as [[q Hq] _].
    unfold verify_item_rules in Hq. rewrite Hitem, Hem in Hq. eauto.
  Qed.
End Chain.
