(** RecordProofs.v — structure of in_toto_record_stop, guard, order, crash invariant, retry,
    isolation (C12).  The content half (C12_result) is in RecordResult.v. *)
From InToto.Model Require Import Base Json Strs Utf8 Canon Glob Rules Meta Record.
From InToto.Proofs Require Import RecordFs RecordGlob.
From Coq Require Import Permutation.

Arguments dset : simpl never.
Arguments dget : simpl never.
Arguments drem : simpl never.

Section WithOracles.
  Variable sign : str -> list N -> res (list N).
  Variable gpg_sign : option str -> list N -> res json.
  Variable export_pubkey : str -> res json.
  Variable sig_ok : str -> list N -> str -> bool.
  Variable dumps : bool -> json -> list N.
  Variable loads : list N -> option json.
  Variable b64enc : list N -> str.
  Variable b64dec : str -> option (list N).
  Variable now_s : Z.

  Notation stop := (record_stop sign gpg_sign export_pubkey sig_ok dumps loads b64enc b64dec now_s).
  Notation compute := (stop_compute sign gpg_sign export_pubkey sig_ok dumps loads b64enc b64dec now_s).
  Notation build := (build_signed sign gpg_sign dumps loads b64enc).
  Notation start := (record_start sign gpg_sign dumps loads b64enc).

  (* ---------------------------------------------------------------- *)
  (** * Inversion of the stop computation                               *)

  Lemma stop_compute_inv : forall prods a br u pre w,
    compute prods a br u pre = Ok w ->
    exists data md vkey kid l pr sg md' j k',
      loads pre = Some data /\ from_dict b64dec loads data = Ok md /\
      stop_key export_pubkey br md = Ok (vkey, kid) /\
      verify_signature sig_ok now_s md vkey = Ok tt /\ get_payload md = Ok (PLink l) /\ prods = Ok pr /\
      stop_signer br vkey kid = Ok sg /\ build (is_dsse md) (finish_link l pr a) sg = Ok (md', j, k') /\
      w = mkWritten u (final_path a kid) md' j (dump_bytes dumps md' j).
  Proof.
    intros prods a br u pre w H. unfold stop_compute in H.
    destruct (loads pre) as [data|] eqn:EL; [|discriminate H].
    inv_bind H. simpl in E. inversion E; subst x; clear E.
    inv_bind H. rename x into md. inv_bind H. destruct x as [vkey kid]. simpl in H.
    inv_bind H. destruct x. inv_bind H. destruct x as [l|ly]; [|discriminate H].
    inv_bind H. rename x into pr. inv_bind H. rename x into sg. inv_bind H.
    destruct x as [[md' j] k']. inversion H; subst w; clear H.
    exists data, md, vkey, kid, l, pr, sg, md', j, k'. repeat split; assumption.
  Qed.

  Lemma stop_inv : forall prods d a r ops,
    stop prods d a = (r, ops) ->
    (exists e, r = Err e /\ (ops = [] \/ exists u, ops = [Read u])) \/
    (exists w br st, r = Ok w /\ ops = stop_ops w /\ stop_prepare d a = Ok (br, w_unfinished w) /\
                     dget d (w_unfinished w) = Some st /\ compute prods a br (w_unfinished w) (fbytes st) = Ok w).
  Proof.
    intros prods d a r ops H. unfold record_stop in H.
    destruct (stop_prepare d a) as [[br u]|e] eqn:EP.
    - destruct (dget d u) as [st|] eqn:EG.
      + destruct (compute prods a br u (fbytes st)) as [w|e] eqn:EC.
        * inversion H; subst. right. exists w, br, st.
          destruct (stop_compute_inv _ _ _ _ _ _ EC) as (data & md & vkey & kid & l & pr & sg & md' & j & k' & _ & _ & _ & _ & _ & _ & _ & _ & Ew).
          assert (Eu : w_unfinished w = u) by (subst w; reflexivity).
          rewrite Eu. repeat split; assumption.
        * inversion H; subst. left. exists e. split; [reflexivity|]. right. exists u. reflexivity.
      + inversion H; subst. left. exists EIOError. split; [reflexivity|]. right. exists u. reflexivity.
    - inversion H; subst. left. exists e. split; [reflexivity|]. left. reflexivity.
  Qed.

  (* ---------------------------------------------------------------- *)
  (** * The two names differ                                            *)

  Lemma prepare_last : forall d a br u, stop_prepare d a = Ok (br, u) -> last u 0%N = 100%N.
  Proof.
    intros d a br u H. unfold stop_prepare in H.
    inv_bind H. inv_bind H. inv_bind H.
    destruct x as [p|key|kid|].
    - inv_bind H. inversion H; subst. apply unfinished_name_last.
    - inv_bind H. inversion H; subst. apply unfinished_name_last.
    - inv_bind H. destruct (has_sep (sa_step a)) eqn:S.
      + rewrite glob_unfinished_sep in E2 by assumption. discriminate.
      + rewrite glob_unfinished_eq in E2 by assumption. inversion E2; subst x; clear E2.
        destruct (filter (unf_pred (sa_step a)) (dnames d)) as [|v [|v' t]] eqn:F; try discriminate.
        inversion H; subst v. assert (I : In u (filter (unf_pred (sa_step a)) (dnames d))) by (rewrite F; left; reflexivity).
        apply filter_In in I. apply (unf_pred_last (sa_step a)). apply I.
    - inv_bind H. destruct (has_sep (sa_step a)) eqn:S.
      + rewrite glob_unfinished_sep in E2 by assumption. discriminate.
      + rewrite glob_unfinished_eq in E2 by assumption. inversion E2; subst x; clear E2.
        destruct (filter (unf_pred (sa_step a)) (dnames d)) as [|v [|v' t]] eqn:F; try discriminate.
        inversion H; subst v. assert (I : In u (filter (unf_pred (sa_step a)) (dnames d))) by (rewrite F; left; reflexivity).
        apply filter_In in I. apply (unf_pred_last (sa_step a)). apply I.
  Qed.

  Lemma final_path_last : forall a kid, last (final_path a kid) 0%N = 107%N.
  Proof.
    intros a kid. unfold final_path. destruct (sa_mdir a).
    - rewrite posix_join_last by apply final_name_ne. apply final_name_last.
    - apply final_name_last.
  Qed.

  Lemma stop_names_differ : forall prods d a w ops, stop prods d a = (Ok w, ops) -> w_unfinished w <> w_final w.
  Proof.
    intros prods d a w ops H. apply stop_inv in H. destruct H as [(e & H & _)|(w' & br & st & Hw & _ & HP & _ & HC)]; [discriminate|].
    inversion Hw; subst w'. apply prepare_last in HP.
    destruct (stop_compute_inv _ _ _ _ _ _ HC) as (data & md & vkey & kid & l & pr & sg & md' & j & k' & _ & _ & _ & _ & _ & _ & _ & _ & Ew).
    intro E. assert (F : last (w_final w) 0%N = 107%N) by (rewrite Ew; apply final_path_last).
    rewrite <- E, HP in F. discriminate.
  Qed.

  (* ---------------------------------------------------------------- *)
  (** * Guard: an error means nothing was written                       *)

  Lemma stop_err_no_write : forall prods d a e ops,
    stop prods d a = (Err e, ops) -> forallb is_read ops = true /\ apply d ops = d.
  Proof.
    intros prods d a e ops H. apply stop_inv in H.
    destruct H as [(e' & _ & [->|[u ->]])|(w & br & st & Hw & _)]; [split; reflexivity | split; reflexivity | discriminate].
  Qed.

  (** no success without a verified preliminary record *)
  Lemma stop_ok_verified : forall prods d a w ops,
    stop prods d a = (Ok w, ops) ->
    exists st data md vkey kid br,
      dget d (w_unfinished w) = Some st /\ loads (fbytes st) = Some data /\ from_dict b64dec loads data = Ok md /\
      stop_prepare d a = Ok (br, w_unfinished w) /\
      stop_key export_pubkey br md = Ok (vkey, kid) /\ verify_signature sig_ok now_s md vkey = Ok tt.
  Proof.
    intros prods d a w ops H. apply stop_inv in H.
    destruct H as [(e & H & _)|(w' & br & st & Hw & _ & HP & HG & HC)]; [discriminate|].
    inversion Hw; subst w'.
    destruct (stop_compute_inv _ _ _ _ _ _ HC) as (data & md & vkey & kid & l & pr & sg & md' & j & k' & H1 & H2 & H3 & H4 & _).
    exists st, data, md, vkey, kid, br. repeat split; assumption.
  Qed.

  (** the four causes named by the property *)
  Lemma stop_missing : forall prods d a br u,
    stop_prepare d a = Ok (br, u) -> dget d u = None -> stop prods d a = (Err EIOError, [Read u]).
  Proof. intros prods d a br u HP HG. unfold record_stop. rewrite HP, HG. reflexivity. Qed.

  Lemma stop_unparsable : forall prods d a br u st,
    stop_prepare d a = Ok (br, u) -> dget d u = Some st -> loads (fbytes st) = None ->
    stop prods d a = (Err EValueError, [Read u]).
  Proof.
    intros prods d a br u st HP HG HL. unfold record_stop. rewrite HP, HG.
    unfold stop_compute. rewrite HL. reflexivity.
  Qed.

  Lemma stop_unverified : forall prods d a br u st data md,
    stop_prepare d a = Ok (br, u) -> dget d u = Some st -> loads (fbytes st) = Some data ->
    from_dict b64dec loads data = Ok md ->
    (forall vkey kid, stop_key export_pubkey br md = Ok (vkey, kid) -> verify_signature sig_ok now_s md vkey <> Ok tt) ->
    exists e, stop prods d a = (Err e, [Read u]).
  Proof.
    intros prods d a br u st data md HP HG HL HF HV. unfold record_stop. rewrite HP, HG.
    destruct (compute prods a br u (fbytes st)) as [w|e] eqn:EC; [|exists e; reflexivity].
    exfalso. destruct (stop_compute_inv _ _ _ _ _ _ EC) as (data' & md0 & vkey & kid & l & pr & sg & md' & j & k' & H1 & H2 & H3 & H4 & _).
    rewrite HL in H1. inversion H1; subst data'. rewrite HF in H2. inversion H2; subst md0.
    apply (HV vkey kid H3 H4).
  Qed.

  (* ---------------------------------------------------------------- *)
  (** * Order                                                           *)

  Lemma stop_ok_ops : forall prods d a w ops,
    stop prods d a = (Ok w, ops) ->
    ops = [Read (w_unfinished w); OpenTrunc (w_final w); Write (w_final w) (w_bytes w); Close (w_final w);
           Remove (w_unfinished w)].
  Proof.
    intros prods d a w ops H. apply stop_inv in H.
    destruct H as [(e & H & _)|(w' & br & st & Hw & Ho & _)]; [discriminate|]. inversion Hw; subst. reflexivity.
  Qed.

  (** every removal is the last operation, removes the preliminary file, and comes after the close
      that completed the final link with all its bytes *)
  Lemma stop_order : forall prods d a w ops i g,
    stop prods d a = (Ok w, ops) -> nth_error ops i = Some (Remove g) ->
    g = w_unfinished w /\ S i = length ops /\
    exists c, c < i /\ nth_error ops c = Some (Close (w_final w)) /\
              dget (apply d (firstn (S c) ops)) (w_final w) = Some (Complete (w_bytes w)) /\
              forallb (fun o => match o with Remove _ => false | _ => true end) (firstn i ops) = true.
  Proof.
    intros prods d a w ops i g H Hn. rewrite (stop_ok_ops _ _ _ _ _ H) in *.
    destruct i as [|[|[|[|[|i]]]]]; simpl in Hn; try discriminate.
    - inversion Hn; subst g. split; [reflexivity|]. split; [reflexivity|].
      exists 3. split; [lia|]. split; [reflexivity|]. split; [|reflexivity].
      unfold apply. simpl. rewrite dget_dset_same. simpl. rewrite dget_dset_same. simpl. apply dget_dset_same.
    - destruct i; discriminate.
  Qed.

  (* ---------------------------------------------------------------- *)
  (** * Crash invariant                                                 *)

  (** in a directory state: the preliminary record is untouched, or the final link is complete *)
  Definition safe (d0 : dirstate) (w : written) (dc : dirstate) : Prop :=
    dget dc (w_unfinished w) = dget d0 (w_unfinished w) \/
    dget dc (w_final w) = Some (Complete (w_bytes w)).

  Lemma stop_crash_safe : forall prods d a w ops k j,
    stop prods d a = (Ok w, ops) -> safe d w (apply_partial d ops k j).
  Proof.
    intros prods d a w ops k j H. pose proof (stop_names_differ _ _ _ _ _ H) as N.
    rewrite (stop_ok_ops _ _ _ _ _ H).
    destruct (cut_cases (w_unfinished w) (w_final w) (w_bytes w) N d k j) as [[H1 _]|[_ [H2 _]]]; [left|right]; assumption.
  Qed.

  Lemma stop_exc_safe : forall prods d a w ops k j,
    stop prods d a = (Ok w, ops) -> safe d w (apply_exc d ops k j).
  Proof.
    intros prods d a w ops k j H. pose proof (stop_names_differ _ _ _ _ _ H) as N.
    rewrite (stop_ok_ops _ _ _ _ _ H).
    destruct (exc_cases (w_unfinished w) (w_final w) (w_bytes w) N d k j) as [H1|[H2 _]]; [left|right]; assumption.
  Qed.

  Lemma crash_states_safe : forall prods d a w ops,
    stop prods d a = (Ok w, ops) -> Forall (safe d w) (crash_states d ops).
  Proof.
    intros prods d a w ops H. unfold crash_states. apply Forall_forall. intros dc I.
    apply in_map_iff in I. destruct I as [[k j] [E _]]. subst dc. simpl. eapply stop_crash_safe; eassumption.
  Qed.

  (** only the files named in the operation list change at all *)
  Lemma In_firstn' : forall (A : Type) (l : list A) n x, In x (firstn n l) -> In x l.
  Proof.
    induction l as [|y l IH]; intros n x H; destruct n; simpl in H; try contradiction.
    destruct H as [->|H]; [left; reflexivity | right; eapply IH; eassumption].
  Qed.

  Lemma apply_partial_other : forall d ops k j g,
    Forall (fun o => op_file o <> g) ops -> dget (apply_partial d ops k j) g = dget d g.
  Proof.
    intros d ops k j g F. unfold apply_partial.
    assert (F1 : Forall (fun o => op_file o <> g) (firstn k ops)).
    { apply Forall_forall. intros o I. rewrite Forall_forall in F. apply F. eapply In_firstn'; eassumption. }
    destruct j as [n|]; [|apply apply_other; assumption].
    destruct (nth_error ops k) as [[f|f|f c|f|f]|] eqn:E; try (apply apply_other; assumption).
    rewrite apply_op_other; [apply apply_other; assumption|].
    apply nth_error_In in E. rewrite Forall_forall in F. apply (F _ E).
  Qed.

  Lemma open_file_In : forall l cur f, open_file l cur = Some f -> cur = Some f \/ In (OpenTrunc f) l.
  Proof.
    induction l as [|o l IH]; intros cur f H; simpl in H; [left; assumption|].
    destruct o as [g|g|g c|g|g]; try (destruct (IH _ _ H) as [H1|H1]; [left; assumption | right; right; assumption]).
    - destruct (IH _ _ H) as [H1|H1]; [inversion H1; subst; right; left; reflexivity | right; right; assumption].
    - destruct (IH _ _ H) as [H1|H1]; [discriminate | right; right; assumption].
  Qed.

  Lemma apply_exc_other : forall d ops k j g,
    Forall (fun o => op_file o <> g) ops -> dget (apply_exc d ops k j) g = dget d g.
  Proof.
    intros d ops k j g F. unfold apply_exc.
    destruct (open_file (firstn k ops) None) as [f|] eqn:E; [|apply apply_partial_other; assumption].
    rewrite apply_op_other; [apply apply_partial_other; assumption|].
    apply open_file_In in E. destruct E as [E|E]; [discriminate|].
    apply In_firstn' in E. rewrite Forall_forall in F. apply (F _ E).
  Qed.

  (* ---------------------------------------------------------------- *)
  (** * What stop reads                                                 *)

  Lemma pick_match : forall (br : branch) l,
    match l with [] => Err ELinkNotFound | [u] => Ok (br, u) | _ :: _ :: _ => Err ELinkNotFound end
    = (do u <- pick l; Ok (br, u)).
  Proof. intros br [|a [|b l]]; reflexivity. Qed.

  Lemma prepare_view : forall d d' a, same_view (sa_step a) d d' -> stop_prepare d a = stop_prepare d' a.
  Proof.
    intros d d' a V. unfold stop_prepare.
    destruct (select_branch (sa_signer a) (sa_signing_key a) (sa_gpg_keyid a) (sa_gpg_default a)) as [br|e]; [|reflexivity].
    simpl. destruct (if opt_truthy (sa_signing_key a) then _ else _) as [[]|e]; [|reflexivity].
    simpl. destruct (if str_truthy (sa_gpg_keyid a) then _ else _) as [[]|e]; [|reflexivity].
    simpl.
    assert (G : glob_unfinished d (sa_step a) = glob_unfinished d' (sa_step a) \/
                exists l l', glob_unfinished d (sa_step a) = Ok l /\ glob_unfinished d' (sa_step a) = Ok l' /\ Permutation l l').
    { destruct (has_sep (sa_step a)) eqn:S.
      - left. rewrite !glob_unfinished_sep by assumption. reflexivity.
      - right. rewrite !glob_unfinished_eq by assumption. eexists. eexists. split; [reflexivity|]. split; [reflexivity|].
        apply view_perm. assumption. }
    destruct br as [p|key|kid|]; try reflexivity.
    - destruct G as [G|(l & l' & G1 & G2 & P)]; [rewrite G; reflexivity|].
      rewrite G1, G2. simpl. rewrite !pick_match. rewrite (pick_perm _ _ P). reflexivity.
    - destruct G as [G|(l & l' & G1 & G2 & P)]; [rewrite G; reflexivity|].
      rewrite G1, G2. simpl. rewrite !pick_match. rewrite (pick_perm _ _ P). reflexivity.
  Qed.

  Lemma stop_agree : forall prods d d' a,
    stop_prepare d a = stop_prepare d' a ->
    (forall br u, stop_prepare d a = Ok (br, u) -> dget d' u = dget d u) ->
    stop prods d' a = stop prods d a.
  Proof.
    intros prods d d' a HP HG. unfold record_stop. rewrite <- HP.
    destruct (stop_prepare d a) as [[br u]|e]; [|reflexivity].
    rewrite (HG br u eq_refl). reflexivity.
  Qed.

  Lemma prepare_unf_pred : forall d a br u,
    stop_prepare d a = Ok (br, u) -> is_gpg_branch br = true -> unf_pred (sa_step a) u = true.
  Proof.
    intros d a br u H G. unfold stop_prepare in H.
    inv_bind H. inv_bind H. inv_bind H.
    destruct x as [p|key|kid|].
    - inv_bind H. inversion H; subst. discriminate.
    - inv_bind H. inversion H; subst. discriminate.
    - inv_bind H. destruct (has_sep (sa_step a)) eqn:S.
      + rewrite glob_unfinished_sep in E2 by assumption. discriminate.
      + rewrite glob_unfinished_eq in E2 by assumption. inversion E2; subst x; clear E2.
        destruct (filter (unf_pred (sa_step a)) (dnames d)) as [|v [|v' t]] eqn:F; try discriminate.
        inversion H; subst v. assert (I : In u (filter (unf_pred (sa_step a)) (dnames d))) by (rewrite F; left; reflexivity).
        apply filter_In in I. apply I.
    - inv_bind H. destruct (has_sep (sa_step a)) eqn:S.
      + rewrite glob_unfinished_sep in E2 by assumption. discriminate.
      + rewrite glob_unfinished_eq in E2 by assumption. inversion E2; subst x; clear E2.
        destruct (filter (unf_pred (sa_step a)) (dnames d)) as [|v [|v' t]] eqn:F; try discriminate.
        inversion H; subst v. assert (I : In u (filter (unf_pred (sa_step a)) (dnames d))) by (rewrite F; left; reflexivity).
        apply filter_In in I. apply I.
  Qed.

  (* ---------------------------------------------------------------- *)
  (** * Retry                                                           *)

  (** whatever is in the place of the final link (nothing, a partial file, an old link): if every
      other file is as it was, stop does exactly the same again *)
  Lemma stop_retry_general : forall prods d a w ops dc,
    stop prods d a = (Ok w, ops) ->
    (forall g, g <> w_final w -> dget dc g = dget d g) ->
    stop prods dc a = (Ok w, ops).
  Proof.
    intros prods d a w ops dc H A. pose proof (stop_names_differ _ _ _ _ _ H) as N.
    rewrite <- H. apply stop_agree.
    - apply prepare_view. intros g P.
      assert (G : g <> w_final w).
      { intro E. subst g. apply unf_pred_last in P.
        pose proof H as H'. apply stop_inv in H'. destruct H' as [(e & H' & _)|(w' & br & st & Hw & _ & _ & _ & HC)]; [discriminate|].
        inversion Hw; subst w'.
        destruct (stop_compute_inv _ _ _ _ _ _ HC) as (data & md & vkey & kid & l & pr & sg & md' & j & k' & _ & _ & _ & _ & _ & _ & _ & _ & Ew).
        rewrite Ew in P. simpl in P. rewrite final_path_last in P. discriminate. }
      rewrite (A g G). tauto.
    - intros br u HP. apply A.
      pose proof H as H'. apply stop_inv in H'. destruct H' as [(e & H' & _)|(w' & br' & st & Hw & _ & HP' & _)]; [discriminate|].
      inversion Hw; subst w'. rewrite HP in HP'. inversion HP'; subst. assumption.
  Qed.

  Lemma stop_ops_files : forall w g, g <> w_unfinished w -> g <> w_final w ->
    Forall (fun o => op_file o <> g) (stop_ops w).
  Proof. intros w g G1 G2. unfold stop_ops. repeat constructor; simpl; congruence. Qed.

  (** from every crash state (cut anywhere, also inside the write) and from every state an I/O
      exception leaves, provided the preliminary record is still there: stop succeeds again with the
      same result and ends in the state of an undisturbed run *)
  Lemma stop_retry : forall prods d a w ops dc,
    stop prods d a = (Ok w, ops) ->
    (exists k j, dc = apply_partial d ops k j \/ dc = apply_exc d ops k j) ->
    dget dc (w_unfinished w) = dget d (w_unfinished w) ->
    stop prods dc a = (Ok w, ops) /\
    dget (apply dc ops) (w_final w) = Some (Complete (w_bytes w)) /\
    dget (apply dc ops) (w_unfinished w) = None /\
    forall g, g <> w_unfinished w -> g <> w_final w -> dget (apply dc ops) g = dget d g.
  Proof.
    intros prods d a w ops dc H (k & j & Hdc) Hu.
    pose proof (stop_names_differ _ _ _ _ _ H) as N.
    pose proof (stop_ok_ops _ _ _ _ _ H) as Eo.
    assert (A : forall g, g <> w_final w -> dget dc g = dget d g).
    { intros g G. destruct (str_eq_dec g (w_unfinished w)) as [->|G'].
      - assumption.
      - assert (F : Forall (fun o => op_file o <> g) ops) by (rewrite Eo; apply stop_ops_files; assumption).
        destruct Hdc as [->| ->]; [apply apply_partial_other | apply apply_exc_other]; assumption. }
    split; [eapply stop_retry_general; eassumption|].
    rewrite Eo. destruct (full_run (w_unfinished w) (w_final w) (w_bytes w) N dc) as (F1 & F2 & F3).
    split; [assumption|]. split; [assumption|].
    intros g G1 G2. rewrite F3 by assumption. apply A. assumption.
  Qed.

  (* ---------------------------------------------------------------- *)
  (** * Isolation, abstractly: calls confined to disjoint sets of names *)

  Definition agree (S : fname -> Prop) (d d' : dirstate) : Prop := forall g, S g -> dget d g = dget d' g.

  Lemma apply_op_agree_at : forall d d' o g,
    dget d g = dget d' g -> dget (apply_op d o) g = dget (apply_op d' o) g.
  Proof.
    intros d d' o g H. destruct (str_eq_dec (op_file o) g) as [E|E].
    - destruct o as [f|f|f c|f|f]; simpl in E; subst f; simpl.
      + assumption.
      + rewrite !dget_dset_same. reflexivity.
      + rewrite H. destruct (dget d' g); rewrite !dget_dset_same; reflexivity.
      + rewrite H. destruct (dget d' g) as [[b|b]|] eqn:Eg; try congruence.
        rewrite !dget_dset_same. reflexivity.
      + rewrite !dget_drem_same. reflexivity.
    - rewrite !apply_op_other by assumption. assumption.
  Qed.

  Lemma apply_agree : forall S ops d d', agree S d d' -> agree S (apply d ops) (apply d' ops).
  Proof.
    intros S. induction ops as [|o ops IH]; intros d d' A; [assumption|].
    unfold apply in *. simpl. apply IH. intros g G. apply apply_op_agree_at. apply A. assumption.
  Qed.

  Definition call := dirstate -> list fsop.
  Definition touches_only (S : fname -> Prop) (ops : list fsop) : Prop := Forall (fun o => S (op_file o)) ops.
  (** a call is confined to S: it touches only names in S and its behaviour depends only on them *)
  Definition confined (S : fname -> Prop) (c : call) : Prop :=
    (forall d, touches_only S (c d)) /\ (forall d d', agree S d d' -> c d = c d').

  (** run a schedule of calls; collect the operation lists of those flagged [true] *)
  Fixpoint run_calls (d : dirstate) (cs : list (bool * call)) : dirstate * list (list fsop) :=
    match cs with
    | [] => (d, [])
    | (b, c) :: cs' =>
        let ops := c d in
        let '(d', tr) := run_calls (apply d ops) cs' in
        (d', if b then ops :: tr else tr)
    end.

  Lemma isolation_abstract : forall (S : fname -> Prop) (cs : list (bool * call)),
    (forall b c, In (b, c) cs ->
       exists S', confined S' c /\ if b then (forall g, S' g -> S g) else (forall g, S' g -> ~ S g)) ->
    forall d d', agree S d d' ->
    agree S (fst (run_calls d cs)) (fst (run_calls d' (filter fst cs))) /\
    snd (run_calls d cs) = snd (run_calls d' (filter fst cs)).
  Proof.
    intros S. induction cs as [|[b c] cs IH]; intros HC d d' A; simpl; [split; [assumption | reflexivity]|].
    assert (HC' : forall b0 c0, In (b0, c0) cs ->
       exists S', confined S' c0 /\ if b0 then (forall g, S' g -> S g) else (forall g, S' g -> ~ S g))
      by (intros; apply HC; right; assumption).
    destruct (HC b c (or_introl eq_refl)) as (S' & [T R] & Hb).
    destruct b; simpl.
    - assert (E : c d = c d') by (apply R; intros g G; apply A; apply Hb; assumption).
      rewrite <- E.
      destruct (IH HC' (apply d (c d)) (apply d' (c d)) (apply_agree S (c d) d d' A)) as [I1 I2].
      destruct (run_calls (apply d (c d)) cs) as [d1 t1]. destruct (run_calls (apply d' (c d)) (filter fst cs)) as [d2 t2].
      simpl in *. split; [assumption | congruence].
    - assert (A' : agree S (apply d (c d)) d').
      { intros g G. rewrite apply_other; [apply A; assumption|].
        specialize (T d). unfold touches_only in T. rewrite Forall_forall in *. intros o I E.
        apply (Hb (op_file o)); [apply T; assumption | rewrite E; assumption]. }
      destruct (IH HC' (apply d (c d)) d' A') as [I1 I2].
      destruct (run_calls (apply d (c d)) cs) as [d1 t1]. simpl in *. split; assumption.
  Qed.

  (** the concrete calls are confined *)
  Definition stop_call (prods : res amap) (a : stop_args) : call := fun d => snd (stop prods d a).
  Definition start_call (mats : res amap) (cwd : str) (a : start_args) : call := fun _ => snd (start mats cwd a).

End WithOracles.
