(** SkelSound.v — the abstract interpreter of Model/Skel.v is sound for the trace semantics,
    once and for all skeletons, monitors and valuations of the stable conditions:

      absint_sound : exec rho s t o -> absint M fuel s q = Some R -> In (o, run M q t) R
      check_sound / checkL_sound / checkG_sound : a checker that says [true] holds on every trace

    and what each monitor's accepting states mean for the trace (used by Props/C15.v, C18.v). *)
From InToto.Model Require Import Base Skel.

(** * Finite sets as lists *)
Lemma outcome_eqb_eq : forall a b, outcome_eqb a b = true <-> a = b.
Proof.
  destruct a, b; simpl; split; intro H; try reflexivity; try discriminate.
  - apply Z.eqb_eq in H. congruence.
  - inversion H. apply Z.eqb_refl.
Qed.

Lemma aout_eqb_eq : forall x y, aout_eqb x y = true <-> x = y.
Proof.
  intros [o q] [o' q']. unfold aout_eqb. simpl. rewrite andb_true_iff, outcome_eqb_eq, N.eqb_eq.
  split; [intros [? ?]; congruence | intro H; inversion H; auto].
Qed.

Lemma amem_In : forall x l, amem x l = true <-> In x l.
Proof.
  induction l as [|y l IH]; simpl; [split; [discriminate|tauto]|].
  rewrite orb_true_iff, IH, aout_eqb_eq. split; intros [H|H]; auto.
Qed.

Lemma aunion_In : forall x a b, In x (aunion a b) <-> In x a \/ In x b.
Proof.
  induction a as [|y a IH]; intro b; simpl; [tauto|].
  destruct (amem y b) eqn:E.
  - rewrite IH. apply amem_In in E. split; [tauto|]. intros [[H|H]|H]; subst; auto.
  - simpl. rewrite IH. tauto.
Qed.

Lemma nmem_In : forall x l, nmem x l = true <-> In x l.
Proof.
  induction l as [|y l IH]; simpl; [split; [discriminate|tauto]|].
  rewrite orb_true_iff, IH, N.eqb_eq. split; intros [H|H]; auto.
Qed.

Lemma nunion_In : forall x a b, In x (nunion a b) <-> In x a \/ In x b.
Proof.
  induction a as [|y a IH]; intro b; simpl; [tauto|].
  destruct (nmem y b) eqn:E.
  - rewrite IH. apply nmem_In in E. split; [tauto|]. intros [[H|H]|H]; subst; auto.
  - simpl. rewrite IH. tauto.
Qed.

Lemma ounion_In : forall A (f : A -> option (list aout)) l R x,
  ounion f l = Some R -> In x l -> exists Rx, f x = Some Rx /\ incl Rx R.
Proof.
  induction l as [|y l IH]; intros R x H Hin; [contradiction|].
  simpl in H. destruct (f y) as [a|] eqn:Ef; [|discriminate].
  destruct (ounion f l) as [b|] eqn:Eu; [|discriminate]. inversion H; subst R.
  destruct Hin as [->|Hin].
  - exists a. split; [assumption|]. intros z Hz. apply aunion_In. auto.
  - destruct (IH b x eq_refl Hin) as [Rx [H1 H2]]. exists Rx. split; [assumption|].
    intros z Hz. apply aunion_In. right. apply H2. assumption.
Qed.

Lemma Some_inj : forall A (x y : A), Some x = Some y -> x = y.
Proof. intros A x y H. inversion H. reflexivity. Qed.

Lemma obind_Some : forall A B (x : option A) (f : A -> option B) r,
  obind x f = Some r -> exists a, x = Some a /\ f a = Some r.
Proof. intros A B [a|] f r H; [exists a; auto | discriminate]. Qed.

Lemma run_app : forall M q t1 t2, run M q (t1 ++ t2) = run M (run M q t1) t2.
Proof. intros. unfold run. apply fold_left_app. Qed.

Lemma run_cons : forall M q e t, run M q (e :: t) = run M (M q e) t.
Proof. reflexivity. Qed.

(** * Soundness of the abstract interpreter *)
Section Sound.
Variable rho : str -> bool.
Variable M : mon.
Variable fuel : nat.

Definition sound_for (s : skel) (fs : N -> option (list aout)) : Prop :=
  forall t o, exec rho s t o -> forall q R, fs q = Some R -> In (o, run M q t) R.

Lemma iter_next_all_In : forall fb l Iv J q,
  iter_next_all M fb l Iv = Some J -> In q Iv ->
  exists a, iter_next M fb l q = Some a /\ incl a J.
Proof.
  induction Iv as [|y Iv IH]; intros J q H Hin; [contradiction|].
  simpl in H. destruct (iter_next M fb l y) as [a|] eqn:Ea; [|discriminate].
  destruct (iter_next_all M fb l Iv) as [b|] eqn:Eb; [|discriminate]. inversion H; subst J.
  destruct Hin as [->|Hin].
  - exists a. split; [assumption|]. intros z Hz. apply nunion_In. auto.
  - destruct (IH b q eq_refl Hin) as [a' [H1 H2]]. exists a'. split; [assumption|].
    intros z Hz. apply nunion_In. right. auto.
Qed.

Lemma loop_sound : forall l b e fb fe,
  sound_for b fb -> sound_for e fe ->
  forall Iv Re Rx,
    closed M fb l Iv = true ->
    ounion fe Iv = Some Re ->
    ounion (iter_exit M fb l) Iv = Some Rx ->
    forall t o, exec rho (Loop l b e) t o ->
    forall q, In q Iv -> In (o, run M q t) (aunion Re Rx).
Proof.
  intros l b e fb fe Hb He Iv Re Rx Hcl HRe HRx t o Hex.
  remember (Loop l b e) as s eqn:Es.
  induction Hex; inversion Es; subst; clear Es; intros q Hq.
  - (* end of loop: else clause *)
    destruct (ounion_In _ _ _ _ _ HRe Hq) as [A [HA Hincl]].
    apply aunion_In. left. apply Hincl. eapply He; eassumption.
  - (* one iteration, then the rest *)
    unfold closed in Hcl.
    destruct (iter_next_all M fb l Iv) as [J|] eqn:EJ; [|discriminate].
    destruct (iter_next_all_In _ _ _ _ _ EJ Hq) as [a [Ha Hincl]].
    unfold iter_next in Ha. destruct (fb (M q (EIter l))) as [R'|] eqn:ER; [|discriminate].
    inversion Ha; subst a.
    assert (Hin : In (o1, run M (M q (EIter l)) t1) R') by (eapply Hb; eassumption).
    assert (Hq1 : In (run M (M q (EIter l)) t1) Iv).
    { rewrite forallb_forall in Hcl. apply nmem_In. apply Hcl. apply Hincl.
      apply in_map_iff. exists (o1, run M (M q (EIter l)) t1). split; [reflexivity|].
      apply filter_In. split; assumption. }
    rewrite run_cons, run_app. apply IHHex2; [reflexivity | assumption].
  - (* break *)
    destruct (ounion_In _ _ _ _ _ HRx Hq) as [A [HA Hincl]].
    unfold iter_exit in HA. destruct (fb (M q (EIter l))) as [R'|] eqn:ER; [|discriminate].
    inversion HA; subst A. apply aunion_In. right. apply Hincl. apply aunion_In. right.
    rewrite run_cons. apply in_map_iff. exists (OBroke, run M (M q (EIter l)) t1).
    split; [reflexivity|]. apply filter_In. split; [|reflexivity]. eapply Hb; eassumption.
  - (* the iteration leaves the loop *)
    destruct (ounion_In _ _ _ _ _ HRx Hq) as [A [HA Hincl]].
    unfold iter_exit in HA. destruct (fb (M q (EIter l))) as [R'|] eqn:ER; [|discriminate].
    inversion HA; subst A. apply aunion_In. right. apply Hincl. apply aunion_In. left.
    rewrite run_cons. apply filter_In. split; [|assumption]. eapply Hb; eassumption.
Qed.

Lemma fin_abs_In : forall f ff P R o q2 t3 o3,
  sound_for f ff -> fin_abs ff P = Some R -> In (o, q2) P -> exec rho f t3 o3 ->
  In (fin_out o o3, run M q2 t3) R.
Proof.
  intros f ff P R o q2 t3 o3 Hf HR Hin Hex. unfold fin_abs in HR.
  destruct (ounion_In _ _ _ _ _ HR Hin) as [A [HA Hincl]]. simpl in HA.
  apply obind_Some in HA. destruct HA as [R3 [H3 HA]]. inversion HA; subst A.
  apply Hincl. apply in_map_iff. exists (o3, run M q2 t3). split; [reflexivity|].
  eapply Hf; eassumption.
Qed.

Theorem absint_sound : forall s, sound_for s (absint M fuel s).
Proof.
  induction s as [ | n | a IHa b IHb | st l a IHa b IHb | l b IHb e IHe
                 | b IHb h IHh c f IHf | b IHb | | | | | c ];
    intros t o Hex q R HR; cbn [absint] in HR.
  - inversion Hex; subst. inversion HR; subst. simpl. auto.
  - inversion Hex; subst; inversion HR; subst; simpl; auto.
  - (* Seq *)
    apply obind_Some in HR. destruct HR as [Ra [HRa HR]].
    inversion Hex; subst.
    + match goal with Ha : exec rho a _ _, Hn : is_normal _ = false |- _ =>
        destruct (ounion_In _ _ _ _ _ HR (IHa _ _ Ha _ _ HRa)) as [A [HA Hincl]];
        cbn beta iota delta [fst snd] in HA; rewrite Hn in HA; injection HA as <-; apply Hincl; simpl; auto
      end.
    + match goal with Ha : exec rho a _ ONormal |- _ =>
        destruct (ounion_In _ _ _ _ _ HR (IHa _ _ Ha _ _ HRa)) as [A [HA Hincl]];
        cbn beta iota delta [fst snd] in HA; apply Hincl; rewrite run_app; eapply IHb; eassumption
      end.
  - (* If *)
    apply obind_Some in HR. destruct HR as [Ra [HRa HR]].
    apply obind_Some in HR. destruct HR as [Rb [HRb HR]]. inversion HR; subst R.
    apply aunion_In. inversion Hex; subst.
    + destruct (rho l); [left; eapply IHa | right; eapply IHb]; eassumption.
    + left. eapply IHa; eassumption.
    + right. eapply IHb; eassumption.
  - (* Loop *)
    unfold loop_abs in HR.
    destruct (grow M (absint M fuel b) l fuel [q]) as [Iv|] eqn:EI; [|discriminate].
    destruct (closed M (absint M fuel b) l Iv) eqn:Ecl; [|discriminate].
    destruct (nmem q Iv) eqn:Eq; [|discriminate]. simpl in HR.
    apply obind_Some in HR. destruct HR as [Re [HRe HR]].
    apply obind_Some in HR. destruct HR as [Rx [HRx HR]]. inversion HR; subst R.
    apply (loop_sound l b e (absint M fuel b) (absint M fuel e) IHb IHe Iv Re Rx Ecl HRe HRx t o Hex).
    apply nmem_In. assumption.
  - (* Try *)
    apply obind_Some in HR. destruct HR as [Rb [HRb HR]].
    apply obind_Some in HR. destruct HR as [P [HP HR]].
    inversion Hex; subst.
    + (* body did not raise *)
      match goal with Hb : exec rho b ?t1 ?o1, Hn : is_raised ?o1 = false |- _ =>
        rewrite run_app; eapply (fin_abs_In f (absint M fuel f) P R); [exact IHf | exact HR | | eassumption];
        destruct (ounion_In _ _ _ _ _ HP (IHb _ _ Hb _ _ HRb)) as [A [HA Hincl]];
        cbn beta iota delta [fst snd] in HA; rewrite Hn in HA; injection HA as <-; apply Hincl; simpl; auto
      end.
    + (* handler *)
      match goal with Hb0 : exec rho b _ ORaised |- _ => rename Hb0 into Hb end.
      match goal with Hh0 : exec rho h _ _ |- _ => rename Hh0 into Hh end.
      rewrite run_app, run_cons, run_app.
      eapply (fin_abs_In f (absint M fuel f) P R); [exact IHf | exact HR | | eassumption].
      destruct (ounion_In _ _ _ _ _ HP (IHb _ _ Hb _ _ HRb)) as [A [HA Hincl]].
      cbn beta iota delta [fst snd is_raised] in HA.
      apply obind_Some in HA. destruct HA as [Rh [HRh HA]].
      assert (Hin : In (o2, run M (M (run M q t1) EHandler) t2) Rh) by (eapply IHh; eassumption).
      apply Hincl. destruct c.
      * cbv iota in HA. apply Some_inj in HA. rewrite <- HA. assumption.
      * cbv iota in HA. apply Some_inj in HA. rewrite <- HA.
        apply aunion_In. right. assumption.
    + (* propagated *)
      match goal with Hb0 : exec rho b _ ORaised |- _ => rename Hb0 into Hb end.
      rewrite run_app.
      eapply (fin_abs_In f (absint M fuel f) P R); [exact IHf | exact HR | | eassumption].
      destruct (ounion_In _ _ _ _ _ HP (IHb _ _ Hb _ _ HRb)) as [A [HA Hincl]].
      cbn beta iota delta [fst snd is_raised] in HA.
      apply obind_Some in HA. destruct HA as [Rh [HRh HA]].
      apply Hincl.
      apply Some_inj in HA. rewrite <- HA.
      apply aunion_In. left. left. reflexivity.
  - (* Scope *)
    apply obind_Some in HR. destruct HR as [Rb [HRb HR]]. inversion HR; subst R.
    inversion Hex; subst. apply in_map_iff. exists (o0, run M q t). split; [reflexivity|].
    eapply IHb; eassumption.
  - inversion Hex; subst. inversion HR; subst. simpl. auto.
  - inversion Hex; subst. inversion HR; subst. simpl. auto.
  - inversion Hex; subst. inversion HR; subst. simpl. auto.
  - inversion Hex; subst. inversion HR; subst. simpl. auto.
  - inversion Hex; subst. inversion HR; subst. simpl. auto.
Qed.

Theorem check_sound : forall acc q0 s,
  check M fuel acc q0 s = true ->
  forall t o, exec rho s t o -> acc (o, run M q0 t) = true.
Proof.
  intros acc q0 s H t o Hex. unfold check in H.
  destruct (absint M fuel s q0) as [R|] eqn:ER; [|discriminate].
  rewrite forallb_forall in H. apply H. eapply absint_sound; eassumption.
Qed.

(** * Resolving stable conditions *)
Definition agrees (g : asg) : Prop := forall l b, lookup l g = Some b -> rho l = b.

Lemma exec_specialise : forall g, agrees g ->
  forall s t o, exec rho s t o -> exec rho (specialise g s) t o.
Proof.
  intros g Hg s t o Hex. induction Hex; simpl; try (econstructor; eassumption).
  - (* stable if *)
    destruct (lookup l g) as [v|] eqn:El.
    + apply Hg in El. rewrite El in IHHex. destruct v; assumption.
    + constructor. destruct (rho l); assumption.
Qed.

Lemma agrees_asg_of : forall labels, agrees (asg_of rho labels).
Proof.
  induction labels as [|l ls IH]; intros l' b H; simpl in H; [discriminate|].
  destruct (eqs l' l) eqn:E.
  - apply eqs_eq in E. subst. inversion H. reflexivity.
  - apply IH. assumption.
Qed.

Lemma asg_of_in_all : forall labels, In (asg_of rho labels) (all_asgs labels).
Proof.
  induction labels as [|l ls IH]; simpl; [auto|].
  apply in_app_iff. destruct (rho l).
  - left. apply in_map_iff. exists (asg_of rho ls). auto.
  - right. apply in_map_iff. exists (asg_of rho ls). auto.
Qed.

Theorem checkL_sound : forall labels acc q0 s,
  checkL M fuel labels acc q0 s = true ->
  forall t o, exec rho s t o -> acc (o, run M q0 t) = true.
Proof.
  intros labels acc q0 s H t o Hex. unfold checkL in H. rewrite forallb_forall in H.
  specialize (H _ (asg_of_in_all labels)).
  eapply check_sound; [eassumption|]. apply exec_specialise; [apply agrees_asg_of | assumption].
Qed.

Theorem checkG_sound : forall g labels acc q0 s,
  agrees g ->
  checkG M fuel g labels acc q0 s = true ->
  forall t o, exec rho s t o -> acc (o, run M q0 t) = true.
Proof.
  intros g labels acc q0 s Hg H t o Hex. unfold checkG in H.
  eapply checkL_sound; [eassumption|]. apply exec_specialise; assumption.
Qed.
End Sound.

Lemma agrees_nil : forall rho, agrees rho [].
Proof. intros rho l b H. discriminate. Qed.

Lemma agrees_one : forall rho l b, rho l = b -> agrees rho [(l, b)].
Proof.
  intros rho l b H l' b' E. simpl in E. destruct (eqs l' l) eqn:El; [|discriminate].
  apply eqs_eq in El. subst. inversion E. reflexivity.
Qed.

(** every call event of a trace names a call that occurs in the skeleton *)
Lemma exec_calls : forall rho s t o, exec rho s t o ->
  forall n ok, In (ECall n ok) t -> In n (calls s).
Proof.
  intros rho s t o Hex. induction Hex; intros n' ok' Hin; simpl in *;
    repeat match goal with
    | Hx : In _ (_ ++ _) |- _ => apply in_app_or in Hx
    | Hx : In _ (_ :: _) |- _ => destruct Hx
    | Hx : _ \/ _ |- _ => destruct Hx
    | Hx : ECall _ _ = ECall _ _ |- _ => inversion Hx; subst; clear Hx
    | Hx : EHandler = ECall _ _ |- _ => discriminate Hx
    | Hx : EIter _ = ECall _ _ |- _ => discriminate Hx
    | Hx : In _ [] |- _ => contradiction
    | Hx : False |- _ => contradiction
    end;
    repeat rewrite in_app_iff;
    try match goal with IH : forall n ok, _ -> In n (calls (if rho ?l then _ else _)) |- _ =>
          destruct (rho l) end;
    eauto 7;
    try (match goal with IH : forall n ok, _ -> In n (_ ++ _) |- _ =>
           apply in_app_iff; eapply IH; eassumption end).
Qed.

(** * What the accepting states of each monitor mean *)

(** ** bracket *)
Section Bracket.
Variables (strict : bool) (excuse : list str) (save : option str) (set restore : str).
Let BM := bracket_mon strict excuse save set restore.

(** no operation whose failure is excused failed in this trace *)
Definition no_excuse (t : trace) : Prop :=
  forall n, In (ECall n false) t -> mem_str n excuse = false /\ bclass save set restore n <> BRestore.

Lemma bracket_run_3 : forall t, run BM 3 t = 3%N.
Proof.
  induction t as [|e t IH]; [reflexivity|]. rewrite run_cons.
  replace (BM 3%N e) with 3%N; [assumption|].
  destruct e as [n ok| |l]; try reflexivity. unfold BM, bracket_mon.
  destruct (negb ok && mem_str n excuse); [reflexivity|].
  destruct (bclass save set restore n), ok; reflexivity.
Qed.

Lemma bracket_run_4 : forall t, run BM 4 t = 4%N.
Proof.
  induction t as [|e t IH]; [reflexivity|]. rewrite run_cons.
  replace (BM 4%N e) with 4%N; [assumption|].
  destruct e as [n ok| |l]; try reflexivity. unfold BM, bracket_mon.
  destruct (negb ok && mem_str n excuse); [reflexivity|].
  destruct (bclass save set restore n), ok; reflexivity.
Qed.

(** the abstract state machine that the monitor tracks: a value [cur] of the piece of process
    state and a saved copy; [target] is whatever the set operation writes *)
Variable V : Type.
Variable target : V.
Definition bstep (st : V * V) (e : event) : V * V :=
  match e with
  | ECall n true =>
      match bclass save set restore n with
      | BSave => (fst st, fst st)
      | BSet => (target, snd st)
      | BRestore => (snd st, snd st)
      | BOther => st
      end
  | _ => st
  end.
Definition bapply (t : trace) (st : V * V) : V * V := fold_left bstep t st.

Definition binv (v0 : V) (q : N) (st : V * V) : Prop :=
  match q with
  | 0 => fst st = v0
  | 1 => fst st = v0 /\ snd st = v0
  | 2 => snd st = v0
  | _ => True
  end%N.

Lemma bm_true : forall q n,
  BM q (ECall n true) =
  match bclass save set restore n with
  | BSave => match q with 0 => 1 | 1 => 1 | 2 => 3 | _ => q end
  | BSet => match q with 0 => 3 | 1 => 2 | 2 => if strict then 3 else 2 | _ => q end
  | BRestore => match q with 0 => 3 | 1 => 1 | 2 => 1 | _ => q end
  | BOther => q
  end%N.
Proof. intros. unfold BM, bracket_mon. simpl. destruct (bclass save set restore n); reflexivity. Qed.

Lemma bm_false : forall q n, mem_str n excuse = false -> bclass save set restore n <> BRestore ->
  BM q (ECall n false) = q.
Proof.
  intros q n H1 H2. unfold BM, bracket_mon. simpl. rewrite H1.
  destruct (bclass save set restore n); try reflexivity. congruence.
Qed.

Lemma bracket_restored_gen : forall v0 t q st,
  (q = 0 \/ q = 1 \/ q = 2)%N -> binv v0 q st -> no_excuse t ->
  match run BM q t with
  | 0 | 1 => fst (bapply t st) = v0
  | 4 => False
  | _ => True
  end%N.
Proof.
  intros v0. induction t as [|e t IH]; intros q st Hq Hinv Hne.
  - simpl. destruct Hq as [ -> | [ -> | -> ] ]; simpl in *; tauto.
  - rewrite run_cons. unfold bapply. simpl fold_left. fold (bapply t (bstep st e)).
    assert (Hne' : no_excuse t) by (intros n Hn; apply Hne; right; assumption).
    destruct e as [n ok| |l]; try (apply IH; assumption).
    destruct ok.
    + rewrite bm_true. unfold bstep.
      destruct (bclass save set restore n) eqn:Ec.
      * (* save *)
        destruct Hq as [ -> | [ -> | -> ] ]; simpl in Hinv.
        -- apply IH; [auto | simpl; auto | assumption].
        -- apply IH; [auto | simpl; tauto | assumption].
        -- rewrite bracket_run_3. exact I.
      * (* set *)
        destruct Hq as [ -> | [ -> | -> ] ]; simpl in Hinv.
        -- rewrite bracket_run_3. exact I.
        -- apply IH; [auto | simpl; tauto | assumption].
        -- destruct (Bool.bool_dec strict true) as [Hs|Hs].
           ++ replace (if strict then 3 else 2)%N with 3%N by (rewrite Hs; reflexivity).
              rewrite bracket_run_3. exact I.
           ++ apply not_true_is_false in Hs.
              replace (if strict then 3 else 2)%N with 2%N by (rewrite Hs; reflexivity).
              apply IH; [auto | simpl; assumption | assumption].
      * (* restore *)
        destruct Hq as [ -> | [ -> | -> ] ]; simpl in Hinv.
        -- rewrite bracket_run_3. exact I.
        -- apply IH; [auto | simpl; tauto | assumption].
        -- apply IH; [auto | simpl; tauto | assumption].
      * apply IH; assumption.
    + (* a failed call *)
      destruct (Hne n (or_introl eq_refl)) as [Hex Hnr].
      rewrite bm_false by assumption. apply IH; assumption.
Qed.

(** accepted final state + nothing excused failed => the value is what it was on entry *)
Theorem bracket_restored : forall t v0 saved0,
  let q0 := bracket_q0 save in
  bracket_acc (ONormal, run BM q0 t) = true ->
  no_excuse t ->
  (save = None -> saved0 = v0) ->
  fst (bapply t (v0, saved0)) = v0.
Proof.
  intros t v0 saved0 q0 Hacc Hne Hs.
  assert (Hq : (q0 = 0 \/ q0 = 1 \/ q0 = 2)%N).
  { unfold q0, bracket_q0. destruct save; auto. }
  assert (Hinv : binv v0 q0 (v0, saved0)).
  { unfold q0, bracket_q0. destruct save; simpl; auto. }
  pose proof (bracket_restored_gen v0 t q0 (v0, saved0) Hq Hinv Hne) as H.
  unfold bracket_acc in Hacc. simpl in Hacc.
  destruct (run BM q0 t) as [|p]; [assumption|].
  destruct p as [p|p|]; try discriminate; try assumption;
    destruct p as [p|p|]; try discriminate; try assumption;
    destruct p; try discriminate; contradiction.
Qed.
End Bracket.

(** ** exit 0 only after [a], through no handler *)
Section E0.
Variable a : str.

Lemma e0_run_2 : forall t, run (e0_mon a) 2 t = 2%N.
Proof.
  induction t as [|e t IH]; [reflexivity|]. rewrite run_cons.
  replace (e0_mon a 2%N e) with 2%N; [assumption|].
  destruct e as [n [|]| |l]; simpl; try reflexivity. destruct (eqs n a); reflexivity.
Qed.

Lemma e0_run_1 : forall t, run (e0_mon a) 1 t = 1%N -> ~ In EHandler t.
Proof.
  induction t as [|e t IH]; intros H Hin; [contradiction|]. rewrite run_cons in H.
  destruct e as [n [|]| |l]; simpl in H.
  - destruct (eqs n a); (destruct Hin as [Hd|Hin]; [discriminate | exact (IH H Hin)]).
  - destruct Hin as [Hd|Hin]; [discriminate | exact (IH H Hin)].
  - rewrite e0_run_2 in H. discriminate.
  - destruct Hin as [Hd|Hin]; [discriminate | exact (IH H Hin)].
Qed.

Lemma e0_run_0 : forall t, run (e0_mon a) 0 t = 1%N -> In (ECall a true) t /\ ~ In EHandler t.
Proof.
  induction t as [|e t IH]; intros H; [discriminate|]. rewrite run_cons in H.
  destruct e as [n [|]| |l]; simpl in H.
  - destruct (eqs n a) eqn:E.
    + apply eqs_eq in E. subst n. split; [left; reflexivity|].
      intros [Hd|Hin]; [discriminate | exact (e0_run_1 _ H Hin)].
    + destruct (IH H) as [H1 H2]. split; [right; assumption|].
      intros [Hd|Hin]; [discriminate | auto].
  - destruct (IH H) as [H1 H2]. split; [right; assumption|]. intros [Hd|Hin]; [discriminate | auto].
  - rewrite e0_run_2 in H. discriminate.
  - destruct (IH H) as [H1 H2]. split; [right; assumption|]. intros [Hd|Hin]; [discriminate | auto].
Qed.

Theorem exit0_only_after_sound : forall rho g labels s,
  agrees rho g -> exit0_only_after g labels s a = true ->
  forall t o, exec rho s t o -> success o = true ->
  In (ECall a true) t /\ ~ In EHandler t.
Proof.
  intros rho g labels s Hg H t o Hex Hs.
  pose proof (checkG_sound rho _ _ _ _ _ _ _ Hg H _ _ Hex) as Hacc.
  unfold e0_acc in Hacc. simpl in Hacc. rewrite Hs in Hacc. apply N.eqb_eq in Hacc.
  apply e0_run_0. assumption.
Qed.
End E0.

(** ** handlers exit non-zero *)
Lemma h_run_1 : forall t, run h_mon 1 t = 1%N.
Proof.
  induction t as [|e t IH]; [reflexivity|]. rewrite run_cons. destruct e; simpl; assumption.
Qed.

Lemma h_run_0 : forall t, In EHandler t -> run h_mon 0 t = 1%N.
Proof.
  induction t as [|e t IH]; intros Hin; [contradiction|]. rewrite run_cons.
  destruct e as [n ok| |l]; simpl.
  - destruct Hin as [Hd|Hin]; [discriminate | auto].
  - apply h_run_1.
  - destruct Hin as [Hd|Hin]; [discriminate | auto].
Qed.

Theorem handlers_exit_nonzero_sound : forall rho s,
  handlers_exit_nonzero s = true ->
  forall t o, exec rho s t o -> In EHandler t -> exited_nonzero_or_raised o = true.
Proof.
  intros rho s H t o Hex Hin.
  pose proof (check_sound rho _ _ _ _ _ H _ _ Hex) as Hacc.
  unfold h_acc in Hacc. simpl in Hacc. rewrite (h_run_0 _ Hin) in Hacc. exact Hacc.
Qed.

(** ** precedes *)
Section Prec.
Variables a b : str.

Lemma prec_run_2 : forall t, run (prec_mon a b) 2 t = 2%N.
Proof.
  induction t as [|e t IH]; [reflexivity|]. rewrite run_cons.
  replace (prec_mon a b 2%N e) with 2%N; [assumption|].
  destruct e as [n ok| |l]; simpl; try reflexivity.
  destruct (eqs n b); [reflexivity|]. destruct (ok && eqs n a); reflexivity.
Qed.

Lemma prec_run_0 : forall t, run (prec_mon a b) 0 t <> 2%N ->
  forall t1 ok t2, t = t1 ++ ECall b ok :: t2 -> In (ECall a true) t1.
Proof.
  induction t as [|e t IH]; intros H t1 ok t2 Ht.
  - destruct t1; discriminate.
  - rewrite run_cons in H. destruct t1 as [|e1 t1]; simpl in Ht; inversion Ht; subst.
    + simpl in H. rewrite eqs_refl in H. rewrite prec_run_2 in H. congruence.
    + destruct e1 as [n ok1| |l]; simpl in H; try (right; eapply IH; [exact H | reflexivity]).
      destruct (eqs n b) eqn:Eb.
      * rewrite prec_run_2 in H. congruence.
      * destruct ok1; simpl in H.
        -- destruct (eqs n a) eqn:Ea.
           ++ apply eqs_eq in Ea. subst. left. reflexivity.
           ++ right. eapply IH; [exact H | reflexivity].
        -- right. eapply IH; [exact H | reflexivity].
Qed.

Theorem precedes_sound : forall rho s,
  precedes s a b = true ->
  forall t o, exec rho s t o ->
  forall t1 ok t2, t = t1 ++ ECall b ok :: t2 -> In (ECall a true) t1.
Proof.
  intros rho s H t o Hex.
  pose proof (check_sound rho _ _ _ _ _ H _ _ Hex) as Hacc.
  unfold prec_acc in Hacc. simpl in Hacc. apply negb_true_iff in Hacc. apply N.eqb_neq in Hacc.
  apply prec_run_0. assumption.
Qed.
End Prec.

(** ** last effect *)
Section Last.
Variable a : str.

(** the last call event of the trace, if any *)
Fixpoint last_call (t : trace) (acc : option (str * bool)) : option (str * bool) :=
  match t with
  | [] => acc
  | ECall n ok :: t' => last_call t' (Some (n, ok))
  | _ :: t' => last_call t' acc
  end.

Lemma last_run : forall t q acc,
  (q = 0 \/ q = 1 \/ q = 2)%N ->
  (q = 1%N <-> acc = Some (a, true)) ->
  (run (last_mon a) q t = 1%N <-> last_call t acc = Some (a, true)).
Proof.
  induction t as [|e t IH]; intros q acc Hq Hacc; [simpl; assumption|].
  rewrite run_cons. destruct e as [n ok| |l]; simpl; try (apply IH; assumption).
  destruct (ok && eqs n a) eqn:E.
  - apply andb_true_iff in E. destruct E as [-> E]. apply eqs_eq in E. subst n.
    apply IH; [auto | tauto].
  - apply IH.
    + destruct Hq as [ -> | [ -> | -> ] ]; auto.
    + split.
      * intro H1. destruct Hq as [ -> | [ -> | -> ] ]; discriminate.
      * intro H1. inversion H1; subst. rewrite eqs_refl in E. discriminate.
Qed.

Theorem last_effect_sound : forall rho s,
  last_effect s a = true ->
  forall t o, exec rho s t o -> success o = true -> last_call t None = Some (a, true).
Proof.
  intros rho s H t o Hex Hs.
  pose proof (check_sound rho _ _ _ _ _ H _ _ Hex) as Hacc.
  unfold last_acc in Hacc. simpl in Hacc. rewrite Hs in Hacc. apply N.eqb_eq in Hacc.
  apply (last_run t 0%N None); [auto | split; discriminate | assumption].
Qed.
End Last.

(** ** every iteration calls [a] *)
Section Iter.
Variables l a : str.

(** scanning the trace: [open] = an iteration of loop l has started and no [a] returned since *)
Fixpoint iters_ok (t : trace) (open : bool) : bool :=
  match t with
  | [] => negb open
  | EIter l' :: t' => if eqs l' l then (if open then false else iters_ok t' true) else iters_ok t' open
  | ECall n true :: t' => if eqs n a then iters_ok t' false else iters_ok t' open
  | _ :: t' => iters_ok t' open
  end.

Lemma iter_run_2 : forall t, run (iter_mon l a) 2 t = 2%N.
Proof.
  induction t as [|e t IH]; [reflexivity|]. rewrite run_cons.
  replace (iter_mon l a 2%N e) with 2%N; [assumption|].
  destruct e as [n [|]| |l']; simpl; try reflexivity.
  - destruct (eqs n a); reflexivity.
  - destruct (eqs l' l); reflexivity.
Qed.

Lemma iter_run : forall t (open : bool),
  run (iter_mon l a) (if open then 1 else 0)%N t = 0%N -> iters_ok t open = true.
Proof.
  induction t as [|e t IH]; intros open H.
  - destruct open; [discriminate | reflexivity].
  - rewrite run_cons in H. destruct e as [n [|]| |l']; simpl in *.
    + destruct (eqs n a).
      * apply (IH false). destruct open; assumption.
      * apply IH. assumption.
    + apply IH. assumption.
    + apply IH. assumption.
    + destruct (eqs l' l).
      * destruct open; [rewrite iter_run_2 in H; discriminate | apply (IH true); assumption].
      * apply IH. assumption.
Qed.

Theorem iter_requires_sound : forall rho g labels s,
  agrees rho g -> iter_requires g labels s l a = true ->
  forall t o, exec rho s t o -> success o = true -> iters_ok t false = true.
Proof.
  intros rho g labels s Hg H t o Hex Hs.
  pose proof (checkG_sound rho _ _ _ _ _ _ _ Hg H _ _ Hex) as Hacc.
  unfold iter_acc in Hacc. simpl in Hacc. rewrite Hs in Hacc. apply N.eqb_eq in Hacc.
  apply (iter_run t false). assumption.
Qed.
End Iter.

(** ** a raising [a] leads to status c *)
Section Fail.
Variable a : str.

Lemma fail_run_1 : forall t, run (fail_mon a) 1 t = 1%N.
Proof.
  induction t as [|e t IH]; [reflexivity|]. rewrite run_cons.
  replace (fail_mon a 1%N e) with 1%N; [assumption|].
  destruct e as [n [|]| |l']; simpl; try reflexivity. destruct (eqs n a); reflexivity.
Qed.

Lemma fail_run_0 : forall t, In (ECall a false) t -> run (fail_mon a) 0 t = 1%N.
Proof.
  induction t as [|e t IH]; intros Hin; [contradiction|]. rewrite run_cons.
  destruct Hin as [->|Hin].
  - simpl. rewrite eqs_refl. apply fail_run_1.
  - destruct e as [n [|]| |l']; simpl; auto.
    destruct (eqs n a); [apply fail_run_1 | auto].
Qed.

Theorem failure_exits_sound : forall rho g labels s c,
  agrees rho g -> failure_exits g labels s a c = true ->
  forall t o, exec rho s t o -> In (ECall a false) t ->
  o = OExited c \/ (o = ORaised /\ c = 1%Z).
Proof.
  intros rho g labels s c Hg H t o Hex Hin.
  pose proof (checkG_sound rho _ _ _ _ _ _ _ Hg H _ _ Hex) as Hacc.
  unfold fail_acc in Hacc. simpl in Hacc. rewrite (fail_run_0 _ Hin) in Hacc. simpl in Hacc.
  destruct o; try discriminate.
  - right. apply Z.eqb_eq in Hacc. auto.
  - left. apply Z.eqb_eq in Hacc. congruence.
Qed.
End Fail.

(** ** status c only before [a] was attempted *)
Section Att.
Variable a : str.

Lemma att_run_1 : forall t, run (att_mon a) 1 t = 1%N.
Proof.
  induction t as [|e t IH]; [reflexivity|]. rewrite run_cons.
  replace (att_mon a 1%N e) with 1%N; [assumption|].
  destruct e as [n ok| |l']; simpl; try reflexivity. destruct (eqs n a); reflexivity.
Qed.

Lemma att_run_0 : forall t ok, In (ECall a ok) t -> run (att_mon a) 0 t = 1%N.
Proof.
  induction t as [|e t IH]; intros ok Hin; [contradiction|]. rewrite run_cons.
  destruct Hin as [->|Hin].
  - simpl. rewrite eqs_refl. apply att_run_1.
  - destruct e as [n ok'| |l']; simpl; eauto.
    destruct (eqs n a); [apply att_run_1 | eauto].
Qed.

Theorem exit_only_before_sound : forall rho s c,
  exit_only_before s c a = true ->
  forall t, exec rho s t (OExited c) -> forall ok, ~ In (ECall a ok) t.
Proof.
  intros rho s c H t Hex ok Hin.
  pose proof (check_sound rho _ _ _ _ _ H _ _ Hex) as Hacc.
  unfold att_acc in Hacc. simpl in Hacc. rewrite Z.eqb_refl in Hacc.
  rewrite (att_run_0 _ _ Hin) in Hacc. discriminate.
Qed.
End Att.

(** ** outcome sets *)
Theorem never_success_under_sound : forall rho g s,
  agrees rho g -> never_success_under g s = true ->
  forall t o, exec rho s t o -> success o = false.
Proof.
  intros rho g s Hg H t o Hex.
  pose proof (checkG_sound rho _ _ _ _ _ _ _ Hg H _ _ Hex) as Hacc. simpl in Hacc.
  apply negb_true_iff in Hacc. assumption.
Qed.

Theorem never_exit_under_sound : forall rho g s c,
  agrees rho g -> never_exit_under g s c = true ->
  forall t, ~ exec rho s t (OExited c).
Proof.
  intros rho g s c Hg H t Hex.
  pose proof (checkG_sound rho _ _ _ _ _ _ _ Hg H _ _ Hex) as Hacc. simpl in Hacc.
  rewrite Z.eqb_refl in Hacc. discriminate.
Qed.

Theorem exit_iff_label_sound : forall rho s l c,
  exit_iff_label s l c = true ->
  forall t o, exec rho s t o ->
  (rho l = true -> success o = false) /\ (rho l = false -> o <> OExited c).
Proof.
  intros rho s l c H t o Hex. unfold exit_iff_label in H. apply andb_true_iff in H.
  destruct H as [H1 H2]. split; intro Hl.
  - eapply never_success_under_sound; [apply agrees_one; eassumption | eassumption | eassumption].
  - intro Ho. subst o.
    eapply never_exit_under_sound; [apply agrees_one; eassumption | eassumption | eassumption].
Qed.

(** ** no early, successful way out of a loop body *)
Lemma no_escape_sound : forall rho (b : skel),
  escapes b = false ->
  forall t o, exec rho b t o -> o <> OBroke /\ o <> OReturned /\ o <> OExited 0.
Proof.
  intros rho b Hb t o Hex. induction Hex; simpl in Hb;
    repeat match goal with
    | Hx : _ || _ = false |- _ => apply orb_false_iff in Hx; destruct Hx
    end;
    try discriminate;
    try (repeat split; discriminate);
    try (match goal with IH : _ -> ?P |- ?P => apply IH; assumption end).
  - (* stable if *) apply IHHex. destruct (rho l); assumption.
  - (* loop iter *) apply IHHex2. simpl. apply orb_false_iff. split; assumption.
  - (* try pass *)
    destruct (IHHex1 ltac:(assumption)) as [A1 [A2 A3]]. destruct (IHHex2 ltac:(assumption)) as [B1 [B2 B3]].
    unfold fin_out. destruct (is_normal o3); repeat split; assumption.
  - (* try catch *)
    destruct (IHHex2 ltac:(assumption)) as [A1 [A2 A3]]. destruct (IHHex3 ltac:(assumption)) as [B1 [B2 B3]].
    unfold fin_out. destruct (is_normal o3); repeat split; assumption.
  - (* try propagate *)
    destruct (IHHex2 ltac:(assumption)) as [B1 [B2 B3]].
    unfold fin_out. destruct (is_normal o3); repeat split; try assumption; discriminate.
  - (* scope *)
    destruct (IHHex Hb) as [A1 [A2 A3]]. destruct o; simpl; repeat split; try discriminate; assumption.
  - (* exit *) repeat split; try discriminate. intro Hc. inversion Hc. subst. discriminate.
Qed.
