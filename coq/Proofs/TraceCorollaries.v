(** TraceCorollaries.v — corollaries joining the trace discipline (VerifyTrace) with the gate
    (VerifyGate / SeqProofs). *)
From InToto.Model Require Import Base Json Strs Utf8 Canon Rule Glob Rules Expiry Subst Meta Verify.
From InToto.Proofs Require Import VerifySpec GateBase VerifyGate VerifyTrace SubstProofs SeqProofs.

Section Cor.
  Variable b64dec : str -> option (list N).
  Variable loads : list N -> option json.
  Variable sig_ok : str -> list N -> str -> bool.
  Variable now_s : Z.
  Variable now_us : Z.
  Variable exec : list json -> exec_result.

  Notation vfy := (vfy b64dec loads sig_ok now_s now_us exec).
  Notation stage_pre := (stage_pre b64dec loads sig_ok now_s now_us).
  Notation passed_prior := (passed_prior b64dec loads sig_ok now_s now_us exec).
  Notation sub_traces := (sub_traces b64dec loads sig_ok now_s now_us exec).

  Lemma passed_means_authentic : forall files subs a l,
    passed_prior (Dir files subs) a l ->
    exists l0, gate sig_ok now_s now_us (a_md a) (a_keys a) = Ok l0 /\
               get_payload (a_md a) = Ok (PLayout l0) /\ layout_for l0 (a_params a) = Ok l.
  Proof.
    intros files subs a l [vm [chain [reduced [Hpre _]]]].
    exact (substitution_after_gate b64dec loads sig_ok now_s now_us files a l vm Hpre).
  Qed.

  Lemma accepted_runs_all : forall files subs a lk tr,
    vfy (Dir files subs) a = (Ok lk, tr) ->
    exists l vm, stage_pre files a = Ok (l, vm) /\
                 tr = sub_traces subs (calls_of_vm l vm) ++ insp_cmds l /\
                 Forall (fun c => exists s, fst (vfy (subdir subs (fst c)) (snd c)) = Ok s) (calls_of_vm l vm).
  Proof.
    intros files subs a lk tr H.
    pose proof (verify_shape b64dec loads sig_ok now_s now_us exec files subs a) as Hs.
    destruct (stage_pre files a) as [[l vm]|e] eqn:Hpre.
    - destruct Hs as [calls [own [H1 H2 H3 H4 H5]]].
      assert (Hf : fst (vfy (Dir files subs) a) = Ok lk) by (rewrite H; reflexivity).
      destruct (H5 lk Hf) as [Hc [Hok [Ho _]]]. subst calls own.
      exists l, vm. split; [reflexivity|]. split; [|exact Hok].
      rewrite H in H3. exact H3.
    - rewrite Hs in H. discriminate H.
  Qed.
End Cor.
