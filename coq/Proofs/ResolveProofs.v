(** ResolveProofs.v — the file resolver's enumeration is exactly [reachable] (ResolveSpec.v). *)
From InToto.Model Require Import Base Fs Resolve.
From InToto.Proofs Require Import FsProofs ResolveSpec.
Local Arguments N.eqb : simpl never.

Lemma bind_ok : forall {A B} (r : res A) (f : A -> res B) b,
  bind r f = Ok b -> exists a, r = Ok a /\ f a = Ok b.
Proof. intros A B [a|e] f b H; simpl in H; [eauto | discriminate]. Qed.

Section Enum.
  Variable excl : str -> bool.
  Variable root : entries.
  Variable fuel : nat.
  Variable follow : bool.
  Hypothesis WF : wf_tree root.

  Notation keep := (keep_dir excl).
  Notation below := (below root excl follow).
  Notation tcands := (triples_cands excl root fuel).

  (* ---------------------------------------------------------------- *)
  Lemma names_cands_spec : forall base loc names cs,
    names_cands excl root fuel base loc names = Ok cs ->
    forall f c, In (f, c) cs <->
      exists n, In n names /\ f = normpath (join base n) /\ excl f = false /\ resolve root fuel loc [n] = RFile c.
  Proof.
    induction names as [|n r IH]; intros cs H f c; simpl in H.
    - inversion H; subst. simpl. split; [tauto | intros [n [[] _]]].
    - apply bind_ok in H. destruct H as [rest [Hr H]]. specialize (IH rest Hr f c).
      destruct (excl (normpath (join base n))) eqn:E.
      + inversion H; subst. rewrite IH. split; intros [m [Hm [Hf [He Hres]]]].
        * exists m. simpl. tauto.
        * destruct Hm as [->|Hm]; [subst f; congruence | exists m; tauto].
      + destruct (resolve root fuel loc [n]) eqn:R; inversion H; subst.
        * simpl. rewrite IH. split.
          -- intros [E1|[m [Hm Hr']]]; [inversion E1; subst; exists n; simpl; tauto | exists m; simpl; tauto].
          -- intros [m [[->|Hm] [Hf [He Hres]]]]; [left; subst f; congruence | right; exists m; tauto].
        * rewrite IH. split; intros [m [Hm [Hf [He Hres]]]].
          -- exists m; simpl; tauto.
          -- destruct Hm as [->|Hm]; [congruence | exists m; tauto].
        * rewrite IH. split; intros [m [Hm [Hf [He Hres]]]].
          -- exists m; simpl; tauto.
          -- destruct Hm as [->|Hm]; [congruence | exists m; tauto].
  Qed.

  Lemma scan_spec : forall loc names p,
    scan root fuel loc names = Ok p ->
    forall n, (In n (snd p) <-> In n names /\ (resolve root fuel loc [n] = RNone \/ exists c, resolve root fuel loc [n] = RFile c))
              /\ (In n names -> resolve root fuel loc [n] <> RDiverge).
  Proof.
    induction names as [|m r IH]; intros p H n; simpl in H.
    - inversion H; subst. simpl. split; [tauto | intros []].
    - apply bind_ok in H. destruct H as [q [Hq H]]. specialize (IH q Hq n). destruct IH as [IH1 IH2].
      destruct (resolve root fuel loc [m]) eqn:R; inversion H; subst; simpl; split.
      + rewrite IH1. split.
        * intros [->|[A B]]; [split; [left; reflexivity | right; eauto] | tauto].
        * intros [[->|A] B]; [left; reflexivity | tauto].
      + intros [->|A]; [congruence | tauto].
      + rewrite IH1. split; [tauto|].
        intros [[->|A] B]; [exfalso; destruct B as [B|[c B]]; congruence | tauto].
      + intros [->|A]; [congruence | tauto].
      + rewrite IH1. split.
        * intros [->|[A B]]; [split; [left; reflexivity | left; assumption] | tauto].
        * intros [[->|A] B]; [left; reflexivity | tauto].
      + intros [->|A]; [congruence | tauto].
  Qed.

  Lemma tcands_app : forall a b c,
    tcands (a ++ b) = Ok c -> exists ca cb, tcands a = Ok ca /\ tcands b = Ok cb /\ c = ca ++ cb.
  Proof.
    induction a as [|[[[base loc] ds] names] a IH]; intros b c H; simpl in *.
    - exists [], c. auto.
    - apply bind_ok in H. destruct H as [x [Hx H]]. apply bind_ok in H. destruct H as [y [Hy H]].
      inversion H; subst. destruct (IH _ _ Hy) as [ca [cb [A [B C]]]]. subst.
      exists (x ++ ca), cb. rewrite Hx, A. simpl. rewrite app_assoc. auto.
  Qed.

  Lemma concat_map_cands : forall {A} (g : A -> res (list triple)) l subs cb,
    concat_res (map g l) = Ok subs -> tcands subs = Ok cb ->
    (forall e, In e l -> exists ts cs, g e = Ok ts /\ tcands ts = Ok cs) /\
    (forall x, In x cb <-> exists e ts cs, In e l /\ g e = Ok ts /\ tcands ts = Ok cs /\ In x cs).
  Proof.
    induction l as [|e l IH]; intros subs cb H T; simpl in H.
    - inversion H; subst. simpl in T. inversion T; subst. split; [intros ? []|].
      intro x. split; [intros [] | intros [? [? [? [[] _]]]]].
    - apply bind_ok in H. destruct H as [a [Ha H]]. apply bind_ok in H. destruct H as [b [Hb H]].
      inversion H; subst. apply tcands_app in T. destruct T as [ca [cb' [Ta [Tb ->]]]].
      destruct (IH _ _ Hb Tb) as [IH1 IH2]. split.
      + intros e' [->|He]; [eauto | auto].
      + intro x. rewrite in_app_iff, IH2. split.
        * intros [Hx|[e' [ts [cs [He R]]]]]; [exists e, a, ca; simpl; tauto | exists e', ts, cs; simpl; tauto].
        * intros [e' [ts [cs [[->|He] [G [T Hx]]]]]].
          -- left. rewrite Ha in G. inversion G; subst. rewrite Ta in T. inversion T; subst. assumption.
          -- right. exists e', ts, cs. tauto.
  Qed.

  (* ---------------------------------------------------------------- *)
  Definition walk_ok (w : str -> list str -> res (list triple)) : Prop :=
    forall base loc ts cs, w base loc = Ok ts -> tcands ts = Ok cs -> base_ok base ->
      forall f c, In (f, c) cs <-> below (normpath base) loc f c.

  Definition sub_walk (rec : str -> list str -> res (list triple)) (base : str) (loc : list str)
             (e : str * fsnode) : res (list triple) :=
    match e with
    | (d, ch) =>
        match resolve root fuel loc [d] with
        | RDir loc' =>
            if keep base d then
              match ch with
              | Dir _ => walk_node root fuel follow keep rec (join base d) loc' ch
              | Symlink _ => if follow then rec (join base d) loc' else Ok []
              | File _ => Ok []
              end
            else Ok []
        | _ => Ok []
        end
    end.

  Lemma walk_node_dir : forall rec base loc es,
    walk_node root fuel follow keep rec base loc (Dir es) =
    (do p <- scan root fuel loc (map fst es);
     do subs <- concat_res (map (sub_walk rec base loc) es);
     Ok ((base, loc, filter (keep base) (fst p), snd p) :: subs)).
  Proof. reflexivity. Qed.

  Lemma keep_excl : forall base d, base_ok base -> gname d ->
    keep base d = negb (excl (child (normpath base) d)).
  Proof. intros. unfold keep_dir. rewrite normpath_child by assumption. reflexivity. Qed.

  Lemma denotes_fuel : forall loc cs r,
    denotes root loc cs r -> resolve root fuel loc cs <> RDiverge -> resolve root fuel loc cs = r.
  Proof.
    intros loc cs r [N [f' Hf']] ND. symmetry. eapply resolve_det; eauto.
  Qed.

  Lemma walk_node_ok : forall rec, walk_ok rec ->
    forall n base loc es ts cs,
      n = Dir es -> get_dir root loc = Some es ->
      walk_node root fuel follow keep rec base loc n = Ok ts -> tcands ts = Ok cs -> base_ok base ->
      forall f c, In (f, c) cs <-> below (normpath base) loc f c.
  Proof.
    intros rec Hrec n. induction n as [c0|t0|es0 IHes] using fsnode_ind'; intros base loc es ts cs En G W T B f c;
      try discriminate.
    inversion En; subst es0. clear En.
    rewrite walk_node_dir in W.
    apply bind_ok in W. destruct W as [p [Hscan W]]. apply bind_ok in W. destruct W as [subs [Hsubs W]].
    inversion W; subst ts. clear W.
    simpl in T. apply bind_ok in T. destruct T as [ca [Hca T]]. apply bind_ok in T. destruct T as [cb [Hcb T]].
    inversion T; subst cs. clear T.
    destruct (WF _ _ G) as [ND GN].
    pose proof (names_cands_spec _ _ _ _ Hca f c) as NC.
    destruct (concat_map_cands _ _ _ _ Hsubs Hcb) as [AllOk SubIn].
    rewrite in_app_iff. split.
    - (* nothing invented *)
      intros [Hin|Hin].
      + apply NC in Hin. destruct Hin as [n [Hn [Hf [He Hres]]]].
        destruct (scan_spec _ _ _ Hscan n) as [S1 _]. apply S1 in Hn. destruct Hn as [Hn _].
        apply in_map_iff in Hn. destruct Hn as [[n' node] [E1 Hn]]. simpl in E1. subst n'.
        assert (GNn : gname n) by (apply GN; apply in_map_iff; exists (n, node); auto).
        subst f. rewrite normpath_child in He |- * by assumption.
        apply below_file with (node := node).
        * exists es. split; [assumption | apply In_lookup; assumption].
        * split; [discriminate | exists fuel; assumption].
        * assumption.
      + apply SubIn in Hin. destruct Hin as [[d ch] [ts [cs [He [Hg [Ht Hx]]]]]].
        assert (GNd : gname d) by (apply GN; apply in_map_iff; exists (d, ch); auto).
        pose proof (In_lookup _ _ _ ND He) as L.
        unfold sub_walk in Hg.
        destruct (resolve root fuel loc [d]) as [|loc'| | |] eqn:R;
          try (inversion Hg; subst; simpl in Ht; inversion Ht; subst; contradiction).
        destruct (keep base d) eqn:K; [|inversion Hg; subst; simpl in Ht; inversion Ht; subst; contradiction].
        rewrite keep_excl in K by assumption. apply negb_true_iff in K.
        destruct ch as [c1|es1|t1].
        * inversion Hg; subst; simpl in Ht; inversion Ht; subst; contradiction.
        * rewrite (resolve_entry root fuel loc es d _ G GNd L) in R. inversion R; subst loc'.
          rewrite Forall_forall in IHes. specialize (IHes (d, Dir es1) He). simpl in IHes.
          assert (B' : base_ok (join base d)) by (apply base_ok_join; assumption).
          pose proof (IHes (join base d) (loc ++ [d]) es1 ts cs eq_refl (get_dir_snoc root _ _ _ _ G L) Hg Ht B' f c) as I.
          rewrite normpath_child in I by assumption. apply I in Hx.
          apply below_dir with (n := d) (node := Dir es1) (loc' := loc ++ [d]).
          -- exists es. auto.
          -- split; [discriminate | exists fuel; rewrite (resolve_entry root fuel loc es d _ G GNd L); reflexivity].
          -- left. reflexivity.
          -- assumption.
          -- assumption.
        * destruct (Bool.bool_dec follow true) as [Fo|Fo]; [|apply Bool.not_true_is_false in Fo]; rewrite Fo in Hg;
            [|inversion Hg; subst; simpl in Ht; inversion Ht; subst; contradiction].
          assert (B' : base_ok (join base d)) by (apply base_ok_join; assumption).
          pose proof (Hrec _ _ _ _ Hg Ht B' f c) as I. rewrite normpath_child in I by assumption. apply I in Hx.
          apply below_dir with (n := d) (node := Symlink t1) (loc' := loc').
          -- exists es. auto.
          -- split; [discriminate | exists fuel; assumption].
          -- right. assumption.
          -- assumption.
          -- assumption.
    - (* nothing missed *)
      intro Hb. remember (normpath base) as q eqn:Ep.
      inversion Hb as [p0 loc0 n node c0 [es' [G' L]] Hden Hex | p0 loc0 n node loc' f0 c0 [es' [G' L]] Hden Hlink Hex Hb'];
        subst; rewrite G in G'; inversion G'; subst es'; clear G'.
      + assert (Hn : In n (map fst es)) by (apply in_map_iff; exists (n, node); split; [reflexivity | apply lookup_In; assumption]).
        assert (GNn : gname n) by (apply GN; assumption).
        destruct (scan_spec _ _ _ Hscan n) as [S1 S2].
        pose proof (denotes_fuel _ _ _ Hden (S2 Hn)) as R.
        left. apply NC. exists n. rewrite normpath_child by assumption.
        repeat split; try assumption. apply S1. split; [assumption | right; eauto].
      + assert (Hin : In (n, node) es) by (apply lookup_In; assumption).
        assert (Hn : In n (map fst es)) by (apply in_map_iff; exists (n, node); auto).
        assert (GNn : gname n) by (apply GN; assumption).
        destruct (scan_spec _ _ _ Hscan n) as [S1 S2].
        pose proof (denotes_fuel _ _ _ Hden (S2 Hn)) as R.
        right. apply SubIn.
        destruct (AllOk _ Hin) as [ts [cs [Hg Ht]]].
        exists (n, node), ts, cs. repeat split; try assumption.
        unfold sub_walk in Hg. rewrite R in Hg.
        assert (K : keep base n = true) by (rewrite keep_excl by assumption; rewrite Hex; reflexivity).
        rewrite K in Hg.
        assert (B' : base_ok (join base n)) by (apply base_ok_join; assumption).
        destruct node as [c1|es1|t1].
        * rewrite (resolve_entry root fuel loc es n _ G GNn L) in R. discriminate.
        * rewrite (resolve_entry root fuel loc es n _ G GNn L) in R. inversion R; subst loc'.
          rewrite Forall_forall in IHes. specialize (IHes (n, Dir es1) Hin). simpl in IHes.
          apply (IHes (join base n) (loc ++ [n]) es1 ts cs eq_refl (get_dir_snoc root _ _ _ _ G L) Hg Ht B' f c).
          rewrite normpath_child by assumption. assumption.
        * destruct Hlink as [Hl|Hl]; [discriminate|]. rewrite Hl in Hg.
          apply (Hrec _ _ _ _ Hg Ht B' f c). rewrite normpath_child by assumption. assumption.
  Qed.

  Lemma walk_ok_walk : forall wfuel, walk_ok (walk root fuel follow keep wfuel).
  Proof.
    induction wfuel as [|w IH]; intros base loc ts cs W T B f c; simpl in W; [discriminate|].
    destruct (get_dir root loc) as [es|] eqn:G.
    - eapply walk_node_ok; eauto.
    - inversion W; subst. simpl in T. inversion T; subst. split; [intros []|].
      intro Hb. inversion Hb as [? ? ? ? ? [es' [G' _]] | ? ? ? ? ? ? ? [es' [G' _]]]; congruence.
  Qed.

  (* ---------------------------------------------------------------- *)
  Lemma normpath_abs : forall x, absolute x = true -> absolute (normpath x) = true.
  Proof.
    intros x H. unfold normpath. destruct x as [|a x]; [discriminate|].
    simpl in H. apply N.eqb_eq in H. subst a.
    assert (E : exists k, initial_slashes (c_slash :: x) = S k).
    { destruct x as [|b [|c x]]; simpl; rewrite ?N.eqb_refl.
      - eauto.
      - destruct (N.eqb b c_slash); eauto.
      - destruct (N.eqb b c_slash); [destruct (N.eqb c c_slash)|]; eauto. }
    destruct E as [k E]. rewrite E. simpl repeat. simpl app. simpl is_nil. cbv iota. simpl. apply N.eqb_refl.
  Qed.

  Lemma stat_path_det : forall cwd p r,
    path_denotes root cwd p r -> stat_path root fuel cwd p <> RDiverge -> stat_path root fuel cwd p = r.
  Proof.
    intros cwd p r [N [f' Hf']] ND. unfold stat_path in *.
    destruct (is_nil p); [assumption|]. destruct (absolute p); [assumption|].
    symmetry. eapply resolve_det; eauto.
  Qed.

  Theorem uri_cands_spec : forall cwd uri pre cs,
    uri_cands excl root fuel follow cwd uri = Ok (pre, cs) ->
    pre = snd (strip_scheme_prefix uri) /\
    forall f c, In (f, c) cs <-> reachable root excl follow cwd uri f c.
  Proof.
    intros cwd uri pre cs H. unfold uri_cands in H. unfold reachable, start_path.
    set (sp := normpath (fst (strip_scheme_prefix uri))) in *.
    destruct (excl_start excl sp) eqn:E.
    - inversion H; subst. split; [reflexivity|]. intros f c. split; [intros [] | intros [A _]; discriminate].
    - destruct (stat_path root fuel cwd sp) as [c0|loc| | |] eqn:S; try discriminate.
      + inversion H; subst. split; [reflexivity|]. intros f c. simpl. split.
        * intros [E1|[]]. inversion E1; subst. split; [reflexivity|]. left. split; [|reflexivity].
          split; [discriminate | exists fuel; assumption].
        * intros [_ [[D ->]|[loc [D _]]]].
          -- apply stat_path_det in D; [|rewrite S; discriminate]. rewrite S in D. inversion D; subst. left. reflexivity.
          -- apply stat_path_det in D; [|rewrite S; discriminate]. rewrite S in D. discriminate.
      + apply bind_ok in H. destruct H as [ts [W H]]. apply bind_ok in H. destruct H as [cs' [T H]].
        inversion H; subst. split; [reflexivity|]. intros f c.
        assert (A : absolute (fst (strip_scheme_prefix uri)) = false).
        { destruct (absolute (fst (strip_scheme_prefix uri))) eqn:A; [|reflexivity].
          apply normpath_abs in A. fold sp in A. unfold stat_path in S. rewrite A in S.
          destruct (is_nil sp); discriminate. }
        pose proof (walk_ok_walk fuel sp loc ts cs W T (base_ok_normpath _ A) f c) as I.
        assert (Idem : normpath sp = sp) by (unfold sp; apply normpath_idem_rel; assumption).
        rewrite Idem in I.
        rewrite I. split.
        * intro Hb. split; [reflexivity|]. right. exists loc. split; [|assumption].
          split; [discriminate | exists fuel; assumption].
        * intros [_ [[D _]|[loc' [D Hb]]]].
          -- apply stat_path_det in D; [|rewrite S; discriminate]. rewrite S in D. discriminate.
          -- apply stat_path_det in D; [|rewrite S; discriminate]. rewrite S in D. inversion D; subst. assumption.
      + inversion H; subst. split; [reflexivity|]. intros f c. split; [intros []|].
        intros [_ [[D _]|[loc' [D _]]]]; apply stat_path_det in D; try (rewrite S; discriminate);
          rewrite S in D; discriminate.
  Qed.
End Enum.
