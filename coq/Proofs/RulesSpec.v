(** RulesSpec.v — the documented meaning of artifact rules, written independently
    of the evaluator (definitions only; proofs are in RulesProofs.v). *)
From InToto.Model Require Import Base Json Rule Glob Rules.

Section Spec.
  Variable matches : str -> str -> option bool.

  Definition M (p a : str) : Prop := matches p a = Some true.

  (** the pattern is inside the modelled glob fragment (decidable: see Glob.glob_supported) *)
  Definition supported (p : str) : Prop := forall a, matches p a <> None.

  Definition src_prefix (sp : str) : str := match sp with [] => [] | _ => norm_prefix sp end.

  (** [consumes side item ls m a]: rule [m], evaluated for the [side] list of [item], removes artifact [a] *)
  Definition consumes (side : dkind) (item : link) (ls : links) (m : meaning) (a : str) : Prop :=
    match m with
    | Generic Create p => M p a /\ In a (keys (l_products item)) /\ ~ In a (keys (l_materials item))
    | Generic Delete p => M p a /\ In a (keys (l_materials item)) /\ ~ In a (keys (l_products item))
    | Generic Modify p => M p a /\ exists hm hp, lookup a (l_materials item) = Some hm /\
                                   lookup a (l_products item) = Some hp /\ py_eqb hm hp = false
    | Generic Allow p => M p a
    | Match p sp d dp step =>
        exists r dl hs hd,
          a = src_prefix sp ++ r /\ M p r /\ lookup step ls = Some dl /\
          lookup a (arts side item) = Some hs /\
          lookup (full_path dp r) (arts d dl) = Some hd /\ py_eqb hs hd = true
    | Generic Disallow _ | Generic Require _ => False
    end.

  Definition consuming (m : meaning) : Prop :=
    match m with Generic Disallow _ | Generic Require _ => False | _ => True end.

  Definition pattern_of (m : meaning) : str :=
    match m with Generic _ p => p | Match p _ _ _ _ => p end.

  (** paths as the recorder produces them: no backslash, and (for a MATCH rule with a
      source prefix) nothing in the queue continues the prefix with a second '/' *)
  Definition no_bs (a : str) : Prop := ~ In 92%N a.
  Definition queue_ok (m : meaning) (queue : list str) : Prop :=
    match m with
    | Match _ ((_ :: _) as sp) _ _ _ =>
        forall a, In a queue -> no_bs a /\ ~ (exists r, a = norm_prefix sp ++ 47%N :: r)
    | _ => True
    end.

  Inductive verdict := Pass (remaining : list str) | Fail.

  (** the documented ordered filter: big-step relation over the list of parsed rules *)
  Inductive steps (side : dkind) (item : link) (ls : links) : list meaning -> list str -> verdict -> Prop :=
  | S_done q : steps side item ls [] q (Pass q)
  | S_disallow p q ms v :
      (forall a, In a q -> matches p a = Some false) ->
      steps side item ls ms q v -> steps side item ls (Generic Disallow p :: ms) q v
  | S_disallow_fail p q ms a :
      In a q -> M p a -> steps side item ls (Generic Disallow p :: ms) q Fail
  | S_require f q ms v :
      In f q -> steps side item ls ms q v -> steps side item ls (Generic Require f :: ms) q v
  | S_require_fail f q ms :
      ~ In f q -> steps side item ls (Generic Require f :: ms) q Fail
  | S_consume m q q' ms v :
      consuming m ->
      (forall a, In a q' <-> In a q /\ ~ consumes side item ls m a) ->
      steps side item ls ms q' v -> steps side item ls (m :: ms) q v.

  Definition same_set (a b : list str) : Prop := forall x, In x a <-> In x b.
  Definition verdict_equiv (v w : verdict) : Prop :=
    match v, w with
    | Pass a, Pass b => same_set a b
    | Fail, Fail => True
    | _, _ => False
    end.

  (** same map, any storage order *)
  Definition amap_equiv (m1 m2 : amap) : Prop := forall k, lookup k m1 = lookup k m2.
  Definition link_equiv (l1 l2 : link) : Prop :=
    amap_equiv (l_materials l1) (l_materials l2) /\ amap_equiv (l_products l1) (l_products l2).
  Definition links_equiv (a b : links) : Prop :=
    forall k, match lookup k a, lookup k b with
              | Some x, Some y => link_equiv x y
              | None, None => True
              | _, _ => False
              end.

  Definition res_verdict (r : res (list str)) : option verdict :=
    match r with
    | Ok q => Some (Pass q)
    | Err ERule => Some Fail
    | Err _ => None                     (* KeyError / FormatError / Unmodelled: outside the guards *)
    end.
End Spec.
