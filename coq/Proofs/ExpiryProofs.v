(** ExpiryProofs.v — the instant of a validated expiry string is strictly monotone in the
    calendar tuple (year, month, day, hour, minute, second); the expiry comparison. *)
From Coq Require Import List ZArith Bool Lia.
From InToto.Model Require Import Base Expiry.
Import ListNotations.
Local Open Scope Z_scope.

Local Ltac Zify.zify_post_hook ::= Z.div_mod_to_equations.

(** first day of a month, counted from 1970-01-01 *)
Definition fom (y m : Z) : Z := days_from_civil y m 1.

Lemma dfc_day : forall y m d, days_from_civil y m d = fom y m + (d - 1).
Proof. intros y m d. unfold fom, days_from_civil. lia. Qed.

(** days before the first of month [m] within the civil year [y] *)
Definition lp (y : Z) : Z := if leap y then 1 else 0.
Definition cum (y m : Z) : Z :=
  if m =? 1 then 0 else if m =? 2 then 31 else
  lp y + (if m =? 3 then 59 else if m =? 4 then 90 else if m =? 5 then 120 else if m =? 6 then 151
          else if m =? 7 then 181 else if m =? 8 then 212 else if m =? 9 then 243
          else if m =? 10 then 273 else if m =? 11 then 304 else 334).

Lemma month_cases : forall m, 1 <= m <= 12 ->
  m = 1 \/ m = 2 \/ m = 3 \/ m = 4 \/ m = 5 \/ m = 6 \/ m = 7 \/ m = 8 \/ m = 9 \/ m = 10 \/ m = 11 \/ m = 12.
Proof. intros m H. lia. Qed.

Lemma leap_cases : forall y,
  (leap y = true /\ (y mod 4 = 0 /\ y mod 100 <> 0 \/ y mod 400 = 0)) \/
  (leap y = false /\ (y mod 4 <> 0 \/ y mod 100 = 0) /\ y mod 400 <> 0).
Proof.
  intro y. unfold leap.
  destruct (Z.eqb_spec (y mod 4) 0); destruct (Z.eqb_spec (y mod 100) 0);
    destruct (Z.eqb_spec (y mod 400) 0); cbn [negb andb orb]; intuition lia.
Qed.

Lemma fom_jan_feb : forall y, 1 <= y -> fom y 2 = fom y 1 + 31.
Proof. intros y Hy. unfold fom, days_from_civil. cbn. lia. Qed.

(** the only place where the shifted (March-based) year of the algorithm changes *)
Lemma fom_mar : forall y, 1 <= y -> fom y 3 = fom y 1 + 59 + lp y.
Proof.
  intros y Hy. unfold fom, days_from_civil, lp. cbn.
  assert (H0 : (0 <=? y - 1) = true) by (apply Z.leb_le; lia).
  assert (H1 : (0 <=? y) = true) by (apply Z.leb_le; lia).
  rewrite H0, H1.
  destruct (leap_cases y) as [[-> H]|[-> H]]; lia.
Qed.

Lemma fom_later : forall y m, 1 <= y -> 3 <= m <= 12 ->
  fom y m = fom y 3 + (cum y m - cum y 3).
Proof.
  intros y m Hy Hm.
  assert (C : m = 3 \/ m = 4 \/ m = 5 \/ m = 6 \/ m = 7 \/ m = 8 \/ m = 9 \/ m = 10 \/ m = 11 \/ m = 12) by lia.
  unfold fom, days_from_civil, cum.
  repeat (destruct C as [->|C]; [cbn; lia|]). subst m. cbn. lia.
Qed.

Lemma cum_1 : forall y, cum y 1 = 0. Proof. reflexivity. Qed.
Lemma cum_2 : forall y, cum y 2 = 31. Proof. reflexivity. Qed.
Lemma cum_3 : forall y, cum y 3 = lp y + 59. Proof. reflexivity. Qed.

Lemma fom_cum : forall y m, 1 <= y -> 1 <= m <= 12 -> fom y m = fom y 1 + cum y m.
Proof.
  intros y m Hy Hm.
  destruct (Z.eq_dec m 1) as [->|N1]; [rewrite cum_1; lia|].
  destruct (Z.eq_dec m 2) as [->|N2]; [rewrite fom_jan_feb, cum_2 by lia; lia|].
  rewrite fom_later by lia. rewrite fom_mar by lia. rewrite cum_3. lia.
Qed.

Lemma cum_dim : forall y m, 1 <= m <= 11 -> cum y (m + 1) = cum y m + days_in_month y m.
Proof.
  intros y m Hm. unfold cum, days_in_month, lp.
  assert (C : m = 1 \/ m = 2 \/ m = 3 \/ m = 4 \/ m = 5 \/ m = 6 \/ m = 7 \/ m = 8 \/ m = 9 \/ m = 10 \/ m = 11) by lia.
  repeat (destruct C as [->|C]; [cbn; destruct (leap y); lia|]). subst m. cbn. destruct (leap y); lia.
Qed.

Lemma cum_dec : forall y, cum y 12 + 31 = 365 + lp y.
Proof. intro y. change (cum y 12) with (lp y + 334). lia. Qed.

Lemma dim_pos : forall y m, 28 <= days_in_month y m <= 31.
Proof.
  intros y m. unfold days_in_month.
  destruct (m =? 2); [destruct (leap y); lia|].
  destruct ((m =? 4) || (m =? 6) || (m =? 9) || (m =? 11)); lia.
Qed.

(** months within a year *)
Lemma cum_mono : forall y m m', 1 <= m -> m < m' -> m' <= 12 -> cum y m + days_in_month y m <= cum y m'.
Proof.
  intros y m m' H1 H2 H3.
  assert (Hn : exists n : nat, m' = m + 1 + Z.of_nat n) by (exists (Z.to_nat (m' - m - 1)); lia).
  destruct Hn as [n ->]. induction n as [|n IH].
  - rewrite Z.add_0_r. rewrite cum_dim by lia. lia.
  - assert (IH' : cum y m + days_in_month y m <= cum y (m + 1 + Z.of_nat n)) by (apply IH; lia).
    replace (m + 1 + Z.of_nat (S n)) with ((m + 1 + Z.of_nat n) + 1) by lia.
    rewrite cum_dim by lia. pose proof (dim_pos y (m + 1 + Z.of_nat n)). lia.
Qed.

Lemma cum_year_bound : forall y m, 1 <= m <= 12 -> cum y m + days_in_month y m <= 365 + lp y.
Proof.
  intros y m Hm. destruct (Z.eq_dec m 12) as [->|N].
  - pose proof (cum_dec y). change (days_in_month y 12) with 31. lia.
  - pose proof (cum_mono y m 12 ltac:(lia) ltac:(lia) ltac:(lia)). pose proof (cum_dec y). lia.
Qed.

Lemma cum_nonneg : forall y m, 0 <= cum y m.
Proof.
  intros y m. unfold cum, lp.
  repeat match goal with |- context [if ?c then _ else _] => destruct c end; lia.
Qed.

(** years *)
Lemma fom_next_year : forall y, 1 <= y -> fom (y + 1) 1 = fom y 1 + 365 + lp y.
Proof.
  intros y Hy.
  assert (E : fom (y + 1) 1 = fom y 12 + 31).
  { unfold fom, days_from_civil. cbn. replace (y + 1 - 1) with y by lia. lia. }
  rewrite E, fom_cum by lia. pose proof (cum_dec y). lia.
Qed.

Lemma lp_range : forall y, 0 <= lp y <= 1.
Proof. intro y. unfold lp. destruct (leap y); lia. Qed.

Lemma fom_years : forall y (n : nat), 1 <= y ->
  fom y 1 + 365 + lp y + 365 * Z.of_nat n <= fom (y + Z.of_nat (S n)) 1.
Proof.
  intros y n Hy. induction n as [|n IH].
  - change (Z.of_nat 1) with 1. rewrite fom_next_year by lia. lia.
  - replace (y + Z.of_nat (S (S n))) with ((y + Z.of_nat (S n)) + 1) by lia.
    rewrite fom_next_year by lia. pose proof (lp_range (y + Z.of_nat (S n))). lia.
Qed.

(** a date the validator accepts *)
Definition valid_date (y m d : Z) : Prop := 1 <= y /\ 1 <= m <= 12 /\ 1 <= d <= days_in_month y m.

Definition date_lt (y m d y' m' d' : Z) : Prop :=
  y < y' \/ (y = y' /\ (m < m' \/ (m = m' /\ d < d'))).

Theorem days_from_civil_mono : forall y m d y' m' d',
  valid_date y m d -> valid_date y' m' d' -> date_lt y m d y' m' d' ->
  days_from_civil y m d < days_from_civil y' m' d'.
Proof.
  intros y m d y' m' d' [Hy [Hm Hd]] [Hy' [Hm' Hd']] Hlt.
  rewrite !dfc_day. rewrite (fom_cum y m Hy Hm), (fom_cum y' m' Hy' Hm').
  destruct Hlt as [Hlt|[-> [Hlt|[-> Hlt]]]].
  - assert (Hn : exists n : nat, y' = y + Z.of_nat (S n)) by (exists (Z.to_nat (y' - y - 1)); lia).
    destruct Hn as [n ->].
    pose proof (fom_years y n Hy). pose proof (cum_year_bound y m Hm). pose proof (lp_range y).
    pose proof (cum_nonneg (y + Z.of_nat (S n)) m'). lia.
  - pose proof (cum_mono y' m m' ltac:(lia) Hlt ltac:(lia)). lia.
  - lia.
Qed.

(* ------------------------------------------------------------------ *)
(** * Instants *)

Definition civil_wf (c : civil) : Prop :=
  valid_date (yr c) (mo c) (dy c) /\ 0 <= hh c <= 23 /\ 0 <= mi c <= 59 /\ 0 <= ss c <= 59.

(** lexicographic order of the calendar tuple *)
Definition civil_lt (a b : civil) : Prop :=
  date_lt (yr a) (mo a) (dy a) (yr b) (mo b) (dy b) \/
  ((yr a = yr b /\ mo a = mo b /\ dy a = dy b) /\
   (hh a < hh b \/ (hh a = hh b /\ (mi a < mi b \/ (mi a = mi b /\ ss a < ss b))))).

Theorem instant_us_mono : forall a b, civil_wf a -> civil_wf b -> civil_lt a b -> instant_us a < instant_us b.
Proof.
  intros a b [Da [Ha [Ma Sa]]] [Db [Hb [Mb Sb]]] Hlt. unfold instant_us.
  destruct Hlt as [Hlt|[[Ey [Em Ed]] Hlt]].
  - pose proof (days_from_civil_mono _ _ _ _ _ _ Da Db Hlt). lia.
  - rewrite Ey, Em, Ed. lia.
Qed.

(** whole seconds: distinct instants are at least one second apart *)
Lemma instant_us_seconds : forall a, exists s, instant_us a = s * 1000000.
Proof. intro a. unfold instant_us. eexists. reflexivity. Qed.

(* ------------------------------------------------------------------ *)
(** * From the validated string *)

Lemma digit_range : forall c x, digit c = Some x -> 0 <= x <= 9.
Proof.
  intros c x H. unfold digit in H.
  destruct (N.leb 48 c && N.leb c 57)%bool eqn:E; [|discriminate H].
  apply andb_true_iff in E. destruct E as [E1 E2].
  apply N.leb_le in E1. apply N.leb_le in E2. inversion H. lia.
Qed.

Lemma num2_range : forall a b x, num2 a b = Some x -> 0 <= x <= 99.
Proof.
  intros a b x H. unfold num2 in H.
  destruct (digit a) as [p|] eqn:Ea; [|discriminate H].
  destruct (digit b) as [q|] eqn:Eb; [|discriminate H].
  apply digit_range in Ea. apply digit_range in Eb. inversion H. lia.
Qed.

Ltac kill_lit c H :=
  destruct c as [|c]; [discriminate H|];
  repeat (destruct c as [c|c|]; try discriminate H).

Lemma parse_fields_inv : forall s c, parse_fields s = Some c ->
  exists y1 y2 y3 y4 m1 m2 d1 d2 h1 h2 n1 n2 s1 s2,
    s = [y1; y2; y3; y4; 45; m1; m2; 45; d1; d2; 84; h1; h2; 58; n1; n2; 58; s1; s2; 90]%N /\
    num4 y1 y2 y3 y4 = Some (yr c) /\ num2 m1 m2 = Some (mo c) /\ num2 d1 d2 = Some (dy c) /\
    num2 h1 h2 = Some (hh c) /\ num2 n1 n2 = Some (mi c) /\ num2 s1 s2 = Some (ss c).
Proof.
  intros s c H. unfold parse_fields in H.
  destruct s as [|y1 s]; [discriminate H|]. destruct s as [|y2 s]; [discriminate H|].
  destruct s as [|y3 s]; [discriminate H|]. destruct s as [|y4 s]; [discriminate H|].
  destruct s as [|l1 s]; [discriminate H|]. kill_lit l1 H.
  destruct s as [|m1 s]; [discriminate H|]. destruct s as [|m2 s]; [discriminate H|].
  destruct s as [|l2 s]; [discriminate H|]. kill_lit l2 H.
  destruct s as [|d1 s]; [discriminate H|]. destruct s as [|d2 s]; [discriminate H|].
  destruct s as [|l3 s]; [discriminate H|]. kill_lit l3 H.
  destruct s as [|h1 s]; [discriminate H|]. destruct s as [|h2 s]; [discriminate H|].
  destruct s as [|l4 s]; [discriminate H|]. kill_lit l4 H.
  destruct s as [|n1 s]; [discriminate H|]. destruct s as [|n2 s]; [discriminate H|].
  destruct s as [|l5 s]; [discriminate H|]. kill_lit l5 H.
  destruct s as [|s1 s]; [discriminate H|]. destruct s as [|s2 s]; [discriminate H|].
  destruct s as [|l6 s]; [discriminate H|]. kill_lit l6 H.
  destruct s as [|x s]; [|discriminate H].
  destruct (num4 y1 y2 y3 y4) as [y|] eqn:E1; [|discriminate H].
  destruct (num2 m1 m2) as [m|] eqn:E2; [|discriminate H].
  destruct (num2 d1 d2) as [d|] eqn:E3; [|discriminate H].
  destruct (num2 h1 h2) as [h|] eqn:E4; [|discriminate H].
  destruct (num2 n1 n2) as [n|] eqn:E5; [|discriminate H].
  destruct (num2 s1 s2) as [sc|] eqn:E6; [|discriminate H].
  inversion H; subst c; cbn [yr mo dy hh mi ss].
  exists y1, y2, y3, y4, m1, m2, d1, d2, h1, h2, n1, n2, s1, s2.
  repeat split; assumption.
Qed.

Lemma parse_fields_nonneg : forall s c, parse_fields s = Some c ->
  0 <= mo c /\ 0 <= dy c /\ 0 <= hh c /\ 0 <= mi c /\ 0 <= ss c.
Proof.
  intros s c H. apply parse_fields_inv in H.
  destruct H as [y1 [y2 [y3 [y4 [m1 [m2 [d1 [d2 [h1 [h2 [n1 [n2 [s1 [s2 [_ [_ [M [D [Hh [Mi Ss]]]]]]]]]]]]]]]]]]]].
  apply num2_range in M, D, Hh, Mi, Ss. lia.
Qed.

Lemma parse_expires_wf : forall s c t,
  parse_fields s = Some c -> parse_expires s = Ok t -> civil_wf c /\ t = instant_us c.
Proof.
  intros s c t Hf H. unfold parse_expires in H. rewrite Hf in H.
  destruct (valid_civil c) eqn:V; [|discriminate H]. inversion H; subst t.
  split; [|reflexivity].
  destruct (parse_fields_nonneg _ _ Hf) as [M [D [Hh [Mi Ss]]]].
  unfold valid_civil in V.
  repeat (apply andb_true_iff in V; destruct V as [V ?]).
  repeat match goal with H : (_ <=? _) = true |- _ => apply Z.leb_le in H end.
  unfold civil_wf, valid_date. lia.
Qed.

Lemma parse_expires_fields : forall s t, parse_expires s = Ok t -> exists c, parse_fields s = Some c.
Proof.
  intros s t H. unfold parse_expires in H. destruct (parse_fields s) as [c|]; [exists c; reflexivity|].
  destruct (Nat.eqb (length s) 20 && negb (is_ascii s))%bool; discriminate H.
Qed.

Theorem parse_expires_mono : forall s1 s2 c1 c2 t1 t2,
  parse_fields s1 = Some c1 -> parse_fields s2 = Some c2 ->
  parse_expires s1 = Ok t1 -> parse_expires s2 = Ok t2 ->
  civil_lt c1 c2 -> t1 < t2.
Proof.
  intros s1 s2 c1 c2 t1 t2 F1 F2 P1 P2 Hlt.
  destruct (parse_expires_wf _ _ _ F1 P1) as [W1 ->].
  destruct (parse_expires_wf _ _ _ F2 P2) as [W2 ->].
  exact (instant_us_mono _ _ W1 W2 Hlt).
Qed.

(* ------------------------------------------------------------------ *)
(** * The comparison of verify_layout_expiration *)

Lemma check_expiry_rejects : forall e n, e <= n -> check_expiry e n = Err EExpired.
Proof. intros e n H. unfold check_expiry. apply Z.leb_le in H. rewrite H. reflexivity. Qed.

Lemma check_expiry_passes : forall e n, n < e -> check_expiry e n = Ok tt.
Proof. intros e n H. unfold check_expiry. apply Z.leb_gt in H. rewrite H. reflexivity. Qed.

Lemma check_expiry_iff : forall e n, check_expiry e n = Ok tt <-> n < e.
Proof.
  intros e n. split; [|apply check_expiry_passes].
  unfold check_expiry. destruct (e <=? n) eqn:E; [discriminate|]. intros _. apply Z.leb_gt. exact E.
Qed.
