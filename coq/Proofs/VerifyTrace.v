(** VerifyTrace.v — C07: the discipline of the execution trace of in_toto_verify:
    shape (sublayout traces in step order, then own inspections, a prefix of the layout's list),
    own events only after every earlier stage passed, nothing after a failing command. *)
From InToto.Model Require Import Base Json Strs Utf8 Canon Rule Glob Rules Expiry Subst Meta Verify.
From InToto.Proofs Require Import VerifySpec GateBase.

(* ------------------------------------------------------------------ *)
(** * The recursive calls of verify_sublayouts, as data *)

Definition is_layout_md (md : metadata) : bool :=
  match get_payload md with Ok (PLayout _) => true | _ => false end.

(** directory name and arguments of the recursive in_toto_verify call for one verified sublayout *)
Definition sub_call (l : layout) (sname : str) (km : str * metadata) : str * args :=
  (sublayout_dirname sname (fst km),
   mkArgs (snd km)
          (JDict [(fst km, match lookup (fst km) (ly_keys l) with Some k => k | None => JNull end)])
          None (JStr sname)).

Definition calls_of_kms (l : layout) (sname : str) (kms : list (str * metadata)) : list (str * args) :=
  map (sub_call l sname) (filter (fun km => is_layout_md (snd km)) kms).

(** every recursive call an accepted run makes, in the order it makes them *)
Definition calls_of_vm (l : layout) (vm : list (str * list (str * metadata))) : list (str * args) :=
  flat_map (fun skm => calls_of_kms l (fst skm) (snd skm)) vm.

Definition call_fn (recs : list (str * (args -> result))) (missing : args -> result)
           (c : str * args) : result :=
  match lookup (fst c) recs with Some f => f (snd c) | None => missing (snd c) end.

Definition call_traces (recs : list (str * (args -> result))) (missing : args -> result)
           (calls : list (str * args)) : list ev :=
  concat (map (fun c => snd (call_fn recs missing c)) calls).

Definition call_ok (recs : list (str * (args -> result))) (missing : args -> result)
           (c : str * args) : Prop := exists s, fst (call_fn recs missing c) = Ok s.

Lemma call_traces_app : forall recs missing a b,
  call_traces recs missing (a ++ b) = call_traces recs missing a ++ call_traces recs missing b.
Proof. intros. unfold call_traces. rewrite map_app, concat_app. reflexivity. Qed.

Section Trace.
  Variable exec : list json -> exec_result.

  (* ---------------------------------------------------------------- *)
  (** * Discipline: nothing follows a command the oracle reports as failed *)

  Definition ev_good (e : ev) : bool := match e with Exec c => exec_good (exec c) end.
  Definition all_good (tr : list ev) : Prop := forallb ev_good tr = true.

  Definition disciplined {A : Type} (rt : res A * list ev) : Prop :=
    all_good (snd rt) \/
    exists pre c, snd rt = pre ++ [Exec c] /\ all_good pre /\ ev_good (Exec c) = false /\
                  exists e, fst rt = Err e.

  Lemma all_good_app : forall a b, all_good a -> all_good b -> all_good (a ++ b).
  Proof. intros a b Ha Hb. unfold all_good in *. rewrite forallb_app, Ha, Hb. reflexivity. Qed.

  Lemma all_good_nil : all_good [].
  Proof. reflexivity. Qed.

  Lemma disciplined_Ok_good : forall (A : Type) (x : A) tr, disciplined (Ok x, tr) -> all_good tr.
  Proof.
    intros A x tr [H|[pre [c [_ [_ [_ [e He]]]]]]]; [exact H | discriminate He].
  Qed.

  (** changing the result keeps the discipline as long as errors stay errors *)
  Lemma disciplined_map : forall (A B : Type) (r : res A) (r' : res B) tr,
    disciplined (r, tr) -> (forall e, r = Err e -> exists e', r' = Err e') -> disciplined (r', tr).
  Proof.
    intros A B r r' tr [H|[pre [c [Htr [Hpre [Hc [e He]]]]]]] Hmap; [left; exact H|].
    right. exists pre, c. repeat split; try assumption. exact (Hmap e He).
  Qed.

  Lemma disciplined_Err : forall (A B : Type) (e e' : err) tr,
    disciplined (@Err A e, tr) -> disciplined (@Err B e', tr).
  Proof.
    intros A B e e' tr H. apply (disciplined_map _ _ (@Err A e)); [exact H|].
    intros e0 _. exists e'. reflexivity.
  Qed.

  (** a disciplined trace is continued by a disciplined call *)
  Lemma disciplined_extend : forall (A : Type) (r : res A) tr str,
    all_good tr -> disciplined (r, str) -> disciplined (r, tr ++ str).
  Proof.
    intros A r tr str Htr [H|[pre [c [Hs [Hpre [Hc He]]]]]].
    - left. apply all_good_app; assumption.
    - right. cbn [snd fst] in *. exists (tr ++ pre), c. subst str.
      rewrite app_assoc. repeat split; try assumption. apply all_good_app; assumption.
  Qed.

  Lemma stop_at_failure : forall (A : Type) (r : res A) tr pre c post,
    disciplined (r, tr) -> tr = pre ++ Exec c :: post -> ev_good (Exec c) = false ->
    post = [] /\ exists e, r = Err e.
  Proof.
    intros A r tr pre c post [H|[pre' [c' [Htr [Hpre [Hc' He]]]]]] E Hbad; cbn [fst snd] in *.
    - exfalso. subst tr. unfold all_good in H. rewrite forallb_app in H.
      apply andb_true_iff in H. destruct H as [_ H]. cbn [forallb] in H.
      apply andb_true_iff in H. destruct H as [H _]. congruence.
    - split; [|exact He]. subst tr.
      destruct (@exists_last _ (Exec c :: post) ltac:(discriminate)) as [body [lst Hl]].
      destruct post as [|x post]; [reflexivity|exfalso].
      assert (E' : (pre ++ body) ++ [lst] = pre' ++ [Exec c']).
      { rewrite <- app_assoc, <- Hl. symmetry. exact E. }
      apply app_inj_tail in E'. destruct E' as [E' _]. subst pre'.
      assert (Hin : In (Exec c) body).
      { destruct body as [|b body]; [discriminate Hl|]. inversion Hl; subst. left. reflexivity. }
      unfold all_good in Hpre. rewrite forallb_app in Hpre.
      apply andb_true_iff in Hpre. destruct Hpre as [_ Hb].
      rewrite forallb_forall in Hb. specialize (Hb _ Hin). congruence.
  Qed.

  (* ---------------------------------------------------------------- *)
  (** * run_all_inspections *)

  Definition cmds_of (ins : list insp) : list ev := map (fun i => Exec (in_run i)) ins.

  Lemma rai_shape : forall ins acc tr,
    all_good tr ->
    exists own,
      is_prefix own (cmds_of ins) /\
      snd (run_all_inspections exec ins acc tr) = tr ++ own /\
      disciplined (run_all_inspections exec ins acc tr) /\
      (forall x, fst (run_all_inspections exec ins acc tr) = Ok x -> own = cmds_of ins).
  Proof.
    induction ins as [|i ins IH]; intros acc tr Htr; cbn [run_all_inspections cmds_of map].
    - exists []. split; [apply is_prefix_nil|]. split; [symmetry; apply app_nil_r|].
      split; [left; exact Htr|]. intros x _. reflexivity.
    - remember (in_run i) as cmd eqn:Ecmd. clear Ecmd.
      assert (Stop : forall e : err,
                exists own, is_prefix own (Exec cmd :: cmds_of ins) /\
                  snd (@Err links e, tr) = tr ++ own /\ disciplined (@Err links e, tr) /\
                  (forall x, fst (@Err links e, tr) = Ok x -> own = Exec cmd :: cmds_of ins)).
      { intro e. exists []. split; [apply is_prefix_nil|]. split; [symmetry; apply app_nil_r|].
        split; [left; exact Htr|]. intros x Hx. discriminate Hx. }
      assert (StopAfter : forall e : err, exec_good (exec cmd) = false ->
                exists own, is_prefix own (Exec cmd :: cmds_of ins) /\
                  snd (@Err links e, tr ++ [Exec cmd]) = tr ++ own /\
                  disciplined (@Err links e, tr ++ [Exec cmd]) /\
                  (forall x, fst (@Err links e, tr ++ [Exec cmd]) = Ok x ->
                             own = Exec cmd :: cmds_of ins)).
      { intros e Hbad. exists [Exec cmd].
        split; [apply (is_prefix_cons _ _ [] _ (is_prefix_nil _ _))|].
        split; [reflexivity|]. split.
        - right. exists tr, cmd. repeat split; try assumption. exists e. reflexivity.
        - intros x Hx. discriminate Hx. }
      assert (Hmatch : forall (X : Type) (a b : X), match cmd with [] => a | _ :: _ => b end =
                                                   if match cmd with [] => true | _ => false end then a else b)
        by (intros; destruct cmd; reflexivity).
      rewrite Hmatch. clear Hmatch.
      destruct (match cmd with [] => true | _ => false end); [apply Stop|].
      match goal with |- context [if negb ?c then _ else _] => destruct c end; cbn [negb]; [|apply Stop].
      destruct (exec cmd) as [rv mats prods| |] eqn:Eex;
        [|apply StopAfter; reflexivity|apply StopAfter; reflexivity].
      destruct rv as [| |z| | | |];
        try (apply StopAfter; reflexivity).
      destruct (Z.eqb z 0) eqn:Ez; [|apply StopAfter; cbn [exec_good]; exact Ez].
      assert (Hgood : all_good (tr ++ [Exec cmd])).
      { apply all_good_app; [exact Htr|]. unfold all_good. cbn [forallb ev_good].
        rewrite Eex. cbn [exec_good]. rewrite Ez. reflexivity. }
      match goal with |- context [run_all_inspections exec ins ?acc' _] =>
        destruct (IH acc' _ Hgood) as [own [Hp [Hs [Hd Hall]]]] end.
      exists (Exec cmd :: own). split; [apply is_prefix_cons; exact Hp|].
      split; [rewrite Hs, <- app_assoc; reflexivity|]. split; [exact Hd|].
      intros x Hx. rewrite (Hall x Hx). reflexivity.
  Qed.

  (* ---------------------------------------------------------------- *)
  (** * verify_sublayouts *)

  Section Subs.
    Variable recs : list (str * (args -> result)).
    Variable missing : args -> result.
    Hypothesis calls_disciplined : forall c, disciplined (call_fn recs missing c).

    Notation call_traces := (call_traces recs missing).
    Notation call_ok := (call_ok recs missing).

    Lemma subs_links_shape : forall l sname kms tr,
      all_good tr ->
      exists calls,
        is_prefix calls (calls_of_kms l sname kms) /\
        snd (subs_links recs missing l sname kms tr) = tr ++ call_traces calls /\
        disciplined (subs_links recs missing l sname kms tr) /\
        (forall x, fst (subs_links recs missing l sname kms tr) = Ok x ->
                   calls = calls_of_kms l sname kms /\ Forall call_ok calls).
    Proof.
      intros l sname. induction kms as [|[kid md] kms IH]; intros tr Htr; cbn [subs_links].
      - exists []. split; [apply is_prefix_nil|]. split; [symmetry; apply app_nil_r|].
        split; [left; exact Htr|]. intros x _. split; [reflexivity|constructor].
      - unfold calls_of_kms. cbn [filter snd].
        destruct (get_payload md) as [[lk|sl]|e] eqn:Ep.
        + (* a link *)
          assert (Hil : is_layout_md md = false) by (unfold is_layout_md; rewrite Ep; reflexivity).
          rewrite Hil. fold (calls_of_kms l sname kms).
          destruct (IH tr Htr) as [calls [Hp [Hs [Hd Hall]]]].
          destruct (subs_links recs missing l sname kms tr) as [r tr'] eqn:Er.
          exists calls. split; [exact Hp|]. split; [exact Hs|]. split.
          * cbn [fst snd] in *. apply (disciplined_map _ _ r); [exact Hd|].
            intros e ->. exists e. reflexivity.
          * intros x Hx. cbn [fst] in *. destruct r as [rest|e]; [|discriminate Hx].
            exact (Hall rest eq_refl).
        + (* a sublayout: the recursive call *)
          assert (Hil : is_layout_md md = true) by (unfold is_layout_md; rewrite Ep; reflexivity).
          rewrite Hil. cbn [map]. fold (calls_of_kms l sname kms).
          set (c := sub_call l sname (kid, md)).
          assert (Ecall : (match lookup (sublayout_dirname sname kid) recs with
                           | Some f => f (snd c) | None => missing (snd c) end) = call_fn recs missing c)
            by reflexivity.
          change (mkArgs md (JDict [(kid, match lookup kid (ly_keys l) with Some k => k | None => JNull end)])
                         None (JStr sname)) with (snd c).
          rewrite Ecall. pose proof (calls_disciplined c) as Hdc.
          destruct (call_fn recs missing c) as [sr str] eqn:Ec.
          destruct sr as [summary|e].
          * pose proof (disciplined_Ok_good _ _ _ Hdc) as Hstr.
            destruct (IH (tr ++ str) (all_good_app _ _ Htr Hstr)) as [calls [Hp [Hs [Hd Hall]]]].
            destruct (subs_links recs missing l sname kms (tr ++ str)) as [r tr'] eqn:Er.
            exists (c :: calls). split; [apply is_prefix_cons; exact Hp|]. split.
            { cbn [snd] in *. rewrite Hs. unfold VerifyTrace.call_traces. cbn [map concat].
              rewrite Ec. cbn [snd]. rewrite app_assoc. reflexivity. }
            split.
            { cbn [fst snd] in *. apply (disciplined_map _ _ r); [exact Hd|].
              intros e ->. exists e. reflexivity. }
            intros x Hx. cbn [fst] in *. destruct r as [rest|e]; [|discriminate Hx].
            destruct (Hall rest eq_refl) as [Hc Hok]. split; [rewrite Hc; reflexivity|].
            constructor; [|exact Hok]. exists summary. unfold VerifyTrace.call_ok. rewrite Ec. reflexivity.
          * exists [c]. split; [apply (is_prefix_cons _ _ [] _ (is_prefix_nil _ _))|]. split.
            { cbn [snd]. unfold VerifyTrace.call_traces. cbn [map concat]. rewrite Ec. cbn [snd].
              rewrite app_nil_r. reflexivity. }
            split.
            { apply disciplined_extend; [exact Htr|].
              apply (disciplined_map _ _ (@Err link e)); [exact Hdc|]. intros e0 _. exists e. reflexivity. }
            intros x Hx. discriminate Hx.
        + (* get_payload raises *)
          assert (Hil : is_layout_md md = false) by (unfold is_layout_md; rewrite Ep; reflexivity).
          rewrite Hil. fold (calls_of_kms l sname kms).
          exists []. split; [apply is_prefix_nil|]. split; [symmetry; apply app_nil_r|].
          split; [left; exact Htr|]. intros x Hx. discriminate Hx.
    Qed.

    Lemma subs_steps_shape : forall l vm tr,
      all_good tr ->
      exists calls,
        is_prefix calls (calls_of_vm l vm) /\
        snd (subs_steps recs missing l vm tr) = tr ++ call_traces calls /\
        disciplined (subs_steps recs missing l vm tr) /\
        (forall x, fst (subs_steps recs missing l vm tr) = Ok x ->
                   calls = calls_of_vm l vm /\ Forall call_ok calls).
    Proof.
      intros l. induction vm as [|[sname kms] vm IH]; intros tr Htr; cbn [subs_steps].
      - exists []. split; [apply is_prefix_nil|]. split; [symmetry; apply app_nil_r|].
        split; [left; exact Htr|]. intros x _. split; [reflexivity|constructor].
      - cbn [calls_of_vm flat_map fst snd]. fold (calls_of_vm l vm).
        destruct (subs_links_shape l sname kms tr Htr) as [c1 [Hp1 [Hs1 [Hd1 Hall1]]]].
        destruct (subs_links recs missing l sname kms tr) as [r1 tr1] eqn:E1.
        cbn [fst snd] in *. destruct r1 as [kl|e].
        + destruct (Hall1 kl eq_refl) as [Hc1 Hok1].
          pose proof (disciplined_Ok_good _ _ _ Hd1) as Hg1.
          destruct (IH tr1 Hg1) as [c2 [Hp2 [Hs2 [Hd2 Hall2]]]].
          destruct (subs_steps recs missing l vm tr1) as [r2 tr2] eqn:E2.
          cbn [fst snd] in *.
          exists (c1 ++ c2). split; [rewrite Hc1; apply is_prefix_app; exact Hp2|]. split.
          { rewrite Hs2, Hs1, call_traces_app, app_assoc. reflexivity. }
          split.
          { apply (disciplined_map _ _ r2); [exact Hd2|]. intros e ->. exists e. reflexivity. }
          intros x Hx. destruct r2 as [rest|e]; [|discriminate Hx].
          destruct (Hall2 rest eq_refl) as [Hc2 Hok2].
          split; [rewrite Hc1, Hc2; reflexivity | apply Forall_app; split; assumption].
        + exists c1. split; [apply is_prefix_app_r; exact Hp1|]. split; [exact Hs1|].
          split; [|intros x Hx; discriminate Hx].
          apply (disciplined_map _ _ (@Err (list (str * link)) e)); [exact Hd1|].
          intros e0 _. exists e. reflexivity.
    Qed.
  End Subs.

  (* ---------------------------------------------------------------- *)
  (** * One layout: verify_body *)

  Section Body.
    Variable b64dec : str -> option (list N).
    Variable loads : list N -> option json.
    Variable sig_ok : str -> list N -> str -> bool.
    Variable now_s : Z.
    Variable now_us : Z.

    Notation stage_pre := (stage_pre b64dec loads sig_ok now_s now_us).
    Notation verify_body := (verify_body b64dec loads sig_ok now_s now_us exec).

    (** everything the run of one layout did, relative to the runs of its sublayouts *)
    Record body_shape (files : list (str * file)) (recs : list (str * (args -> result)))
           (missing : args -> result) (a : args) (l : layout)
           (vm : list (str * list (str * metadata))) (calls : list (str * args)) (own : list ev) : Prop :=
      { bs_calls : is_prefix calls (calls_of_vm l vm);
        bs_own : is_prefix own (insp_cmds l);
        bs_trace : snd (verify_body files recs missing a) = call_traces recs missing calls ++ own;
        (** own inspections only after sublayouts, threshold agreement and step rules passed *)
        bs_after : own <> [] ->
                   exists chain reduced, fst (subs_steps recs missing l vm []) = Ok chain /\
                                         stage_mid l chain = Ok reduced;
        (** an accepted run made every call, all accepted, and ran every inspection *)
        bs_accept : forall lk, fst (verify_body files recs missing a) = Ok lk ->
                    calls = calls_of_vm l vm /\ Forall (call_ok recs missing) calls /\
                    own = insp_cmds l /\
                    exists chain reduced, fst (subs_steps recs missing l vm []) = Ok chain /\
                                          stage_mid l chain = Ok reduced }.

    Lemma vbody_pre_fail : forall files recs missing a e,
      stage_pre files a = Err e -> verify_body files recs missing a = (Err e, []).
    Proof. intros files recs missing a e H. unfold Verify.verify_body. rewrite H. reflexivity. Qed.

    Lemma vbody_shape : forall files recs missing a l vm,
      (forall c, disciplined (call_fn recs missing c)) ->
      stage_pre files a = Ok (l, vm) ->
      (exists calls own, body_shape files recs missing a l vm calls own) /\
      disciplined (verify_body files recs missing a).
    Proof.
      intros files recs missing a l vm Hdisc Hpre.
      destruct (subs_steps_shape recs missing Hdisc l vm [] all_good_nil) as [calls [Hp [Hs [Hd Hall]]]].
      destruct (subs_steps recs missing l vm []) as [r tr] eqn:Es. cbn [fst snd app] in *.
      destruct r as [chain|e].
      2:{ assert (Evb : verify_body files recs missing a = (Err e, tr))
            by (unfold Verify.verify_body; rewrite Hpre, Es; reflexivity).
          rewrite Evb. split; [|exact (disciplined_Err _ _ _ _ _ Hd)].
          exists calls, []. constructor; rewrite ?Evb; cbn [fst snd].
          - exact Hp.
          - apply is_prefix_nil.
          - rewrite app_nil_r. exact Hs.
          - intro H. exfalso. apply H. reflexivity.
          - intros lk Hlk. discriminate Hlk. }
      destruct (Hall chain eq_refl) as [Hc Hok].
      pose proof (disciplined_Ok_good _ _ _ Hd) as Hg.
      destruct (stage_mid l chain) as [reduced|e] eqn:Em.
      2:{ assert (Evb : verify_body files recs missing a = (Err e, tr))
            by (unfold Verify.verify_body; rewrite Hpre, Es, Em; reflexivity).
          rewrite Evb. split; [|left; exact Hg].
          exists calls, []. constructor; rewrite ?Evb; cbn [fst snd].
          - exact Hp.
          - apply is_prefix_nil.
          - rewrite app_nil_r. exact Hs.
          - intro H. exfalso. apply H. reflexivity.
          - intros lk Hlk. discriminate Hlk. }
      destruct (rai_shape (ly_inspect l) [] tr Hg) as [own [Hpo [Hso [Hdo Hallo]]]].
      destruct (run_all_inspections exec (ly_inspect l) [] tr) as [ri tri] eqn:Er. cbn [fst snd] in *.
      assert (Hafter : exists chain0 reduced0, fst (subs_steps recs missing l vm []) = Ok chain0 /\
                                               stage_mid l chain0 = Ok reduced0)
        by (exists chain, reduced; rewrite Es; split; [reflexivity|exact Em]).
      destruct ri as [ilinks|e].
      - assert (Evb : verify_body files recs missing a =
                      ((do _ <- verify_all_item_rules glob_match (insp_items l) (combine_links reduced ilinks);
                        get_summary_link l reduced (a_step_name a)), tri))
          by (unfold Verify.verify_body, stage_final; rewrite Hpre, Es, Em, Er; reflexivity).
        rewrite Evb. split.
        + exists calls, own. constructor; rewrite ?Evb; cbn [fst snd].
          * exact Hp.
          * exact Hpo.
          * rewrite Hso, Hs. reflexivity.
          * intros _. exact Hafter.
          * intros lk _. split; [exact Hc|]. split; [exact Hok|]. split; [exact (Hallo ilinks eq_refl)|].
            exact Hafter.
        + left. exact (disciplined_Ok_good _ _ _ Hdo).
      - assert (Evb : verify_body files recs missing a = (Err e, tri))
          by (unfold Verify.verify_body, stage_final; rewrite Hpre, Es, Em, Er; reflexivity).
        rewrite Evb. split.
        + exists calls, own. constructor; rewrite ?Evb; cbn [fst snd].
          * exact Hp.
          * exact Hpo.
          * rewrite Hso, Hs. reflexivity.
          * intros _. exact Hafter.
          * intros lk Hlk. discriminate Hlk.
        + exact (disciplined_Err _ _ _ _ _ Hdo).
    Qed.

    Lemma vbody_disciplined : forall files recs missing a,
      (forall c, disciplined (call_fn recs missing c)) ->
      disciplined (verify_body files recs missing a).
    Proof.
      intros files recs missing a Hdisc.
      destruct (stage_pre files a) as [[l vm]|e] eqn:Hpre.
      - exact (proj2 (vbody_shape files recs missing a l vm Hdisc Hpre)).
      - rewrite (vbody_pre_fail _ _ _ _ _ Hpre). left. reflexivity.
    Qed.

    (* -------------------------------------------------------------- *)
    (** * A missing directory is an empty directory *)

    Lemma load_keyids_nil : forall name kids acc,
      load_keyids b64dec loads [] name kids acc = Ok acc.
    Proof. intros name. induction kids as [|k kids IH]; intro acc; cbn; [reflexivity|apply IH]. Qed.

    Lemma verify_step_links_nil : forall l mk s used acc,
      verify_step_links sig_ok now_s l mk s [] used acc = Ok (used, acc).
    Proof. reflexivity. Qed.

    Lemma stage_pre_no_files : forall a l vm,
      stage_pre [] a = Ok (l, vm) -> Forall (fun skm => snd skm = []) vm.
    Proof.
      intros a l vm H. unfold Verify.stage_pre in H.
      bind_inv H u Hu. bind_inv H p Hp. bind_inv H l0 Hl0. bind_inv H u' He.
      bind_inv H l' Hl'. bind_inv H sm Hsm. bind_inv H vm' Hvm. inversion H; subst l' vm'. clear H.
      assert (Hsm' : Forall (fun sf => snd sf = []) sm).
      { clear Hvm. unfold load_links_for_layout in Hsm. apply mapM_Ok_Forall2 in Hsm.
        induction Hsm as [|s sf steps sm' Hs _ IH]; [constructor|]. constructor; [|exact IH].
        bind_inv Hs f Hf. inversion Hs; subst sf. cbn [snd].
        unfold load_step in Hf. destruct (negb (name_ok (st_name s))); [discriminate Hf|].
        rewrite load_keyids_nil in Hf. cbn [bind] in Hf.
        destruct (Z.of_nat (length (@nil (str * metadata))) <? st_threshold s)%Z; [discriminate Hf|].
        inversion Hf. reflexivity. }
      unfold verify_link_signature_thresholds in Hvm. apply mapM_Ok_Forall2 in Hvm.
      induction Hvm as [|s sg steps vm' Hs _ IH]; [constructor|]. constructor; [|exact IH].
      assert (Hfound : match lookup (st_name s) sm with Some f => f | None => [] end = []).
      { destruct (lookup (st_name s) sm) as [f|] eqn:El; [|reflexivity].
        apply lookup_In in El. rewrite Forall_forall in Hsm'. exact (Hsm' _ El). }
      rewrite Hfound in Hs. cbn [verify_step_links bind] in Hs.
      destruct (Z.of_nat (length (dedup [])) <? st_threshold s)%Z; [discriminate Hs|].
      inversion Hs. reflexivity.
    Qed.

    Lemma subs_steps_no_links : forall recs missing recs' missing' l vm tr,
      Forall (fun skm => snd skm = []) vm ->
      subs_steps recs missing l vm tr = subs_steps recs' missing' l vm tr.
    Proof.
      intros recs missing recs' missing' l. induction vm as [|[sname kms] vm IH]; intros tr H; [reflexivity|].
      inversion H as [|x y Hk Hv]; subst. cbn [snd] in Hk. subst kms.
      cbn [subs_steps subs_links]. rewrite (IH tr Hv). reflexivity.
    Qed.

    Lemma vbody_no_files : forall recs missing recs' missing' a,
      verify_body [] recs missing a = verify_body [] recs' missing' a.
    Proof.
      intros recs missing recs' missing' a. unfold Verify.verify_body.
      destruct (stage_pre [] a) as [[l vm]|e] eqn:Hpre; [|reflexivity].
      rewrite (subs_steps_no_links recs missing recs' missing' l vm [] (stage_pre_no_files _ _ _ Hpre)).
      reflexivity.
    Qed.
  End Body.
End Trace.

(* ------------------------------------------------------------------ *)
(** * The recursion: every nesting depth *)

Section Tree.
  Variable b64dec : str -> option (list N).
  Variable loads : list N -> option json.
  Variable sig_ok : str -> list N -> str -> bool.
  Variable now_s : Z.
  Variable now_us : Z.
  Variable exec : list json -> exec_result.

  Notation vfy := (vfy b64dec loads sig_ok now_s now_us exec).
  Notation recs_of := (recs_of b64dec loads sig_ok now_s now_us exec).
  Notation vmissing := (vmissing b64dec loads sig_ok now_s now_us exec).
  Notation stage_pre := (stage_pre b64dec loads sig_ok now_s now_us).

  Lemma vmissing_empty_dir : forall a, vmissing a = vfy (Dir [] []) a.
  Proof.
    intro a. rewrite verify_unfold. unfold VerifySpec.vmissing, VerifySpec.vbody, verify_in_missing_dir.
    apply vbody_no_files.
  Qed.

  (** the recursive call as a verification of a sub-directory *)
  Lemma call_fn_subdir : forall subs c,
    call_fn (recs_of subs) vmissing c = vfy (subdir subs (fst c)) (snd c).
  Proof.
    intros subs c. unfold call_fn, subdir. rewrite lookup_recs_of.
    destruct (lookup (fst c) subs) as [t|]; cbn [option_map]; [reflexivity|apply vmissing_empty_dir].
  Qed.

  Definition sub_traces (subs : list (str * dirtree)) (calls : list (str * args)) : list ev :=
    concat (map (fun c => snd (vfy (subdir subs (fst c)) (snd c))) calls).

  Lemma call_traces_sub : forall subs calls,
    call_traces (recs_of subs) vmissing calls = sub_traces subs calls.
  Proof.
    intros subs calls. unfold call_traces, sub_traces. f_equal.
    apply map_ext. intro c. rewrite call_fn_subdir. reflexivity.
  Qed.

  Lemma subdir_cases : forall subs name,
    subdir subs name = Dir [] [] \/ exists n, In (n, subdir subs name) subs.
  Proof.
    intros subs name. unfold subdir. destruct (lookup name subs) as [t|] eqn:E; [|left; reflexivity].
    right. exists name. apply lookup_In. exact E.
  Qed.

  (** nested induction with the empty directory as an extra base case *)
  Lemma dirtree_sub_ind : forall P : dirtree -> Prop,
    P (Dir [] []) ->
    (forall files subs, (forall name, P (subdir subs name)) -> P (Dir files subs)) -> forall d, P d.
  Proof.
    intros P Hnil Hstep. apply dirtree_nested_ind. intros files subs IH. apply Hstep.
    intro name. destruct (subdir_cases subs name) as [->|[n Hin]]; [exact Hnil|].
    rewrite Forall_forall in IH. exact (IH _ Hin).
  Qed.

  (** (c) nothing follows a failed command, at any depth *)
  Theorem verify_disciplined : forall d a, disciplined exec (vfy d a).
  Proof.
    assert (Hnil : forall a, disciplined exec (vfy (Dir [] []) a)).
    { intro a. rewrite verify_unfold. unfold VerifySpec.vbody. apply vbody_disciplined.
      intro c. unfold call_fn, VerifySpec.recs_of. cbn [map lookup].
      unfold VerifySpec.vmissing, verify_in_missing_dir. apply vbody_disciplined.
      intro c'. left. reflexivity. }
    apply (dirtree_sub_ind (fun d => forall a, disciplined exec (vfy d a))); [exact Hnil|].
    intros files subs IH a. rewrite verify_unfold. unfold VerifySpec.vbody. apply vbody_disciplined.
    intro c. rewrite call_fn_subdir. apply IH.
  Qed.

  Theorem verify_stop_at_failure : forall d a r pre c post,
    vfy d a = (r, pre ++ Exec c :: post) -> exec_good (exec c) = false ->
    post = [] /\ exists e, r = Err e.
  Proof.
    intros d a r pre c post H Hbad.
    pose proof (verify_disciplined d a) as Hd. rewrite H in Hd.
    exact (stop_at_failure exec _ r _ pre c post Hd eq_refl Hbad).
  Qed.

  (** (b) the shape of the trace of one layout, relative to its sub-directories *)
  Record run_shape (files : list (str * file)) (subs : list (str * dirtree)) (a : args)
         (l : layout) (vm : list (str * list (str * metadata)))
         (calls : list (str * args)) (own : list ev) : Prop :=
    { rs_calls : is_prefix calls (calls_of_vm l vm);
      rs_own : is_prefix own (insp_cmds l);
      rs_trace : snd (vfy (Dir files subs) a) = sub_traces subs calls ++ own;
      rs_after : own <> [] ->
                 exists chain reduced, fst (subs_steps (recs_of subs) vmissing l vm []) = Ok chain /\
                                       stage_mid l chain = Ok reduced;
      rs_accept : forall lk, fst (vfy (Dir files subs) a) = Ok lk ->
                  calls = calls_of_vm l vm /\
                  Forall (fun c => exists s, fst (vfy (subdir subs (fst c)) (snd c)) = Ok s) calls /\
                  own = insp_cmds l /\
                  exists chain reduced, fst (subs_steps (recs_of subs) vmissing l vm []) = Ok chain /\
                                        stage_mid l chain = Ok reduced }.

  Theorem verify_shape : forall files subs a,
    match stage_pre files a with
    | Err e => vfy (Dir files subs) a = (Err e, [])
    | Ok (l, vm) => exists calls own, run_shape files subs a l vm calls own
    end.
  Proof.
    intros files subs a. destruct (stage_pre files a) as [[l vm]|e] eqn:Hpre.
    - assert (Hdisc : forall c, disciplined exec (call_fn (recs_of subs) vmissing c)).
      { intro c. rewrite call_fn_subdir. apply verify_disciplined. }
      destruct (vbody_shape exec b64dec loads sig_ok now_s now_us files (recs_of subs) vmissing a l vm Hdisc Hpre)
        as [[calls [own [H1 H2 H3 H4 H5]]] _].
      exists calls, own. constructor.
      + exact H1.
      + exact H2.
      + rewrite verify_unfold. unfold VerifySpec.vbody. rewrite H3, call_traces_sub. reflexivity.
      + exact H4.
      + intros lk Hlk. rewrite verify_unfold in Hlk. unfold VerifySpec.vbody in Hlk.
        destruct (H5 lk Hlk) as [Hc [Hok [Ho Hch]]].
        split; [exact Hc|]. split; [|split; [exact Ho|exact Hch]].
        rewrite Forall_forall in *. intros c Hin. specialize (Hok c Hin).
        unfold call_ok in Hok. rewrite call_fn_subdir in Hok. exact Hok.
    - rewrite verify_unfold. unfold VerifySpec.vbody. apply vbody_pre_fail. exact Hpre.
  Qed.

  (** (a) every event of every run is an inspection of a layout of the tree that passed all of
      its own earlier stages *)
  Definition passed_prior (d : dirtree) (a : args) (l : layout) : Prop :=
    match d with
    | Dir files subs =>
        exists vm chain reduced,
          stage_pre files a = Ok (l, vm) /\
          fst (subs_steps (recs_of subs) vmissing l vm []) = Ok chain /\
          stage_mid l chain = Ok reduced
    end.

  (** the (directory, arguments) pairs the recursion reaches *)
  Inductive reached : dirtree -> args -> dirtree -> args -> Prop :=
  | R_here : forall d a, reached d a d a
  | R_sub : forall files subs a l vm c d' a',
      stage_pre files a = Ok (l, vm) -> In c (calls_of_vm l vm) ->
      reached (subdir subs (fst c)) (snd c) d' a' ->
      reached (Dir files subs) a d' a'.

  Lemma no_calls_without_files : forall a l vm, stage_pre [] a = Ok (l, vm) -> calls_of_vm l vm = [].
  Proof.
    intros a l vm Hpre.
    pose proof (stage_pre_no_files _ _ _ _ _ _ _ _ Hpre) as Hf. clear Hpre.
    induction Hf as [|[sname kms] vm' Hk _ IH]; [reflexivity|].
    cbn [snd] in Hk. subst kms. unfold calls_of_vm in *.
    cbn [flat_map fst snd calls_of_kms filter map app]. exact IH.
  Qed.

  Definition after_checks_at (d : dirtree) : Prop :=
    forall a e, In e (snd (vfy d a)) ->
      exists d' a' l, reached d a d' a' /\ passed_prior d' a' l /\ In e (insp_cmds l).

  Lemma after_checks_step : forall files subs,
    (forall a l vm c, stage_pre files a = Ok (l, vm) -> In c (calls_of_vm l vm) ->
       forall e, In e (snd (vfy (subdir subs (fst c)) (snd c))) ->
         exists d' a' l', reached (subdir subs (fst c)) (snd c) d' a' /\ passed_prior d' a' l' /\
                          In e (insp_cmds l')) ->
    after_checks_at (Dir files subs).
  Proof.
    intros files subs IH a e Hin. pose proof (verify_shape files subs a) as Hs.
    destruct (stage_pre files a) as [[l vm]|er] eqn:Hpre.
    - destruct Hs as [calls [own [H1 H2 H3 H4 H5]]]. rewrite H3 in Hin.
      apply in_app_or in Hin. destruct Hin as [Hin|Hin].
      + unfold sub_traces in Hin. apply in_concat in Hin. destruct Hin as [tr [Htr Hin]].
        apply in_map_iff in Htr. destruct Htr as [c [<- Hc]].
        pose proof (is_prefix_In _ _ _ _ H1 Hc) as Hc'.
        destruct (IH a l vm c Hpre Hc' e Hin) as [d' [a' [l' [Hr [Hp Hl]]]]].
        exists d', a', l'. split; [|split; assumption].
        exact (R_sub files subs a l vm c d' a' Hpre Hc' Hr).
      + exists (Dir files subs), a, l. split; [constructor|]. split.
        * assert (Hne : own <> []) by (intro E; subst own; destruct Hin).
          destruct (H4 Hne) as [chain [reduced [Hc Hm]]].
          exists vm, chain, reduced. repeat split; assumption.
        * exact (is_prefix_In _ _ _ _ H2 Hin).
    - rewrite Hs in Hin. destruct Hin.
  Qed.

  Theorem verify_after_checks : forall d, after_checks_at d.
  Proof.
    apply dirtree_sub_ind.
    - apply after_checks_step. intros a l vm c Hpre Hc. exfalso.
      rewrite (no_calls_without_files a l vm Hpre) in Hc. destruct Hc.
    - intros files subs IH. apply after_checks_step. intros a l vm c _ _ e Hin.
      exact (IH (fst c) (snd c) e Hin).
  Qed.

  (** contrapositive: a layout that fails any earlier stage contributes no event of its own *)
  Theorem no_exec_from_bad_layout : forall files subs a,
    (forall l, ~ passed_prior (Dir files subs) a l) ->
    match stage_pre files a with
    | Err e => vfy (Dir files subs) a = (Err e, [])
    | Ok (l, vm) => exists calls, is_prefix calls (calls_of_vm l vm) /\
                                  snd (vfy (Dir files subs) a) = sub_traces subs calls
    end.
  Proof.
    intros files subs a Hbad. pose proof (verify_shape files subs a) as Hs.
    destruct (stage_pre files a) as [[l vm]|er] eqn:Hpre; [|exact Hs].
    destruct Hs as [calls [own [H1 H2 H3 H4 H5]]].
    exists calls. split; [exact H1|].
    destruct own as [|o own]; [rewrite app_nil_r in H3; exact H3|exfalso].
    destruct (H4 ltac:(discriminate)) as [chain [reduced [Hc Hm]]].
    apply (Hbad l). exists vm, chain, reduced. repeat split; assumption.
  Qed.
End Tree.
