(** ResolveMain.v — the C10 theorems about FileResolver.hash_artifacts and record_artifacts_as_dict. *)
From InToto.Model Require Import Base Fs Resolve.
From InToto.Proofs Require Import FsProofs ResolveSpec ResolveProofs ResolveFold.
Local Arguments N.eqb : simpl never.

(* ------------------------------------------------------------------ *)
(** * every recorded path, resolved from the base directory, denotes the file that was hashed *)
Section Coherence.
  Variable root : entries.
  Variable excl : str -> bool.
  Variable follow : bool.
  Hypothesis WF : wf_tree root.

  Lemma resolve_app : forall f1 loc cs1 loc' f2 cs2 r,
    resolve root f1 loc cs1 = RDir loc' -> resolve root f2 loc' cs2 = r -> r <> RDiverge ->
    resolve root (f1 + f2) loc (cs1 ++ cs2) = r.
  Proof.
    induction f1 as [|f1 IHf]; intros loc cs1; revert loc.
    - induction cs1 as [|c rest IH]; intros loc loc' f2 cs2 r H1 H2 Hr; rewrite resolve_eq in H1.
      + injection H1 as ->. exact H2.
      + simpl app. rewrite resolve_eq.
        destruct (is_nil c || eqs c s_dot); [eapply IH; eauto|].
        destruct (eqs c s_dotdot); [destruct loc; [discriminate | eapply IH; eauto]|].
        destruct (get_dir root loc); [|discriminate].
        destruct (lookup c e) as [[?|?|?]|]; try discriminate.
        * destruct (is_nil rest); discriminate.
        * eapply IH; eauto.
    - induction cs1 as [|c rest IH]; intros loc loc' f2 cs2 r H1 H2 Hr; rewrite resolve_eq in H1.
      + injection H1 as ->. simpl app. eapply resolve_mono; eauto. lia.
      + simpl app. rewrite resolve_eq.
        destruct (is_nil c || eqs c s_dot); [eapply IH; eauto|].
        destruct (eqs c s_dotdot); [destruct loc; [discriminate | eapply IH; eauto]|].
        destruct (get_dir root loc); [|discriminate].
        destruct (lookup c e) as [[?|?|t]|]; try discriminate.
        * destruct (is_nil rest); discriminate.
        * eapply IH; eauto.
        * simpl plus. destruct (is_nil t); [discriminate|]. destruct (absolute t); [discriminate|].
          rewrite app_assoc. eapply IHf; eauto.
  Qed.

  Lemma denotes_child : forall cwd p loc n r,
    gname n -> denotes root cwd (split_on c_slash p) (RDir loc) -> denotes root loc [n] r ->
    denotes root cwd (split_on c_slash (child p n)) r.
  Proof.
    intros cwd p loc n r G [_ [f1 H1]] [Hr [f2 H2]]. split; [assumption|]. unfold child.
    destruct (eqs p s_dot) eqn:E.
    - apply eqs_eq in E. subst p. rewrite split_on_noslash by (apply normalc_noslash; assumption).
      change (split_on c_slash s_dot) with [s_dot] in H1. rewrite resolve_eq in H1. simpl in H1.
      rewrite resolve_eq in H1. inversion H1; subst. eauto.
    - rewrite split_on_app, (split_on_noslash n) by (apply normalc_noslash; assumption).
      exists (f1 + f2)%nat. eapply resolve_app; eauto.
  Qed.

  Lemma entry_gname : forall loc n node, entry_at root loc n node -> gname n.
  Proof.
    intros loc n node [es [G L]]. destruct (WF _ _ G) as [_ GN]. apply GN.
    apply in_map_iff. exists (n, node). split; [reflexivity | apply lookup_In; assumption].
  Qed.

  Lemma below_denotes : forall cwd p loc f c,
    below root excl follow p loc f c -> denotes root cwd (split_on c_slash p) (RDir loc) ->
    denotes root cwd (split_on c_slash f) (RFile c).
  Proof.
    intros cwd p loc f c Hb. induction Hb as [p loc n node c He Hd Hx | p loc n node loc' f c He Hd Hl Hx Hb IH]; intro D.
    - eapply denotes_child; eauto. eapply entry_gname; eauto.
    - apply IH. eapply denotes_child; eauto. eapply entry_gname; eauto.
  Qed.

  Lemma path_denotes_split : forall cwd p r, path_denotes root cwd p r ->
    (exists c, r = RFile c) \/ (exists l, r = RDir l) -> denotes root cwd (split_on c_slash p) r.
  Proof.
    intros cwd p r [N [f Hf]] K. split; [assumption|]. exists f. unfold stat_path in Hf.
    destruct (is_nil p); [destruct K as [[? ->]|[? ->]]; discriminate|].
    destruct (absolute p); [destruct K as [[? ->]|[? ->]]; discriminate|]. assumption.
  Qed.

  (** C10: the key's path really is a path of the hashed file *)
  Theorem reachable_denotes : forall cwd u f c,
    reachable root excl follow cwd u f c -> denotes root cwd (split_on c_slash f) (RFile c).
  Proof.
    intros cwd u f c [_ [[D ->]|[loc [D Hb]]]].
    - apply path_denotes_split; eauto.
    - eapply below_denotes; eauto. apply path_denotes_split; eauto.
  Qed.

  Theorem reachable_functional : forall cwd u u' f c c',
    reachable root excl follow cwd u f c -> reachable root excl follow cwd u' f c' -> c = c'.
  Proof.
    intros cwd u u' f c c' R1 R2. apply reachable_denotes in R1, R2.
    destruct R1 as [N1 [f1 H1]], R2 as [N2 [f2 H2]].
    pose proof (resolve_det root _ _ _ _ _ _ H1 H2 N1 N2) as E. congruence.
  Qed.

  (** dangling links are never recorded: what is recorded denotes a regular file *)
  Theorem reachable_not_dangling : forall cwd u f c,
    reachable root excl follow cwd u f c -> ~ denotes root cwd (split_on c_slash f) RNone.
  Proof.
    intros cwd u f c R [N2 [f2 H2]]. apply reachable_denotes in R. destruct R as [N1 [f1 H1]].
    pose proof (resolve_det root _ _ _ _ _ _ H1 H2 N1 N2). discriminate.
  Qed.

  Theorem dangling_start_nothing : forall cwd u f c,
    path_denotes root cwd (start_path u) RNone -> ~ reachable root excl follow cwd u f c.
  Proof.
    intros cwd u f c [N0 [f0 H0]] [_ [[[N1 [f1 H1]] _]|[loc [[N1 [f1 H1]] _]]]];
      unfold stat_path in *; destruct (is_nil (start_path u)); try discriminate;
      destruct (absolute (start_path u)); try discriminate;
      pose proof (resolve_det root _ _ _ _ _ _ H0 H1 N0 N1); discriminate.
  Qed.

  (** every path between the start path and a reachable file is not excluded *)
  Theorem below_chain : forall p loc f c,
    below root excl follow p loc f c ->
    exists ns, ns <> [] /\ f = fold_left child ns p /\
               forall k, (0 < k <= length ns)%nat -> excl (fold_left child (firstn k ns) p) = false.
  Proof.
    intros p loc f c Hb. induction Hb as [p loc n node c He Hd Hx | p loc n node loc' f c He Hd Hl Hx Hb IH].
    - exists [n]. split; [discriminate|]. split; [reflexivity|]. intros k Hk. simpl in Hk.
      assert (k = 1%nat) by lia. subst. simpl. assumption.
    - destruct IH as [ns [Hne [Hf Hk]]]. exists (n :: ns). split; [discriminate|]. split; [simpl; assumption|].
      intros k Hk'. destruct k as [|k]; [lia|]. simpl. destruct k as [|k]; [simpl; assumption|].
      apply Hk. simpl in Hk'. lia.
  Qed.
End Coherence.

(* ------------------------------------------------------------------ *)
(** * names *)
Lemma lstrip_first_strip_prefix : forall ps q, lstrip_first ps q = strip_prefix ps q.
Proof.
  unfold strip_prefix. induction ps as [|p ps IH]; intro q; simpl; [reflexivity|].
  destruct (starts_with p q); [reflexivity | apply IH].
Qed.

Lemma mangled_name_of : forall ls u f, mangled_name ls f (snd (strip_scheme_prefix u)) = name_of ls u f.
Proof. intros. unfold mangled_name, name_of. rewrite lstrip_first_strip_prefix. reflexivity. Qed.

Lemma replace_c_id : forall a b s, ~ In a s -> replace_c a b s = s.
Proof.
  unfold replace_c. induction s as [|c s IH]; intro H; simpl; [reflexivity|].
  destruct (N.eqb c a) eqn:E.
  - apply N.eqb_eq in E. subst. exfalso. apply H. left. reflexivity.
  - rewrite IH; [reflexivity | intro; apply H; right; assumption].
Qed.

Lemma scheme_prefix_cases : forall u,
  snd (strip_scheme_prefix u) = [] \/ snd (strip_scheme_prefix u) = s_file_colon.
Proof. intro u. unfold strip_scheme_prefix. destruct (starts_with s_file_colon u); simpl; auto. Qed.

Lemma starts_with_app_self : forall p r, starts_with p (p ++ r) = true.
Proof. intros. apply starts_with_spec. eauto. Qed.

(** without a prefix list distinct clean paths get distinct names *)
Theorem no_strip_injective : forall u u' f f',
  clean f -> clean f' -> name_of [] u f = name_of [] u' f' ->
  f = f' /\ snd (strip_scheme_prefix u) = snd (strip_scheme_prefix u').
Proof.
  intros u u' f f' [B1 S1] [B2 S2] E. unfold name_of, strip_prefix in E. simpl in E.
  rewrite !replace_c_id in E by assumption.
  destruct (scheme_prefix_cases u) as [P|P], (scheme_prefix_cases u') as [P'|P']; rewrite P, P' in *.
  - rewrite !app_nil_l in E. auto.
  - rewrite app_nil_l in E. subst f. rewrite starts_with_app_self in S1. discriminate.
  - rewrite app_nil_l in E. subst f'. rewrite starts_with_app_self in S2. discriminate.
  - apply app_inv_head in E. auto.
Qed.

Lemma NoDup_app_r : forall {A} (l1 l2 : list A), NoDup (l1 ++ l2) -> NoDup l2.
Proof. induction l1 as [|x l1 IH]; intros l2 N; simpl in *; [assumption|]. inversion N; subst. auto. Qed.

Lemma NoDup_app_disj : forall {A} (l1 l2 : list A) a, NoDup (l1 ++ l2) -> In a l1 -> In a l2 -> False.
Proof.
  induction l1 as [|x l1 IH]; intros l2 a N I1 I2; simpl in *; [contradiction|].
  inversion N; subst. destruct I1 as [->|I1]; [apply H1; rewrite in_app_iff; auto | eauto].
Qed.

(* ------------------------------------------------------------------ *)
Section Main.
  Variable H : list N -> str.
  Variable excl : str -> bool.
  Variable root : entries.
  Variable fuel : nat.
  Variable o : fopts.
  Variable cwd : list str.
  Hypothesis WF : wf_tree root.

  Notation reach := (reachable root excl (o_follow o) cwd).
  Notation ls := (o_lstrip o).
  Notation value := (hash_content H (o_normalize o)).
  Notation hashes uris := (hash_uris H excl root fuel o cwd uris []).

  Lemma elem_name : forall u f c,
    nm o (snd (strip_scheme_prefix u), f, c) = name_of ls u f.
  Proof. intros. unfold nm. simpl. apply mangled_name_of. Qed.

  Lemma in_cands : forall uris L u f c,
    all_cands excl root fuel o cwd uris = Ok L -> In u uris -> reach u f c ->
    In (snd (strip_scheme_prefix u), f, c) L.
  Proof.
    intros uris L u f c HL Hu R. apply (all_cands_spec H excl root fuel o cwd WF uris L HL). exists u. simpl. auto.
  Qed.

  (** nothing invented, value exact *)
  Theorem hash_uris_sound : forall uris d k h,
    hashes uris = Ok d -> lookup k d = Some h ->
    exists u f c, In u uris /\ reach u f c /\ name_of ls u f = k /\ h = value c.
  Proof.
    intros uris d k h Hd Hl. destruct (hash_uris_cands _ _ _ _ _ _ _ _ _ Hd) as [L HL].
    rewrite (hash_uris_flat H excl root fuel o cwd uris L [] HL) in Hd.
    destruct (add_flat_sound H o _ _ _ _ _ Hd Hl) as [A|[[[pre f] c] [Hin [Hn Hv]]]]; [discriminate|].
    apply (all_cands_spec H excl root fuel o cwd WF uris L HL) in Hin. destruct Hin as [u [Hu [Hp R]]].
    simpl in Hp, R. subst pre. exists u, f, c. rewrite <- elem_name with (c := c). auto.
  Qed.

  (** never silently dropped: every reachable file's name is a key, valued by a reachable file of that name *)
  Theorem hash_uris_key : forall uris d u f c,
    hashes uris = Ok d -> In u uris -> reach u f c ->
    exists h, lookup (name_of ls u f) d = Some h.
  Proof.
    intros uris d u f c Hd Hu R. destruct (hash_uris_cands _ _ _ _ _ _ _ _ _ Hd) as [L HL].
    rewrite (hash_uris_flat H excl root fuel o cwd uris L [] HL) in Hd.
    rewrite <- elem_name with (c := c). eapply add_flat_key; eauto. eapply in_cands; eauto.
  Qed.

  (** the files that share a name share their content: from the collision check when there is a
      prefix list, from injectivity of names on clean paths when there is none *)
  Definition clean_run (uris : list str) : Prop :=
    ls = [] -> forall u f c, In u uris -> reach u f c -> clean f.

  Lemma unambiguous : forall uris L d x,
    all_cands excl root fuel o cwd uris = Ok L -> add_flat H o L [] = Ok d -> clean_run uris ->
    In x L -> forall y, In y L -> nm o y = nm o x -> hv H o y = hv H o x.
  Proof.
    intros uris L d x HL Hd Hc Hx y Hy E. destruct ls as [|l0 lr] eqn:Els.
    - pose proof (proj1 (all_cands_spec H excl root fuel o cwd WF uris L HL x) Hx) as [u [Hu [Pu Ru]]].
      pose proof (proj1 (all_cands_spec H excl root fuel o cwd WF uris L HL y) Hy) as [u' [Hu' [Pu' Ru']]].
      destruct x as [[pre f] c], y as [[pre' f'] c']. simpl in *. subst pre pre'.
      unfold nm in E. simpl in E. rewrite Els in E. rewrite !mangled_name_of in E.
      destruct (no_strip_injective u' u f' f (Hc Els _ _ _ Hu' Ru') (Hc Els _ _ _ Hu Ru) E) as [Ef _].
      subst f'. unfold hv. simpl. f_equal. f_equal. eapply reachable_functional; eauto.
    - assert (Hne : ls <> []) by (rewrite Els; discriminate).
      destruct (add_flat_prefix_nodup H o L [] d Hne Hd) as [ND _].
      rewrite (NoDup_map_inj (nm o) L y x ND Hy Hx E). reflexivity.
  Qed.

  (** nothing missed, value exact *)
  Theorem hash_uris_complete : forall uris d u f c,
    hashes uris = Ok d -> clean_run uris -> In u uris -> reach u f c ->
    lookup (name_of ls u f) d = Some (value c).
  Proof.
    intros uris d u f c Hd Hc Hu R. destruct (hash_uris_cands _ _ _ _ _ _ _ _ _ Hd) as [L HL].
    rewrite (hash_uris_flat H excl root fuel o cwd uris L [] HL) in Hd.
    pose proof (in_cands _ _ _ _ _ HL Hu R) as Hin.
    rewrite <- elem_name with (c := c).
    change (value c) with (hv H o (snd (strip_scheme_prefix u), f, c)).
    apply (add_flat_complete H o L [] d _ Hd Hin). eapply unambiguous; eauto.
  Qed.

  Theorem hash_uris_exact : forall uris d,
    hashes uris = Ok d -> clean_run uris ->
    forall k h, lookup k d = Some h <->
                exists u f c, In u uris /\ reach u f c /\ name_of ls u f = k /\ h = value c.
  Proof.
    intros uris d Hd Hc k h. split; [eapply hash_uris_sound; eauto|].
    intros [u [f [c [Hu [R [<- ->]]]]]]. eapply hash_uris_complete; eauto.
  Qed.

  (** two distinct reachable paths with one name under a prefix list: never a result *)
  Theorem hash_uris_collision : forall uris u u' f f' c c',
    ls <> [] -> In u uris -> In u' uris -> reach u f c -> reach u' f' c' -> f <> f' ->
    name_of ls u f = name_of ls u' f' ->
    (forall d, hashes uris <> Ok d) /\
    (forall L, all_cands excl root fuel o cwd uris = Ok L -> hashes uris = Err EPrefix).
  Proof.
    intros uris u u' f f' c c' Hls Hu Hu' R R' Hne En.
    assert (K : forall L, all_cands excl root fuel o cwd uris = Ok L -> hashes uris = Err EPrefix).
    { intros L HL. rewrite (hash_uris_flat H excl root fuel o cwd uris L [] HL).
      apply add_flat_collision; [assumption|]. intro ND.
      pose proof (in_cands _ _ _ _ _ HL Hu R) as I1. pose proof (in_cands _ _ _ _ _ HL Hu' R') as I2.
      assert (E : nm o (snd (strip_scheme_prefix u), f, c) = nm o (snd (strip_scheme_prefix u'), f', c'))
        by (rewrite !elem_name; assumption).
      pose proof (NoDup_map_inj (nm o) L _ _ ND I1 I2 E) as X. inversion X. contradiction. }
    split; [|assumption]. intros d Hd. destruct (hash_uris_cands _ _ _ _ _ _ _ _ _ Hd) as [L HL].
    rewrite (K L HL) in Hd. discriminate.
  Qed.

  (** fail-closed caveat: ONE file reached from two start paths (overlapping or repeated, same
      scheme) under a prefix list also raises PrefixError *)
  Lemma all_cands_app : forall a b L,
    all_cands excl root fuel o cwd (a ++ b) = Ok L ->
    exists La Lb, all_cands excl root fuel o cwd a = Ok La /\ all_cands excl root fuel o cwd b = Ok Lb /\ L = La ++ Lb.
  Proof.
    induction a as [|u a IH]; intros b L HL; simpl in *.
    - exists [], L. auto.
    - apply bind_ok in HL. destruct HL as [pc [Hpc HL]]. apply bind_ok in HL. destruct HL as [r [Hr HL]].
      inversion HL; subst. destruct (IH _ _ Hr) as [La [Lb [A [B ->]]]]. rewrite Hpc, A. simpl.
      eexists _, Lb. split; [reflexivity|]. split; [assumption|]. rewrite app_assoc. reflexivity.
  Qed.

  Theorem hash_uris_overlap_spurious : forall l1 u l2 f c c',
    ls <> [] -> reach u f c ->
    forall u', snd (strip_scheme_prefix u') = snd (strip_scheme_prefix u) -> reach u' f c' ->
    forall d, hashes (l1 ++ u :: l2 ++ [u']) <> Ok d.
  Proof.
    intros l1 u l2 f c c' Hls R u' Ep R' d Hd.
    destruct (hash_uris_cands _ _ _ _ _ _ _ _ _ Hd) as [L HL].
    rewrite (hash_uris_flat H excl root fuel o cwd _ L [] HL) in Hd.
    destruct (add_flat_prefix_nodup H o L [] d Hls Hd) as [ND _].
    apply all_cands_app in HL. destruct HL as [L1 [L2 [H1 [H2 ->]]]].
    change (u :: l2 ++ [u']) with ([u] ++ l2 ++ [u']) in H2.
    apply all_cands_app in H2. destruct H2 as [Lu [L3 [Hu [H3 ->]]]].
    apply all_cands_app in H3. destruct H3 as [L4 [Lu' [H4 [Hu' ->]]]].
    assert (I1 : In (snd (strip_scheme_prefix u), f, c) Lu) by (eapply in_cands; eauto; left; reflexivity).
    assert (I2 : In (snd (strip_scheme_prefix u'), f, c') Lu') by (eapply in_cands; eauto; left; reflexivity).
    rewrite map_app in ND. apply NoDup_app_r in ND. rewrite map_app in ND.
    apply (NoDup_app_disj _ _ (name_of ls u f) ND).
    - rewrite <- elem_name with (c := c). apply in_map. assumption.
    - rewrite map_app, in_app_iff. right. rewrite <- elem_name with (c := c).
      replace (nm o (snd (strip_scheme_prefix u), f, c)) with (nm o (snd (strip_scheme_prefix u'), f, c')).
      + apply in_map. assumption.
      + unfold nm. simpl. rewrite Ep. reflexivity.
  Qed.
End Main.
