(** SkelEffects.v — from the bracket checker to statements about process state (C15), and the
    compositionality lemma for callers. *)
From InToto.Model Require Import Base Skel.
From InToto.Proofs Require Import SkelSound.

(** a save/set/restore bracket: the tracked value on leaving s (by any outcome) is the value on
    entry, unless the restoring operation itself failed *)
Theorem bracketed_restores : forall (V : Type) (labels : list str) (s : skel) (save set restore : str),
  bracketed labels s save set restore = true ->
  forall rho t o, exec rho s t o ->
  no_excuse [] (Some save) set restore t ->
  forall (target v0 saved0 : V),
    fst (bapply (Some save) set restore V target t (v0, saved0)) = v0.
Proof.
  intros V labels s save set restore H rho t o Hex Hne target v0 saved0.
  apply (bracket_restored false [] (Some save) set restore V target t v0 saved0).
  - exact (checkL_sound rho _ _ _ _ _ _ H _ _ Hex).
  - assumption.
  - discriminate.
Qed.

(** a created resource (temporary file): absent on entry => absent on leaving s, unless its own
    removal (or an operation listed in [excuse]) failed *)
Theorem bracketed_res_removes : forall (labels excuse : list str) (s : skel) (create remove : str),
  bracketed_res labels excuse s create remove = true ->
  forall rho t o, exec rho s t o ->
  no_excuse excuse None create remove t ->
  fst (bapply None create remove bool true t (false, false)) = false.
Proof.
  intros labels excuse s create remove H rho t o Hex Hne.
  apply (bracket_restored true excuse None create remove bool true t false false).
  - exact (checkL_sound rho _ _ _ _ _ _ H _ _ Hex).
  - assumption.
  - reflexivity.
Qed.

(** * Callers *)
Section Compose.
Variables (St V : Type) (obs : St -> V).
Variable E : str -> bool -> St -> St -> Prop.   (* effect of one call: name, returned?, before, after *)

Inductive steps : trace -> St -> St -> Prop :=
| SNil x : steps [] x x
| SCall n ok t x y z : E n ok x y -> steps t y z -> steps (ECall n ok :: t) x z
| SHandler t x y : steps t x y -> steps (EHandler :: t) x y
| SIter l t x y : steps t x y -> steps (EIter l :: t) x y.

Lemma steps_preserve : forall t x y,
  steps t x y ->
  (forall n ok, In (ECall n ok) t -> forall a b, E n ok a b -> obs b = obs a) ->
  obs y = obs x.
Proof.
  intros t x y Hs. induction Hs; intros Hp.
  - reflexivity.
  - rewrite IHHs.
    + eapply Hp; [left; reflexivity | eassumption].
    + intros n' ok' Hin. apply Hp. right. assumption.
  - apply IHHs. intros n' ok' Hin. apply Hp. right. assumption.
  - apply IHHs. intros n' ok' Hin. apply Hp. right. assumption.
Qed.

Lemma no_effect_calls_spec : forall eff s n,
  no_effect_calls eff s = true -> In n (calls s) -> eff n = false.
Proof.
  intros eff s n H Hin. unfold no_effect_calls in H. rewrite forallb_forall in H.
  apply negb_true_iff. apply H. assumption.
Qed.

(** a caller whose own skeleton performs no primitive state effect — every call it makes is
    to a callee that leaves the observed state as it found it (returning or raising) —
    leaves the observed state as it found it *)
Theorem caller_restores : forall (eff : str -> bool) (s : skel),
  no_effect_calls eff s = true ->
  (forall n, eff n = false -> forall ok a b, E n ok a b -> obs b = obs a) ->
  forall rho t o x y, exec rho s t o -> steps t x y -> obs y = obs x.
Proof.
  intros eff s Hno Hcallee rho t o x y Hex Hs.
  apply (steps_preserve t x y Hs). intros n ok Hin a b HE.
  eapply Hcallee; [|eassumption].
  eapply no_effect_calls_spec; [eassumption|]. eapply exec_calls; eassumption.
Qed.
End Compose.
