(** FormatSig.v — property C14, the two metadata containers:
    - the loaders are idempotent on validated objects (asdict then read is the identity), hence an
      envelope built as in-toto builds it yields exactly the object a Metablock holds;
    - [verify_signature] of a Metablock and of an Envelope agree for securesystemslib keys under
      oracle consistency, PROVIDED the first signature matching the key decides (finding D14a:
      Metablock checks only the first matching signature, DSSE any). *)
From InToto.Model Require Import Base Json Strs Utf8 Canon Rule Glob Rules Expiry Subst Meta Verify.
From InToto.Proofs Require Import VerifySpec VerifyRec FormatEquiv.

(* ------------------------------------------------------------------ *)
(** * Loader idempotence *)

Lemma mapM_unit_ok : forall (A : Type) (f : A -> res unit) l us, mapM f l = Ok us -> mapM f l = Ok us.
Proof. auto. Qed.

Lemma read_link_asdict : forall data lk, read_link data = Ok lk -> read_link (link_asdict lk) = Ok lk.
Proof.
  intros data lk H. unfold read_link in H. destruct data as [| | | | | |d]; try discriminate.
  destruct (jget_default S_materials (JDict []) (JDict d)) as [| | | | | |m]; try discriminate.
  destruct (jget_default S_products (JDict []) (JDict d)) as [| | | | | |p]; try discriminate.
  destruct (jget_default S_byproducts (JDict []) (JDict d)) as [| | | | | |b]; try discriminate.
  destruct (jget_default S_command (JList []) (JDict d)) as [| | | | |c|]; try discriminate.
  destruct (jget_default S_environment (JDict []) (JDict d)) as [| | | | | |e]; try discriminate.
  apply bind_Ok in H. destruct H as [u1 [H1 H]]. apply bind_Ok in H. destruct H as [u2 [H2 H]].
  inversion H; subst lk. clear H.
  unfold read_link.
  change (link_asdict _) with
    (JDict [(S__type, JStr S_link); (S_name, jget_default S_name JNull (JDict d)); (S_materials, JDict m);
            (S_products, JDict p); (S_byproducts, JDict b); (S_command, JList c); (S_environment, JDict e)]).
  change (jget_default S_materials (JDict []) (JDict [(S__type, JStr S_link); (S_name, jget_default S_name JNull (JDict d)); (S_materials, JDict m);
            (S_products, JDict p); (S_byproducts, JDict b); (S_command, JList c); (S_environment, JDict e)])) with (JDict m).
  change (jget_default S_products (JDict []) (JDict [(S__type, JStr S_link); (S_name, jget_default S_name JNull (JDict d)); (S_materials, JDict m);
            (S_products, JDict p); (S_byproducts, JDict b); (S_command, JList c); (S_environment, JDict e)])) with (JDict p).
  change (jget_default S_byproducts (JDict []) (JDict [(S__type, JStr S_link); (S_name, jget_default S_name JNull (JDict d)); (S_materials, JDict m);
            (S_products, JDict p); (S_byproducts, JDict b); (S_command, JList c); (S_environment, JDict e)])) with (JDict b).
  change (jget_default S_command (JList []) (JDict [(S__type, JStr S_link); (S_name, jget_default S_name JNull (JDict d)); (S_materials, JDict m);
            (S_products, JDict p); (S_byproducts, JDict b); (S_command, JList c); (S_environment, JDict e)])) with (JList c).
  change (jget_default S_environment (JDict []) (JDict [(S__type, JStr S_link); (S_name, jget_default S_name JNull (JDict d)); (S_materials, JDict m);
            (S_products, JDict p); (S_byproducts, JDict b); (S_command, JList c); (S_environment, JDict e)])) with (JDict e).
  change (jget_default S_name JNull (JDict [(S__type, JStr S_link); (S_name, jget_default S_name JNull (JDict d)); (S_materials, JDict m);
            (S_products, JDict p); (S_byproducts, JDict b); (S_command, JList c); (S_environment, JDict e)]))
    with (jget_default S_name JNull (JDict d)).
  cbv iota beta. rewrite H1, H2. reflexivity.
Qed.

Lemma check_rules_idem : forall j l, check_rules j = Ok l -> check_rules (JList l) = Ok l.
Proof.
  intros j l H. unfold check_rules in H. destruct j as [| | | | |x|]; try discriminate.
  apply bind_Ok in H. destruct H as [ms [Hm H]]. inversion H; subst x. unfold check_rules. rewrite Hm. reflexivity.
Qed.

Definition hexkey (k : json) : res str :=
  match k with JStr s => if is_hex s then Ok s else Err EFormat | _ => Err EFormat end.

Lemma hexkeys_idem : forall l pk, mapM hexkey l = Ok pk -> mapM hexkey (map JStr pk) = Ok pk.
Proof.
  induction l as [|k l IH]; simpl; intros pk H; [inversion H; reflexivity|].
  apply bind_Ok in H. destruct H as [s [Hs H]]. apply bind_Ok in H. destruct H as [r [Hr H]].
  inversion H; subst pk. simpl.
  destruct k as [| | | |x| |]; try discriminate. simpl in Hs.
  destruct (is_hex x) eqn:E; [|discriminate]. inversion Hs; subst s. rewrite E. simpl.
  rewrite (IH _ Hr). reflexivity.
Qed.

Lemma read_step_asdict : forall data s, read_step data = Ok s -> read_step (step_asdict s) = Ok s.
Proof.
  intros data s H. unfold read_step in H. destruct data as [| | | | | |d]; try discriminate.
  apply bind_Ok in H. destruct H as [name [Hn H]].
  apply bind_Ok in H. destruct H as [cmd [Hc H]].
  apply bind_Ok in H. destruct H as [em [Hem H]].
  apply bind_Ok in H. destruct H as [ep [Hep H]].
  apply bind_Ok in H. destruct H as [pk [Hpk H]].
  apply bind_Ok in H. destruct H as [thr [Hthr H]].
  inversion H; subst s. clear H.
  unfold read_step, step_asdict. cbn [st_name st_em st_ep st_pubkeys st_cmd st_thr_raw].
  change (read_name (JDict _)) with (Ok (A:=str) name). cbn [bind].
  change (jget_default S_expected_command (JList []) (JDict _)) with (JList cmd). cbn [bind].
  change (jget_default S_expected_materials (JList []) (JDict _)) with (JList em).
  change (jget_default S_expected_products (JList []) (JDict _)) with (JList ep).
  change (jget_default S_pubkeys (JList []) (JDict _)) with (jstr_list pk).
  change (jget_default S_threshold (JInt 1) (JDict _)) with thr.
  rewrite (check_rules_idem _ _ Hem), (check_rules_idem _ _ Hep). cbn [bind].
  destruct (jget_default S_pubkeys (JList []) (JDict d)) as [| | | | |pl|]; try discriminate.
  unfold jstr_list. fold hexkey in Hpk |- *. rewrite (hexkeys_idem _ _ Hpk). cbn [bind].
  destruct (jget_default S_threshold (JInt 1) (JDict d)) as [|b|z| | | |]; try discriminate;
    inversion Hthr; subst thr; reflexivity.
Qed.

Lemma read_insp_asdict : forall data i, read_insp data = Ok i -> read_insp (insp_asdict i) = Ok i.
Proof.
  intros data i H. unfold read_insp in H. destruct data as [| | | | | |d]; try discriminate.
  apply bind_Ok in H. destruct H as [name [Hn H]].
  apply bind_Ok in H. destruct H as [em [Hem H]].
  apply bind_Ok in H. destruct H as [ep [Hep H]].
  apply bind_Ok in H. destruct H as [run [Hrun H]].
  inversion H; subst i. clear H.
  unfold read_insp, insp_asdict. cbn [in_name in_em in_ep in_run].
  change (read_name (JDict _)) with (Ok (A:=str) name). cbn [bind].
  change (jget_default S_expected_materials (JList []) (JDict _)) with (JList em).
  change (jget_default S_expected_products (JList []) (JDict _)) with (JList ep).
  change (jget_default S_run (JList []) (JDict _)) with (JList run).
  rewrite (check_rules_idem _ _ Hem), (check_rules_idem _ _ Hep). reflexivity.
Qed.

Lemma mapM_asdict_idem : forall (A : Type) (rd : json -> res A) (asd : A -> json),
  (forall d x, rd d = Ok x -> rd (asd x) = Ok x) ->
  forall l xs, mapM rd l = Ok xs -> mapM rd (map asd xs) = Ok xs.
Proof.
  intros A rd asd Hid. induction l as [|d l IH]; simpl; intros xs H; [inversion H; reflexivity|].
  apply bind_Ok in H. destruct H as [x [Hx H]]. apply bind_Ok in H. destruct H as [r [Hr H]].
  inversion H; subst xs. simpl. rewrite (Hid _ _ Hx). simpl. rewrite (IH _ Hr). reflexivity.
Qed.

Lemma check_public_keys_idem : forall j ks, check_public_keys j = Ok ks -> j = JDict ks.
Proof.
  intros j ks H. unfold check_public_keys in H. destruct j as [| | | | | |l]; try discriminate.
  apply bind_Ok in H. destruct H as [u [_ H]]. inversion H. reflexivity.
Qed.

Lemma read_layout_asdict : forall data l, read_layout data = Ok l -> read_layout (layout_asdict l) = Ok l.
Proof.
  intros data l H. unfold read_layout in H. destruct data as [| | | | | |d]; try discriminate.
  apply bind_Ok in H. destruct H as [steps [Hst H]].
  apply bind_Ok in H. destruct H as [inspect [Hin H]].
  apply bind_Ok in H. destruct H as [expires [Hex H]].
  apply bind_Ok in H. destruct H as [us [Hus H]].
  apply bind_Ok in H. destruct H as [keys [Hk H]].
  apply bind_Ok in H. destruct H as [readme [Hr H]].
  destruct (first_dup [] (map st_name steps ++ map in_name inspect)) eqn:Ed; [discriminate|].
  inversion H; subst l. clear H.
  unfold read_layout, layout_asdict. cbn [ly_steps ly_inspect ly_keys ly_expires ly_readme].
  change (jget S_steps (JDict _)) with (Some (JList (map step_asdict steps))).
  change (jget S_inspect (JDict _)) with (Some (JList (map insp_asdict inspect))).
  change (jget S_expires (JDict _)) with (Some (JStr expires)).
  change (jget_default S_keys (JDict []) (JDict _)) with (JDict keys).
  change (jget_default S_readme (JStr []) (JDict _)) with (JStr readme).
  destruct (jget S_steps (JDict d)) as [[| | | | |sl|]|]; try discriminate.
  destruct (jget S_inspect (JDict d)) as [[| | | | |il|]|]; try discriminate.
  rewrite (mapM_asdict_idem _ read_step step_asdict read_step_asdict _ _ Hst). cbn [bind].
  rewrite (mapM_asdict_idem _ read_insp insp_asdict read_insp_asdict _ _ Hin). cbn [bind].
  assert (Hne : expires <> []).
  { destruct (jget S_expires (JDict d)) as [[| | | |x| |]|]; try discriminate.
    destruct x; [discriminate|]. inversion Hex. discriminate. }
  destruct expires as [|c expires]; [contradiction|]. cbn [bind].
  rewrite Hus. cbn [bind].
  rewrite <- (check_public_keys_idem _ _ Hk), Hk. cbn [bind].
  rewrite Ed. reflexivity.
Qed.

(** asdict-then-read is the identity on everything the loader can return *)
Theorem read_payload_idempotent : forall data p, read_payload data = Ok p -> read_payload (payload_asdict p) = Ok p.
Proof.
  intros data p H. unfold read_payload in H.
  destruct (jget S__type data) as [[| | | |t| |]|]; try discriminate.
  destruct (eqs t S_link).
  - apply bind_Ok in H. destruct H as [l [Hl H]]. inversion H; subst p.
    unfold read_payload. change (jget S__type (payload_asdict (PLink l))) with (Some (JStr S_link)).
    change (eqs S_link S_link) with true. cbn [payload_asdict]. rewrite (read_link_asdict _ _ Hl). reflexivity.
  - destruct (eqs t S_layout); [|discriminate].
    apply bind_Ok in H. destruct H as [l [Hl H]]. inversion H; subst p.
    unfold read_payload. change (jget S__type (payload_asdict (PLayout l))) with (Some (JStr S_layout)).
    change (eqs S_layout S_link) with false. change (eqs S_layout S_layout) with true.
    cbn [payload_asdict]. rewrite (read_layout_asdict _ _ Hl). reflexivity.
Qed.

(** a payload object that some loader call produced *)
Definition validated (p : payload) : Prop := exists data, read_payload data = Ok p.

Section Formats.
  Variable b64dec : str -> option (list N).
  Variable loads : list N -> option json.
  Variable sig_ok : str -> list N -> str -> bool.
  Variable now_s : Z.

  Local Notation vsig := (verify_signature sig_ok now_s).
  Local Notation from_dict := (from_dict b64dec loads).

  (** what a loaded Metablock holds is a validated object *)
  Lemma from_dict_metablock_validated : forall data sigs p,
    from_dict data = Ok (Metablock sigs p) -> validated p.
  Proof.
    intros data sigs p H. unfold Meta.from_dict in H. destruct data as [| | | | | |d]; try discriminate.
    destruct (has S_payload (JDict d)).
    - destruct (jget S_payloadType (JDict d)) as [[| | | |pt| |]|]; try discriminate.
      destruct (eqs pt S_envelope_payload_type); [|discriminate].
      destruct (jget S_payload (JDict d)) as [[| | | |p64| |]|]; try discriminate.
      destruct (jget S_signatures (JDict d)) as [[| | | | |sg|]|]; try discriminate.
      destruct (b64dec p64); [|discriminate].
      apply bind_Ok in H. destruct H as [s' [_ H]]. discriminate.
    - destruct (has S_signed (JDict d)); [|discriminate].
      destruct (jget_default S_signed (JDict []) (JDict d)) as [| | | | | |sd] eqn:Es; try discriminate.
      apply bind_Ok in H. destruct H as [p0 [Hp H]].
      destruct (jget_default S_signatures (JList []) (JDict d)) as [| | | | |sl|]; try discriminate.
      apply bind_Ok in H. destruct H as [u [_ H]]. inversion H; subst.
      exists (JDict sd). unfold read_payload.
      destruct (jget S__type (JDict sd)) as [[| | | |t| |]|]; try discriminate.
      destruct (eqs t S_link); [exact Hp|]. destruct (eqs t S_layout); [exact Hp | discriminate].
  Qed.

  (** C14_envelope_roundtrip: Envelope.from_signable(p) — payload bytes = json.dumps(attr.asdict(p)) —
      parses back to [p] itself *)
  Theorem envelope_roundtrip : forall (dumps : json -> list N),
    (forall v, loads (dumps v) = Some v) ->
    forall p pt sigs,
      get_payload (Envelope (dumps (payload_asdict p)) pt sigs (loads (dumps (payload_asdict p)))) =
      read_payload (payload_asdict p).
  Proof.
    intros dumps Hld p pt sigs. cbn [get_payload]. rewrite Hld. destruct p; reflexivity.
  Qed.

  Corollary envelope_of_validated : forall (dumps : json -> list N),
    (forall v, loads (dumps v) = Some v) ->
    forall p pt sigs sigs', validated p ->
      get_payload (Envelope (dumps (payload_asdict p)) pt sigs (loads (dumps (payload_asdict p)))) =
      get_payload (Metablock sigs' p).
  Proof.
    intros dumps Hld p pt sigs sigs' [data Hd]. rewrite (envelope_roundtrip dumps Hld).
    cbn [get_payload]. eapply read_payload_idempotent. exact Hd.
  Qed.

  (* ---------------------------------------------------------------- *)
  (** * Signature checks of the two containers *)

  Definition kid_matches (kid : str) (s : json) : bool :=
    match jstr_of (jget S_keyid s) with Some k => eqs k kid | None => false end.

  (** a securesystemslib-shaped signature entry *)
  Definition sig_wf (s : json) : Prop :=
    (exists k, jget S_keyid s = Some (JStr k)) /\ (exists v, jget S_sig s = Some (JStr v)) /\
    (has S_signature s && has S_other_headers s) = false.

  Definition sslib_valid (s key : json) (msg : list N) : bool :=
    match sslib_verify sig_ok s key msg with Ok true => true | _ => false end.

  (** the first signature matching the key decides: if it is invalid, no later matching one is valid
      (the exclusion of finding D14a) *)
  Definition first_match_decides (kid : str) (key : json) (msg : list N) (sigs : list json) : Prop :=
    forall s, find (kid_matches kid) sigs = Some s -> sslib_valid s key msg = false ->
      forall s2, In s2 sigs -> kid_matches kid s2 = true -> sslib_valid s2 key msg = false.

  Lemma at_most_one_decides : forall kid key msg sigs,
    (length (filter (kid_matches kid) sigs) <= 1)%nat -> first_match_decides kid key msg sigs.
  Proof.
    intros kid key msg sigs. induction sigs as [|x sigs IH]; intros Hlen s Hf Hinv s2 Hin Hm; [contradiction|].
    simpl in Hf, Hlen. destruct (kid_matches kid x) eqn:Ex.
    - inversion Hf; subst x. destruct Hin as [->|Hin]; [assumption|].
      exfalso. simpl in Hlen.
      assert (Hin2 : In s2 (filter (kid_matches kid) sigs)) by (apply filter_In; auto).
      destruct (filter (kid_matches kid) sigs); [contradiction | simpl in Hlen; lia].
    - destruct Hin as [->|Hin]; [congruence|]. eapply IH; eassumption.
  Qed.

  Lemma first_valid_decides : forall kid key msg sigs s,
    find (kid_matches kid) sigs = Some s -> sslib_valid s key msg = true -> first_match_decides kid key msg sigs.
  Proof. intros kid key msg sigs s Hf Hv s' Hf' Hinv. congruence. Qed.

  Lemma first_decides_existsb : forall kid key msg sigs,
    first_match_decides kid key msg sigs ->
    match find (kid_matches kid) sigs with Some s => sslib_valid s key msg | None => false end =
    existsb (fun s => kid_matches kid s && sslib_valid s key msg) sigs.
  Proof.
    intros kid key msg. induction sigs as [|x sigs IH]; intro H; [reflexivity|].
    cbn [find existsb]. destruct (kid_matches kid x) eqn:Ex.
    - cbn [andb]. destruct (sslib_valid x key msg) eqn:Ev; [reflexivity|]. cbn [orb].
      symmetry. apply not_true_is_false. intro Hex. apply existsb_exists in Hex.
      destruct Hex as [s2 [Hin Hs2]]. apply andb_true_iff in Hs2. destruct Hs2 as [Hm Hv].
      assert (Hf : find (kid_matches kid) (x :: sigs) = Some x) by (cbn [find]; rewrite Ex; reflexivity).
      rewrite (H x Hf Ev s2 (or_intror Hin) Hm) in Hv. discriminate.
    - cbn [andb orb]. apply IH. intros s Hf Hinv s2 Hin Hm.
      apply (H s); [cbn [find]; rewrite Ex; exact Hf | exact Hinv | right; exact Hin | exact Hm].
  Qed.

  Lemma find_ext' : forall (A : Type) (f g : A -> bool) l, (forall x, f x = g x) -> find f l = find g l.
  Proof. intros A f g l H. induction l as [|x l IH]; simpl; [reflexivity|]. rewrite H, IH. reflexivity. Qed.

  Lemma existsb_ext' : forall (A : Type) (f g : A -> bool) l, (forall x, In x l -> f x = g x) -> existsb f l = existsb g l.
  Proof.
    intros A f g l. induction l as [|x l IH]; intro H; simpl; [reflexivity|].
    rewrite (H x (or_introl eq_refl)), IH; [reflexivity|]. intros; apply H; right; assumption.
  Qed.

  (** the key is a plain securesystemslib key (no gpg shape, no subkeys) *)
  Definition sslib_key (key : json) (kid : str) : Prop :=
    check_public_key key = Ok KSslib /\ jget S_keyid key = Some (JStr kid) /\ subkey_ids key = [].

  Lemma sslib_key_public : forall key kid, sslib_key key kid ->
    exists kv pub, jget S_keyval key = Some (JDict kv) /\ lookup S_public kv = Some (JStr pub).
  Proof.
    intros key kid [Hc _]. unfold check_public_key in Hc. destruct key as [| | | | | |d]; try discriminate.
    destruct (gpg_key_shape (JDict d)) as [[|]|]; try discriminate.
    destruct (jget S_keyid (JDict d)) as [[| | | |x| |]|]; try discriminate.
    destruct (jget S_keytype (JDict d)) as [[| | | |kt| |]|]; try discriminate.
    destruct (jget S_scheme (JDict d)) as [[| | | |sc| |]|]; try discriminate.
    destruct (sslib_supported kt sc); [|discriminate].
    destruct (jget S_keyval (JDict d)) as [[| | | | | |kv]|]; try discriminate.
    destruct (lookup S_public kv) as [[| | | |pub| |]|] eqn:E; try discriminate.
    exists kv, pub. auto.
  Qed.

  Lemma sslib_verify_total : forall key kid s msg, sslib_key key kid -> sig_wf s ->
    exists b, sslib_verify sig_ok s key msg = Ok b.
  Proof.
    intros key kid s msg Hk [[k Hkid] [[v Hv] _]].
    destruct (sslib_key_public _ _ Hk) as [kv [pub [Hkv Hpub]]]. destruct Hk as [_ [Hid _]].
    unfold sslib_verify. rewrite Hkid, Hid, Hv. cbn [jstr_of].
    destruct (negb (eqs k kid)); [eexists; reflexivity|].
    destruct (negb (hex_even v)); [eexists; reflexivity|].
    rewrite Hkv. cbn [jget]. rewrite Hpub. cbn [jstr_of]. eexists; reflexivity.
  Qed.

  (** Metablock.verify_signature with a plain key = "the first matching signature is valid" *)
  Lemma vsig_metablock_sslib : forall key kid sigs p msg,
    sslib_key key kid -> Forall sig_wf sigs -> signed_bytes_mb p = Ok msg ->
    vsig (Metablock sigs p) key =
    if match find (kid_matches kid) sigs with Some s => sslib_valid s key msg | None => false end
    then Ok tt else Err ESignature.
  Proof.
    intros key kid sigs p msg Hk Hwf Hmsg. pose proof Hk as [Hc [Hid Hsub]].
    cbn [verify_signature]. rewrite Hc, Hid, Hsub. cbn [bind jstr_of].
    rewrite (find_ext' _ _ (kid_matches kid)).
    2:{ intro x. unfold kid_matches. destruct (jstr_of (jget S_keyid x)); [|reflexivity].
        cbn [mem_str]. apply orb_false_r. }
    destruct (find (kid_matches kid) sigs) as [s|] eqn:Ef.
    - rewrite Hmsg. cbn [bind].
      assert (Hs : sig_wf s).
      { apply find_some in Ef. destruct Ef as [Hin _]. rewrite Forall_forall in Hwf. exact (Hwf _ Hin). }
      pose proof Hs as [_ [[v Hv] Hg]]. rewrite Hg.
      unfold has at 1. rewrite Hv.
      destruct (sslib_verify_total key kid s msg Hk Hs) as [b Hb].
      unfold sslib_valid. rewrite Hb. cbn [bind]. destruct b; reflexivity.
    - assert (Hall : forallb (fun s => match jget S_keyid s with Some (JStr _) => true | _ => false end) sigs = true).
      { apply forallb_forall. intros x Hx. rewrite Forall_forall in Hwf. destruct (Hwf _ Hx) as [[k Hkx] _].
        rewrite Hkx. reflexivity. }
      rewrite Hall. reflexivity.
  Qed.

  (** Envelope.verify_signature with a plain key = "some matching signature is valid" *)
  Lemma vsig_envelope_sslib : forall key kid pb pt sigs parsed,
    sslib_key key kid ->
    vsig (Envelope pb pt sigs parsed) key =
    if existsb (fun s => kid_matches kid s && sslib_valid s key (pae (utf8 pt) pb)) sigs
    then Ok tt else Err ESignature.
  Proof.
    intros key kid pb pt sigs parsed [Hc [Hid _]]. cbn [verify_signature]. rewrite Hid, Hc. cbn [bind].
    rewrite (existsb_ext' _ _ (fun s => kid_matches kid s && sslib_valid s key (pae (utf8 pt) pb))); [reflexivity|].
    intros x _. unfold kid_matches, sslib_valid. destruct (jstr_of (jget S_keyid x)); reflexivity.
  Qed.

  (** C14_sigcheck_equiv.  [sigs] / [sigs'] : the same signers in the same order, and the oracle is
      consistent: each signer's signature is valid for the message of the format it was made for
      ([msg] = canonical JSON of the payload, resp. the PAE of the envelope) or invalid for both. *)
  Theorem sigcheck_equiv : forall key kid sigs p msg pb pt sigs' parsed,
    sslib_key key kid ->
    Forall sig_wf sigs -> signed_bytes_mb p = Ok msg ->
    Forall2 (fun s s' => kid_matches kid s = kid_matches kid s' /\
                         sslib_valid s key msg = sslib_valid s' key (pae (utf8 pt) pb)) sigs sigs' ->
    first_match_decides kid key msg sigs ->
    vsig (Metablock sigs p) key = vsig (Envelope pb pt sigs' parsed) key.
  Proof.
    intros key kid sigs p msg pb pt sigs' parsed Hk Hwf Hmsg H2 Hfd.
    rewrite (vsig_metablock_sslib key kid sigs p msg Hk Hwf Hmsg).
    rewrite (vsig_envelope_sslib key kid pb pt sigs' parsed Hk).
    rewrite (first_decides_existsb kid key msg sigs Hfd).
    replace (existsb (fun s => kid_matches kid s && sslib_valid s key (pae (utf8 pt) pb)) sigs')
      with (existsb (fun s => kid_matches kid s && sslib_valid s key msg) sigs); [reflexivity|].
    clear -H2. induction H2 as [|s s' l l' [Hm Hv] _ IH]; [reflexivity|].
    cbn [existsb]. rewrite Hm, Hv, IH. reflexivity.
  Qed.

  (** ** "the same content in the other format" *)
  (** the keys non-gpg in-toto uses: plain securesystemslib keys *)
  Definition plain_key (key : json) : Prop := exists kid, sslib_key key kid.

  Definition fmt_equiv (md md' : metadata) : Prop :=
    match md, md' with
    | Metablock _ _, Envelope _ _ _ _ =>
        get_payload md' = get_payload md /\ forall key, plain_key key -> vsig md key = vsig md' key
    | _, _ => False
    end.

  Lemma fmt_equiv_md_rel : forall md md', fmt_equiv md md' -> md_rel sig_ok now_s plain_key md md'.
  Proof.
    intros [sg p|pb pt sg pr] [sg' p'|pb' pt' sg' pr'] H; try contradiction.
    destruct H as [Hp Hs]. split; [symmetry; exact Hp | exact Hs].
  Qed.

  (** a Metablock and an Envelope of one validated payload, with the same signers and a consistent
      oracle, outside finding D14a, are the same content in the two formats *)
  Theorem reformat_related : forall sigs p pb pt sigs' parsed msg,
    get_payload (Envelope pb pt sigs' parsed) = Ok p ->
    Forall sig_wf sigs -> signed_bytes_mb p = Ok msg ->
    (forall key kid, sslib_key key kid ->
       Forall2 (fun s s' => kid_matches kid s = kid_matches kid s' /\
                            sslib_valid s key msg = sslib_valid s' key (pae (utf8 pt) pb)) sigs sigs' /\
       first_match_decides kid key msg sigs) ->
    fmt_equiv (Metablock sigs p) (Envelope pb pt sigs' parsed).
  Proof.
    intros sigs p pb pt sigs' parsed msg Hp Hwf Hmsg H. split; [exact Hp|].
    intros key [kid Hk]. destruct (H key kid Hk) as [H2 Hfd].
    eapply sigcheck_equiv; eassumption.
  Qed.

  (** ** key sets all of whose keys lie in a class [K] of subkey-free keys satisfy the side
      conditions of the payload-only theorem *)
  Lemma main_keys_nosub : forall (l : layout),
    Forall (fun kv => subkey_ids (snd kv) = []) (ly_keys l) -> main_keys_for_subkeys l = [].
  Proof.
    intros l H. unfold main_keys_for_subkeys.
    assert (G : forall ks (acc : list (str * json)),
              Forall (fun kv : str * json => subkey_ids (snd kv) = []) ks ->
              fold_left (fun acc kv => fold_left (fun acc' sk => dict_set sk (snd kv) acc') (subkey_ids (snd kv)) acc) ks acc = acc).
    { intros ks acc Hks. revert acc. induction Hks as [|kv ks' Hkv _ IH]; intro acc; [reflexivity|].
      cbn [fold_left]. rewrite Hkv. cbn [fold_left]. apply IH. }
    apply G. exact H.
  Qed.

  Lemma verification_key_in : forall l s kid vk mainid,
    verification_key l [] s kid = Some (Ok (vk, mainid)) -> exists a, lookup a (ly_keys l) = Some vk.
  Proof.
    intros l s kid vk mainid. unfold verification_key. induction (st_pubkeys s) as [|a auth IH]; [discriminate|].
    cbn [lookup]. destruct (lookup a (ly_keys l)) as [k|] eqn:El; [|exact IH].
    destruct (jtruthy k); [|exact IH].
    assert (Hown : match jget S_keyid k with Some kid0 => Some (Ok (k, kid0)) | None => Some (Err EKeyError) end
                   = Some (Ok (vk, mainid)) -> exists a0, lookup a0 (ly_keys l) = Some vk).
    { destruct (jget S_keyid k); intro H; inversion H; subst. exists a. exact El. }
    destruct (eqs kid a); [exact Hown|]. destruct (mem_str kid (subkey_ids k)); [exact Hown | exact IH].
  Qed.

  Lemma keyset_ok_of_Forall : forall (K : json -> Prop) keys,
    Forall (fun kv => K (snd kv) /\ subkey_ids (snd kv) = []) keys -> keyset_ok K keys.
  Proof.
    intros K keys H l Hl. subst keys. split.
    - intros s kid vk mainid Hv.
      rewrite main_keys_nosub in Hv.
      2:{ eapply Forall_impl; [|exact H]. intros kv [_ Hs]. exact Hs. }
      destruct (verification_key_in _ _ _ _ _ Hv) as [a Ha]. apply lookup_In in Ha.
      rewrite Forall_forall in H. exact (proj1 (H _ Ha)).
    - intros kid ks Hks. destruct (lookup kid (ly_keys l)) as [k|] eqn:El.
      + apply check_public_keys_idem in Hks. inversion Hks; subst ks. constructor; [|constructor].
        apply lookup_In in El. rewrite Forall_forall in H. exact (proj1 (H _ El)).
      + exfalso. unfold check_public_keys in Hks. cbn [mapM fst snd] in Hks.
        destruct (is_hex kid); discriminate.
  Qed.

  Lemma keys_in_K_of_Forall : forall (K : json -> Prop) ks,
    Forall (fun kv => K (snd kv)) ks -> keys_in_K K (JDict ks).
  Proof.
    intros K ks H ks' Hk. apply check_public_keys_idem in Hk. inversion Hk; subst. exact H.
  Qed.
End Formats.
