(** Tie/C02.v — who may sign a step's link, as /repo/in_toto/verifylib.py decides it now.
    Gen/Fun02.v holds two parts of verify_link_signature_thresholds regenerated from the source by
    tools/pytrans2.py --authorise on every run:
      f_main_keys_for_subkeys   the inverse subkey dictionary built at the top of the function,
      f_authorise               the `for authorized_keyid in step.pubkeys: ... else: continue` search, rendered as a
                                function returning [found, verification_key, main_keyid].
    They are proved equal to the model's [main_keys_for_subkeys] and [verification_key], on key stores as
    Layout validation admits them (every key a dictionary whose "subkeys", when present, is a dictionary).
    The translator checks (fail closed) where the two parts sit in the function and that nothing after them
    assigns the names they bind. *)
From InToto.Model Require Import Base Json Strs PyLib Glob PyLibGlob Rule Rules Meta Verify.
From InToto.Proofs Require Import PyLibFacts2 PyLibFacts3 VerifySpec ThresholdSpec VerifyThreshold.
From InToto.Gen Require Import Fun02.

(** the shape Layout validation gives every entry of a key store *)
Definition key_wf (k : json) : bool :=
  match k with
  | JDict d => match d with [] => false | _ => match lookup S_subkeys d with None => true | Some (JDict _) => true | Some _ => false end end
  | _ => false
  end.
Definition keys_wf (ks : list (str * json)) : bool := forallb (fun kv => key_wf (snd kv)) ks.

Definition injkv (kv : str * json) : pyval * pyval := (VStr (fst kv), inj (snd kv)).
Lemma inj_dict : forall l, inj (JDict l) = VDict (map injkv l).
Proof. reflexivity. Qed.

Lemma pv_eqb_vstr : forall a b, pv_eqb (VStr a) (VStr b) = eqs a b.
Proof. reflexivity. Qed.

Lemma pv_set_inj : forall k v (l : list (str * json)),
  pv_set (VStr k) (inj v) (map injkv l) = map injkv (dict_set k v l).
Proof.
  induction l as [|[k' v'] l IH]; [reflexivity|].
  cbn [map pv_set dict_set injkv fst snd]. rewrite pv_eqb_vstr. destruct (eqs k k'); [reflexivity|].
  cbn [map injkv fst snd]. rewrite IH. reflexivity.
Qed.

Lemma lookup_wf : forall k (ks : list (str * json)) v, keys_wf ks = true -> lookup k ks = Some v -> key_wf v = true.
Proof.
  induction ks as [|[k' v'] ks IH]; intros v H L; [discriminate|].
  cbn [keys_wf forallb snd] in H. apply andb_prop in H. destruct H as [H1 H2].
  cbn [lookup] in L. destruct (eqs k k'); [injection L as <-; exact H1 | exact (IH v H2 L)].
Qed.

(** iterating over key.get("subkeys", []) visits the model's [subkey_ids] *)
Lemma subkeys_iter : forall k, key_wf k = true ->
  (do t <- py_get (inj k) (VStr S_subkeys) (VList []); py_iter t) = Ok (map VStr (subkey_ids k)).
Proof.
  intros k W. destruct k as [| | | | | |d]; try discriminate. unfold subkey_ids, jget.
  rewrite inj_dict. unfold py_get. fold injkv. unfold injkv at 1.
  rewrite (pv_assoc_inj S_subkeys d). unfold key_wf in W. destruct d as [|e d]; [discriminate|].
  destruct (lookup S_subkeys (e :: d)) as [[| | | | | |subs]|]; try discriminate; cbn [option_map bind inj py_iter].
  - rewrite !map_map. reflexivity.
  - reflexivity.
Qed.

Lemma inner_fold : forall key subs acc,
  py_fold (map VStr subs) (VDict (map injkv acc))
    (fun v_sub_keyid v_main_keys_for_subkeys =>
       do v_main_keys_for_subkeys <- py_setitem v_main_keys_for_subkeys v_sub_keyid (inj key); Ok v_main_keys_for_subkeys)
  = Ok (VDict (map injkv (fold_left (fun acc' sk => dict_set sk key acc') subs acc))).
Proof.
  induction subs as [|sk subs IH]; intro acc; [reflexivity|].
  cbn [map py_fold fold_left]. unfold py_setitem at 1. cbn [bind]. rewrite pv_set_inj. apply IH.
Qed.

Lemma outer_fold : forall (ks : list (str * json)) acc, keys_wf ks = true ->
  py_fold (map snd (map injkv ks)) (VDict (map injkv acc))
    (fun v_main_key v_main_keys_for_subkeys =>
       do t2 <- py_get v_main_key (VStr [115;117;98;107;101;121;115]%N) (VList []);
       do v_main_keys_for_subkeys <- py_for t2 v_main_keys_for_subkeys
          (fun v_sub_keyid v_main_keys_for_subkeys =>
             do v_main_keys_for_subkeys <- py_setitem v_main_keys_for_subkeys v_sub_keyid v_main_key; Ok v_main_keys_for_subkeys);
       Ok v_main_keys_for_subkeys)
  = Ok (VDict (map injkv (fold_left (fun acc kv => fold_left (fun acc' sk => dict_set sk (snd kv) acc') (subkey_ids (snd kv)) acc) ks acc))).
Proof.
  induction ks as [|[kid key] ks IH]; intros acc W; [reflexivity|].
  cbn [keys_wf forallb snd] in W. apply andb_prop in W. destruct W as [W1 W2].
  cbn [map py_fold fold_left injkv fst snd].
  pose proof (subkeys_iter key W1) as Hs. unfold py_for.
  change [115;117;98;107;101;121;115]%N with S_subkeys.
  destruct (py_get (inj key) (VStr S_subkeys) (VList [])) as [t|e]; [|discriminate].
  cbn [bind] in Hs |- *. rewrite Hs. cbn [bind]. rewrite inner_fold. cbn [bind]. apply IH. exact W2.
Qed.

(** the inverse subkey dictionary *)
Theorem tie_main_keys_for_subkeys : forall l, keys_wf (ly_keys l) = true ->
  f_main_keys_for_subkeys (inj (JDict (ly_keys l))) = Ok (inj (JDict (main_keys_for_subkeys l))).
Proof.
  intros l W. unfold f_main_keys_for_subkeys, main_keys_for_subkeys. rewrite !inj_dict.
  cbn [py_values bind py_list py_iter].
  match goal with |- context [py_for (VList ?x) ?s ?b] => change (py_for (VList x) s b) with (py_fold x s b) end.
  change (VDict []) with (VDict (map injkv [])). rewrite (outer_fold (ly_keys l) [] W). reflexivity.
Qed.

(** ---- the search ------------------------------------------------------------ *)

(** what one authorised key id decides about a link filed under [kid] (the model's loop body) *)
Definition auth_step (l : layout) (mk : list (str * json)) (kid a : str) : option (res (json * json)) :=
  let ak := match lookup a (ly_keys l) with Some k => if jtruthy k then Some k else None | None => None end in
  let mk' := match lookup a mk with Some k => if jtruthy k then Some k else None | None => None end in
  let via_main m := match subkey_entry m a, jget S_keyid m with
                    | Some sk, Some mid => Some (Ok (sk, mid))
                    | _, _ => Some (Err EKeyError)
                    end in
  let own k := match jget S_keyid k with Some kid => Some (Ok (k, kid)) | None => Some (Err EKeyError) end in
  match ak with
  | Some k => if eqs kid a then own k else if mem_str kid (subkey_ids k) then own k else None
  | None => match mk' with
            | Some m => if eqs kid a then via_main m else None
            | None => None
            end
  end.

Fixpoint first_some {A B} (g : A -> option B) (l : list A) : option B :=
  match l with [] => None | a :: l' => match g a with Some b => Some b | None => first_some g l' end end.

Lemma verification_key_first : forall l mk s kid,
  verification_key l mk s kid = first_some (auth_step l mk kid) (st_pubkeys s).
Proof.
  intros l mk s kid. unfold verification_key. induction (st_pubkeys s) as [|a auth IH]; [reflexivity|].
  cbn [first_some]. unfold auth_step at 1.
  destruct (lookup a (ly_keys l)) as [k|].
  - destruct (jtruthy k).
    + destruct (eqs kid a); [destruct (jget S_keyid k); reflexivity|].
      destruct (mem_str kid (subkey_ids k)); [destruct (jget S_keyid k); reflexivity | exact IH].
    + destruct (lookup a mk) as [m|]; [|exact IH]. destruct (jtruthy m); [|exact IH].
      destruct (eqs kid a); [|exact IH]. destruct (subkey_entry m a), (jget S_keyid m); reflexivity.
  - destruct (lookup a mk) as [m|]; [|exact IH]. destruct (jtruthy m); [|exact IH].
    destruct (eqs kid a); [|exact IH]. destruct (subkey_entry m a), (jget S_keyid m); reflexivity.
Qed.

(** a loop with a break flag over a list of strings finds the first element that decides *)
Lemma fold_break_first : forall {S R : Type} (body : pyval -> bool * S -> res (bool * S)) (st0 : S)
                                (g : str -> option (res R)) (out : R -> S),
  (forall a st, body (VStr a) (true, st) = Ok (true, st)) ->
  (forall a, body (VStr a) (false, st0) =
             match g a with None => Ok (false, st0) | Some (Ok r) => Ok (true, out r) | Some (Err e) => Err e end) ->
  forall auth, py_fold (map VStr auth) (false, st0) body =
               match first_some g auth with None => Ok (false, st0) | Some (Ok r) => Ok (true, out r) | Some (Err e) => Err e end.
Proof.
  intros S R body st0 g out Hbrk Hstep.
  assert (Hdone : forall auth st, py_fold (map VStr auth) (true, st) body = Ok (true, st)).
  { induction auth as [|a auth IH]; intro st; [reflexivity|]. cbn [map py_fold]. rewrite Hbrk. cbn [bind]. apply IH. }
  induction auth as [|a auth IH]; [reflexivity|].
  cbn [map py_fold first_some]. rewrite Hstep. destruct (g a) as [[r|e]|]; cbn [bind].
  - apply Hdone.
  - reflexivity.
  - exact IH.
Qed.

Lemma truthy_wf : forall k, key_wf k = true -> truthy (inj k) = true /\ jtruthy k = true.
Proof.
  intros k W. destruct k as [| | | | | |d]; try discriminate. destruct d; [discriminate|]. split; reflexivity.
Qed.

Lemma index_dict : forall d k, py_index (inj (JDict d)) (VStr k) = match lookup k d with Some v => Ok (inj v) | None => Err EKeyError end.
Proof.
  intros d k. rewrite inj_dict. unfold py_index. fold injkv. unfold injkv. rewrite (pv_assoc_inj k d). destruct (lookup k d); reflexivity.
Qed.

Lemma get_dict : forall d k dflt, py_get (inj (JDict d)) (VStr k) dflt = Ok (match lookup k d with Some v => inj v | None => dflt end).
Proof.
  intros d k dflt. rewrite inj_dict. unfold py_get. unfold injkv. rewrite (pv_assoc_inj k d). destruct (lookup k d); reflexivity.
Qed.

(** `link_keyid in key.get("subkeys", {}).keys()` *)
Lemma in_subkeys : forall k kid, key_wf k = true ->
  (do t4 <- py_get (inj k) (VStr S_subkeys) (VDict []); do t5 <- py_keys t4; py_in (VStr kid) t5) = Ok (VBool (mem_str kid (subkey_ids k))).
Proof.
  intros k kid W. destruct k as [| | | | | |d]; try discriminate. rewrite get_dict. unfold subkey_ids, jget.
  unfold key_wf in W. destruct d as [|e d]; [discriminate|].
  destruct (lookup S_subkeys (e :: d)) as [[| | | | | |subs]|]; try discriminate; cbn [bind inj py_keys py_in].
  - rewrite !map_map. cbn [fst]. rewrite <- (map_map fst VStr). rewrite pv_mem_vstr. reflexivity.
  - reflexivity.
Qed.

Definition st0 : pyval * pyval * pyval := (VNone, VNone, VBool false).
Definition out_of (r : json * json) : pyval * pyval * pyval := (inj (fst r), inj (snd r), VBool true).

(** the search, as the source performs it, is the model's [verification_key] *)
Theorem tie_authorise : forall l mk s kid,
  keys_wf (ly_keys l) = true -> keys_wf mk = true ->
  f_authorise (inj (JDict (ly_keys l))) (inj (JDict mk)) (vstrs (st_pubkeys s)) (VStr kid) =
  match verification_key l mk s kid with
  | None => Ok (VList [VBool false; VNone; VNone])
  | Some (Ok (vk, mid)) => Ok (VList [VBool true; inj vk; inj mid])
  | Some (Err e) => Err e
  end.
Proof.
  intros l mk s kid W Wm. unfold f_authorise. rewrite verification_key_first.
  unfold py_for, vstrs. cbn [py_iter bind].
  match goal with |- context [py_fold _ _ ?b] => set (body := b) end.
  rewrite (fold_break_first body st0 (auth_step l mk kid) out_of).
  - destruct (first_some (auth_step l mk kid) (st_pubkeys s)) as [[[vk mid]|e]|]; reflexivity.
  - intros a [[vk mid] fnd]. reflexivity.
  - intro a. unfold body, st0, auth_step.
    rewrite !get_dict. cbn [bind].
    destruct (lookup a (ly_keys l)) as [k|] eqn:Lk.
    + pose proof (lookup_wf a _ k W Lk) as Wk. destruct (truthy_wf k Wk) as [T1 T2]. rewrite T2.
      unfold py_and at 1. cbn [bind]. rewrite T1. unfold py_eq. rewrite pv_eqb_vstr. cbn [bind].
      assert (Hown : (do v_main_keyid <- py_index (inj k) (VStr [107;101;121;105;100]%N);
                      Ok (true, (inj k, v_main_keyid, VBool true)))
                     = match jget S_keyid k with Some mid => Ok (true, out_of (k, mid)) | None => Err EKeyError end).
      { destruct k as [| | | | | |d]; try discriminate. rewrite index_dict. unfold jget.
        change [107;101;121;105;100]%N with S_keyid. destruct (lookup S_keyid d); reflexivity. }
      destruct (eqs kid a) eqn:E; simpl (truthy (vb _)); cbv iota.
      * rewrite Hown. destruct (jget S_keyid k); reflexivity.
      * (* second test: the flag of the comparison is false whatever main_key_for_subkey is *)
        unfold py_and at 1. cbn [bind].
        destruct (truthy (match lookup a mk with Some v => inj v | None => VNone end)) eqn:Tm.
        -- cbv beta iota. cbn [bind]. simpl (truthy (vb _)); cbv iota.
           unfold py_and at 1. cbn [bind]. rewrite T1.
           change [115;117;98;107;101;121;115]%N with S_subkeys.
           pose proof (in_subkeys k kid Wk) as Hin.
           destruct (py_get (inj k) (VStr S_subkeys) (VDict [])) as [t4|e4]; [|discriminate]. cbn [bind] in Hin |- *.
           destruct (py_keys t4) as [t5|e5]; [|discriminate]. cbn [bind] in Hin |- *. rewrite Hin.
           cbn [truthy]. destruct (mem_str kid (subkey_ids k)); [|reflexivity].
           rewrite Hown. destruct (jget S_keyid k); reflexivity.
        -- cbv beta iota. cbn [bind]. rewrite Tm.
           unfold py_and at 1. cbn [bind]. rewrite T1.
           change [115;117;98;107;101;121;115]%N with S_subkeys.
           pose proof (in_subkeys k kid Wk) as Hin.
           destruct (py_get (inj k) (VStr S_subkeys) (VDict [])) as [t4|e4]; [|discriminate]. cbn [bind] in Hin |- *.
           destruct (py_keys t4) as [t5|e5]; [|discriminate]. cbn [bind] in Hin |- *. rewrite Hin.
           cbn [truthy]. destruct (mem_str kid (subkey_ids k)); [|reflexivity].
           rewrite Hown. destruct (jget S_keyid k); reflexivity.
    + (* not in the key store: only the inverse dictionary can authorise it *)
      unfold py_and at 1. cbn [bind truthy].
      destruct (lookup a mk) as [m|] eqn:Lm.
      * pose proof (lookup_wf a _ m Wm Lm) as Wmm. destruct (truthy_wf m Wmm) as [T1 T2]. rewrite T2.
        unfold py_and at 1. cbn [bind]. rewrite T1. unfold py_eq. rewrite pv_eqb_vstr.
        destruct (eqs kid a) eqn:E; simpl (truthy (vb _)); cbv iota.
        -- destruct m as [| | | | | |d]; try discriminate. rewrite !index_dict. unfold subkey_entry, jget.
           change [115;117;98;107;101;121;115]%N with S_subkeys. change [107;101;121;105;100]%N with S_keyid.
           unfold key_wf in Wmm. destruct d as [|e0 d]; [discriminate|].
           destruct (lookup S_subkeys (e0 :: d)) as [[| | | | | |subs]|]; try discriminate; cbn [bind].
           ++ rewrite index_dict. destruct (lookup a subs) as [sk|]; cbn [bind]; [|reflexivity].
              destruct (lookup S_keyid (e0 :: d)); reflexivity.
           ++ reflexivity.
        -- unfold py_and at 1. cbn [bind truthy]. reflexivity.
      * unfold py_and at 1. cbn [bind truthy]. unfold py_and at 1. cbn [bind truthy]. reflexivity.
Qed.

(** Corollaries about the function as written (C02: "authorised" means listed for the step, or a subkey
    of a listed main key; nothing else in the key store authorises a link). *)
Corollary source_authorise_only_listed : forall l mk s kid,
  keys_wf (ly_keys l) = true -> keys_wf mk = true ->
  (forall a, In a (st_pubkeys s) -> auth_step l mk kid a = None) ->
  f_authorise (inj (JDict (ly_keys l))) (inj (JDict mk)) (vstrs (st_pubkeys s)) (VStr kid) = Ok (VList [VBool false; VNone; VNone]).
Proof.
  intros l mk s kid W Wm H. rewrite tie_authorise by assumption. rewrite verification_key_first.
  induction (st_pubkeys s) as [|a auth IH]; [reflexivity|].
  cbn [first_some]. rewrite (H a (or_introl eq_refl)). apply IH. intros b Hb. apply H. right. exact Hb.
Qed.

(** an id that is neither listed for the step nor a subkey of a listed key decides nothing *)
Lemma auth_step_none : forall l mk kid a,
  eqs kid a = false ->
  (forall k, lookup a (ly_keys l) = Some k -> mem_str kid (subkey_ids k) = false) ->
  auth_step l mk kid a = None.
Proof.
  intros l mk kid a E H. unfold auth_step. rewrite E.
  destruct (lookup a (ly_keys l)) as [k|].
  - destruct (jtruthy k); [rewrite (H k eq_refl); reflexivity|]. destruct (lookup a mk) as [m|]; [destruct (jtruthy m)|]; reflexivity.
  - destruct (lookup a mk) as [m|]; [destruct (jtruthy m)|]; reflexivity.
Qed.

(** a link filed under a key id that the step does not list, and that is not a subkey of a listed key of the
    key store, is not authorised — whatever else the key store and the inverse dictionary contain *)
Corollary source_unlisted_key_is_refused : forall l mk s kid,
  keys_wf (ly_keys l) = true -> keys_wf mk = true ->
  mem_str kid (st_pubkeys s) = false ->
  (forall a k, In a (st_pubkeys s) -> lookup a (ly_keys l) = Some k -> mem_str kid (subkey_ids k) = false) ->
  f_authorise (inj (JDict (ly_keys l))) (inj (JDict mk)) (vstrs (st_pubkeys s)) (VStr kid) = Ok (VList [VBool false; VNone; VNone]).
Proof.
  intros l mk s kid W Wm Hn Hs. apply source_authorise_only_listed; try assumption.
  intros a Ha. apply auth_step_none.
  - clear Hs. induction (st_pubkeys s) as [|b auth IH]; [destruct Ha|].
    cbn [mem_str] in Hn. apply Bool.orb_false_iff in Hn. destruct Hn as [H1 H2].
    destruct Ha as [<-|Ha]; [exact H1 | exact (IH H2 Ha)].
  - intros k Lk. exact (Hs a k Ha Lk).
Qed.


(** ---- the whole function ---------------------------------------------------- *)
(** [f_verify_link_signature_thresholds] of Gen/Fun02.v is the function as written, with the inverse dictionary and the
    search replaced by calls of the two parts above and the two methods of metadata objects it calls
    (link.verify_signature(key), link.get_payload()) as oracles.  For ANY rendering [R] of metadata objects as Python
    values and any oracles that answer as the model's [verify_signature] / [get_payload] do, it computes the model's
    [verify_link_signature_thresholds]. *)
Definition s_pubkeys : str := [112;117;98;107;101;121;115]%N.
Definition s_threshold : str := [116;104;114;101;115;104;111;108;100]%N.
Definition s_name2 : str := [110;97;109;101]%N.
Definition s_type_ : str := [116;121;112;101;95]%N.
Definition s_link : str := [108;105;110;107]%N.
Definition s_layout : str := [108;97;121;111;117;116]%N.

Definition step_pv (s : step) : pyval :=
  VDict [(VStr s_name2, VStr (st_name s)); (VStr s_pubkeys, vstrs (st_pubkeys s)); (VStr s_threshold, VInt (st_threshold s))].

Definition payload_pv (p : payload) : pyval :=
  match p with
  | PLink lk => VDict [(VStr s_type_, VStr s_link); (VStr s_name2, inj (l_name lk))]
  | PLayout _ => VDict [(VStr s_type_, VStr s_layout)]
  end.

(** the key id a key store entry carries is a string (Layout validation) *)
Definition keyid_str (k : json) : bool :=
  match jget S_keyid k with Some (JStr _) | None => true | Some _ => false end.
Definition keys_wf2 (ks : list (str * json)) : bool := keys_wf ks && forallb (fun kv => keyid_str (snd kv)) ks.

Lemma lookup_keyid_str : forall k (ks : list (str * json)) v,
  forallb (fun kv => keyid_str (snd kv)) ks = true -> lookup k ks = Some v -> keyid_str v = true.
Proof.
  induction ks as [|[k' v'] ks IH]; intros v H L; [discriminate|].
  cbn [forallb snd] in H. apply andb_prop in H. destruct H as [H1 H2].
  cbn [lookup] in L. destruct (eqs k k'); [injection L as <-; exact H1 | exact (IH v H2 L)].
Qed.

Lemma auth_step_mainid : forall l mk kid a vk mid,
  forallb (fun kv => keyid_str (snd kv)) (ly_keys l) = true -> forallb (fun kv => keyid_str (snd kv)) mk = true ->
  auth_step l mk kid a = Some (Ok (vk, mid)) -> exists m, mid = JStr m.
Proof.
  intros l mk kid a vk mid Hk Hm. unfold auth_step.
  assert (Hown : forall k, keyid_str k = true ->
            match jget S_keyid k with Some kid0 => Some (Ok (k, kid0)) | None => Some (Err EKeyError) end = Some (Ok (vk, mid)) ->
            exists m, mid = JStr m).
  { intros k Hs. unfold keyid_str in Hs. destruct (jget S_keyid k) as [[| | | |m| |]|]; try discriminate.
    intro E. injection E as _ <-. exists m. reflexivity. }
  destruct (lookup a (ly_keys l)) as [k|] eqn:Lk.
  - pose proof (lookup_keyid_str a _ k Hk Lk) as Hs. destruct (jtruthy k).
    + destruct (eqs kid a); [exact (Hown k Hs)|]. destruct (mem_str kid (subkey_ids k)); [exact (Hown k Hs) | discriminate].
    + destruct (lookup a mk) as [m|] eqn:Lm; [|discriminate]. destruct (jtruthy m); [|discriminate].
      destruct (eqs kid a); [|discriminate]. pose proof (lookup_keyid_str a _ m Hm Lm) as Hs'. unfold keyid_str in Hs'.
      destruct (subkey_entry m a); [|discriminate]. destruct (jget S_keyid m) as [[| | | |x| |]|]; try discriminate.
      intro E. injection E as _ <-. exists x. reflexivity.
  - destruct (lookup a mk) as [m|] eqn:Lm; [|discriminate]. destruct (jtruthy m); [|discriminate].
    destruct (eqs kid a); [|discriminate]. pose proof (lookup_keyid_str a _ m Hm Lm) as Hs'. unfold keyid_str in Hs'.
    destruct (subkey_entry m a); [|discriminate]. destruct (jget S_keyid m) as [[| | | |x| |]|]; try discriminate.
    intro E. injection E as _ <-. exists x. reflexivity.
Qed.

Lemma first_some_In : forall {A B} (g : A -> option B) l b, first_some g l = Some b -> exists a, In a l /\ g a = Some b.
Proof.
  intros A B g. induction l as [|a l IH]; intros b H; [discriminate|]. cbn [first_some] in H.
  destruct (g a) eqn:E; [injection H as <-; exists a; split; [left; reflexivity | exact E]|].
  destruct (IH b H) as [a' [Hin Ha]]. exists a'. split; [right; exact Hin | exact Ha].
Qed.

Lemma verification_key_mainid : forall l mk s kid vk mid,
  forallb (fun kv => keyid_str (snd kv)) (ly_keys l) = true -> forallb (fun kv => keyid_str (snd kv)) mk = true ->
  verification_key l mk s kid = Some (Ok (vk, mid)) -> exists m, mid = JStr m.
Proof.
  intros l mk s kid vk mid Hk Hm H. rewrite verification_key_first in H.
  destruct (first_some_In _ _ _ H) as [a [_ Ha]]. exact (auth_step_mainid l mk kid a vk mid Hk Hm Ha).
Qed.

(** the values of the inverse dictionary are entries of the key store *)
Lemma dict_set_values : forall {A} (P : A -> Prop) k v (l : list (str * A)),
  P v -> (forall kv, In kv l -> P (snd kv)) -> forall kv, In kv (dict_set k v l) -> P (snd kv).
Proof.
  intros A P k v. induction l as [|[k' v'] l IH]; intros Hv Hl kv Hin.
  - cbn [dict_set] in Hin. destruct Hin as [<-|[]]. exact Hv.
  - cbn [dict_set] in Hin. destruct (eqs k k').
    + destruct Hin as [<-|Hin]; [exact Hv | apply Hl; right; exact Hin].
    + destruct Hin as [<-|Hin]; [apply (Hl (k', v')); left; reflexivity|].
      apply (IH Hv); [intros kv' H'; apply Hl; right; exact H' | exact Hin].
Qed.

Lemma main_keys_values : forall (P : json -> Prop) l,
  (forall kv, In kv (ly_keys l) -> P (snd kv)) -> forall kv, In kv (main_keys_for_subkeys l) -> P (snd kv).
Proof.
  intros P l H. unfold main_keys_for_subkeys.
  assert (G : forall (ks acc : list (str * json)), (forall kv, In kv ks -> P (snd kv)) -> (forall kv, In kv acc -> P (snd kv)) ->
              forall kv, In kv (fold_left (fun acc kv => fold_left (fun acc' sk => dict_set sk (snd kv) acc') (subkey_ids (snd kv)) acc) ks acc) -> P (snd kv)).
  { induction ks as [|[kid key] ks IH]; intros acc Hks Hacc; [exact Hacc|]. cbn [fold_left snd].
    apply IH; [intros kv Hkv; apply Hks; right; exact Hkv|].
    assert (Pk : P key) by (apply (Hks (kid, key)); left; reflexivity).
    generalize (subkey_ids key). intro subs. revert acc Hacc. induction subs as [|sk subs IHs]; intros acc Hacc; [exact Hacc|].
    cbn [fold_left]. apply IHs. exact (dict_set_values P sk key acc Pk Hacc). }
  apply G; [exact H | intros kv []].
Qed.

Lemma forallb_In_snd : forall (f : json -> bool) (ks : list (str * json)),
  forallb (fun kv => f (snd kv)) ks = true <-> (forall kv, In kv ks -> f (snd kv) = true).
Proof. intros f ks. rewrite forallb_forall. reflexivity. Qed.

Lemma main_keys_wf2 : forall l, keys_wf2 (ly_keys l) = true -> keys_wf2 (main_keys_for_subkeys l) = true.
Proof.
  intros l H. unfold keys_wf2 in *. apply andb_prop in H. destruct H as [H1 H2]. apply andb_true_intro. split.
  - unfold keys_wf. apply forallb_In_snd. apply (main_keys_values (fun k => key_wf k = true)). apply forallb_In_snd. exact H1.
  - apply forallb_In_snd. apply (main_keys_values (fun k => keyid_str k = true)). apply forallb_In_snd. exact H2.
Qed.

Lemma index3 : forall a b c, py_index (VList [a; b; c]) (VInt 0) = Ok a /\ py_index (VList [a; b; c]) (VInt 1) = Ok b
                             /\ py_index (VList [a; b; c]) (VInt 2) = Ok c.
Proof. intros a b c. repeat split; reflexivity. Qed.

Lemma pv_eqb_inj_str : forall j n, pv_eqb (inj j) (VStr n) = match j with JStr m => eqs m n | _ => false end.
Proof. intros j n. destruct j; reflexivity. Qed.

Lemma py_fold_items_map : forall {A S T : Type} (P : A -> Prop) (K V : A -> pyval) (W : S -> T)
                                 (body : pyval -> pyval -> T -> res T) (step : A -> S -> res S),
  (forall x st, P x -> body (K x) (V x) (W st) = res_map2 W (step x st)) ->
  forall l st, (forall x, In x l -> P x) ->
    py_fold_items (map (fun x => (K x, V x)) l) (W st) body = res_map2 W (fold_res step l st).
Proof.
  intros A S T P K V W body step H. induction l as [|x l IH]; intros st HP; [reflexivity|].
  cbn [map py_fold_items fold_res]. rewrite H by (apply HP; left; reflexivity).
  destruct (step x st) as [st'|e]; [|reflexivity]. cbn [res_map2 bind]. apply IH. intros y Hy. apply HP. right. exact Hy.
Qed.

Section Full.
  Variable sig_ok : str -> list N -> str -> bool.
  Variable now_s : Z.
  Variable R : metadata -> pyval.
  Variable o_vs : pyval -> pyval -> res pyval.
  Variable o_gp : pyval -> res pyval.
  Hypothesis H_vs : forall md k, o_vs (R md) (inj k) = match verify_signature sig_ok now_s md k with Ok _ => Ok VNone | Err e => Err e end.
  Hypothesis H_gp : forall md, o_gp (R md) = match get_payload md with Ok p => Ok (payload_pv p) | Err e => Err e end.

  Definition rkv (kv : str * metadata) : pyval * pyval := (VStr (fst kv), R (snd kv)).
  Definition found_pv (f : list (str * metadata)) : pyval := VDict (map rkv f).
  Definition sm_pv (sm : list (str * list (str * metadata))) : pyval :=
    VDict (map (fun nf => (VStr (fst nf), found_pv (snd nf))) sm).

  Lemma pv_set_R : forall k v (l : list (str * metadata)), pv_set (VStr k) (R v) (map rkv l) = map rkv (dict_set k v l).
  Proof.
    induction l as [|[k' v'] l IH]; [reflexivity|].
    cbn [map pv_set dict_set rkv fst snd]. rewrite pv_eqb_vstr. destruct (eqs k k'); [reflexivity|].
    cbn [map rkv fst snd]. rewrite IH. reflexivity.
  Qed.

  Lemma pv_assoc_sm : forall k sm,
    pv_assoc pv_eqb (VStr k) (map (fun nf => (VStr (fst nf), found_pv (snd nf))) sm) = option_map found_pv (lookup k sm).
  Proof. induction sm as [|[k' v] c IH]; cbn; [reflexivity|]. destruct (eqs k k'); [reflexivity | exact IH]. Qed.

  (** the model's loop over the link files of one step, as a fold *)
  Definition link_step (l : layout) (mk : list (str * json)) (s : step) (kv : str * metadata)
             (st : list str * list (str * metadata)) : res (list str * list (str * metadata)) :=
    match verification_key l mk s (fst kv) with
    | None => Ok st
    | Some (Err e) => Err e
    | Some (Ok (vk, mainid)) =>
        match verify_signature sig_ok now_s (snd kv) vk with
        | Err ESignature | Err EKeyExpired => Ok st
        | Err e => Err e
        | Ok _ =>
            do same <- names_step (snd kv) s;
            if negb same then Ok st else
            match mainid with
            | JStr mkid => Ok (fst st ++ [mkid], dict_set (fst kv) (snd kv) (snd st))
            | _ => Err EUnmodelled
            end
        end
    end.

  Lemma verify_step_links_fold : forall l mk s found used acc,
    verify_step_links sig_ok now_s l mk s found used acc = fold_res (link_step l mk s) found (used, acc).
  Proof.
    intros l mk s. induction found as [|[kid md] found IH]; intros used acc; [reflexivity|].
    cbn [verify_step_links fold_res]. unfold link_step at 1. cbn [fst snd].
    destruct (verification_key l mk s kid) as [[[vk mainid]|e]|]; cbn [bind]; [| reflexivity | apply IH].
    destruct (verify_signature sig_ok now_s md vk) as [u|e]; [|destruct e; try reflexivity; apply IH].
    destruct (names_step md s) as [same|e]; cbn [bind]; [|reflexivity].
    destruct (negb same); cbn [bind]; [apply IH|]. destruct mainid; try reflexivity. cbn [bind]. apply IH.
  Qed.

  Definition W (st : list str * list (str * metadata)) : pyval * pyval := (vstrs (fst st), found_pv (snd st)).

  (** one link file: the body of the loop over a step's link files *)
  Lemma body_link : forall l mk s,
    keys_wf2 (ly_keys l) = true -> keys_wf2 mk = true ->
    forall (body : pyval -> pyval -> pyval * pyval -> res (pyval * pyval)),
    (body = fun v_link_keyid v_link '(v_used_main_keyids, v_verified_key_link_dict) =>
       do v_r_search <- (do t2 <- py_getattr (step_pv s) (VStr [112;117;98;107;101;121;115]%N);
                         f_authorise (inj (JDict (ly_keys l))) (inj (JDict mk)) t2 v_link_keyid);
       do v_found <- py_index v_r_search (VInt 0);
       do v_verification_key <- py_index v_r_search (VInt 1);
       do v_main_keyid <- py_index v_r_search (VInt 2);
       do t3 <- Ok (py_not v_found);
       if truthy t3 then Ok (v_used_main_keyids, v_verified_key_link_dict) else
       py_catch2 (o_vs v_link v_verification_key) ESignature EKeyExpired
         (fun _ => Ok (v_used_main_keyids, v_verified_key_link_dict))
         (fun _ => Ok (v_used_main_keyids, v_verified_key_link_dict))
         (fun _ =>
            do v_payload <- o_gp v_link;
            do t7 <- py_and (do t4 <- py_getattr v_payload (VStr [116;121;112;101;95]%N); py_eq t4 (VStr [108;105;110;107]%N))
                            (fun _ => do t5 <- py_getattr v_payload (VStr [110;97;109;101]%N);
                                      do t6 <- py_getattr (step_pv s) (VStr [110;97;109;101]%N); py_ne t5 t6);
            if truthy t7 then Ok (v_used_main_keyids, v_verified_key_link_dict) else
            do t8 <- py_in v_main_keyid v_used_main_keyids;
            if truthy t8 then
              do v_used_main_keyids <- py_append v_used_main_keyids v_main_keyid;
              do v_verified_key_link_dict <- py_setitem v_verified_key_link_dict v_link_keyid v_link;
              Ok (v_used_main_keyids, v_verified_key_link_dict)
            else
              do v_used_main_keyids <- py_append v_used_main_keyids v_main_keyid;
              do v_verified_key_link_dict <- py_setitem v_verified_key_link_dict v_link_keyid v_link;
              Ok (v_used_main_keyids, v_verified_key_link_dict))) ->
    forall kv st, body (VStr (fst kv)) (R (snd kv)) (W st) = res_map2 W (link_step l mk s kv st).
  Proof.
    intros l mk s Wk Wm body Hb [kid md] [used acc]. subst body. unfold W at 1. cbn [fst snd].
    unfold keys_wf2 in Wk, Wm. apply andb_prop in Wk. destruct Wk as [Wk1 Wk2]. apply andb_prop in Wm. destruct Wm as [Wm1 Wm2].
    assert (py_getattr (step_pv s) (VStr [112;117;98;107;101;121;115]%N) = Ok (vstrs (st_pubkeys s))) as -> by reflexivity.
    cbn [bind]. rewrite (tie_authorise l mk s kid Wk1 Wm1). unfold link_step. cbn [fst snd].
    destruct (verification_key l mk s kid) as [[[vk mainid]|e]|] eqn:VK; cbn [bind]; [| reflexivity |].
    - destruct (index3 (VBool true) (inj vk) (inj mainid)) as [I0 [I1 I2]]. rewrite I0, I1, I2. cbn [bind py_not truthy negb vb].
      rewrite H_vs. destruct (verify_signature sig_ok now_s md vk) as [u|e]; [|destruct e; reflexivity].
      unfold py_catch2. rewrite H_gp. unfold names_step.
      destruct (get_payload md) as [p|e]; cbn [bind]; [|reflexivity].
      destruct (verification_key_mainid l mk s kid vk mainid Wk2 Wm2 VK) as [mkid ->].
      assert (Htail : forall (b : bool),
                (do t8 <- py_in (inj (JStr mkid)) (vstrs used);
                 if truthy t8 then
                   do u1 <- py_append (vstrs used) (inj (JStr mkid));
                   do d1 <- py_setitem (found_pv acc) (VStr kid) (R md); Ok (u1, d1)
                 else
                   do u1 <- py_append (vstrs used) (inj (JStr mkid));
                   do d1 <- py_setitem (found_pv acc) (VStr kid) (R md); Ok (u1, d1))
                = Ok (W (used ++ [mkid], dict_set kid md acc))).
      { intros _. unfold py_in, vstrs. cbn [bind].
        assert (E : (do u1 <- py_append (VList (map VStr used)) (inj (JStr mkid));
                     do d1 <- py_setitem (found_pv acc) (VStr kid) (R md); Ok (u1, d1))
                    = Ok (W (used ++ [mkid], dict_set kid md acc))).
        { unfold py_append, py_setitem, found_pv, W, vstrs. cbn [bind inj fst snd]. rewrite pv_set_R, map_app. reflexivity. }
        destruct (truthy (vb (pv_mem pv_eqb (inj (JStr mkid)) (map VStr used)))); exact E. }
      destruct p as [lk|ly]; cbn [payload_pv].
      + assert (py_getattr (VDict [(VStr s_type_, VStr s_link); (VStr s_name2, inj (l_name lk))]) (VStr [116;121;112;101;95]%N)
                = Ok (VStr s_link)) as -> by reflexivity.
        assert (py_getattr (VDict [(VStr s_type_, VStr s_link); (VStr s_name2, inj (l_name lk))]) (VStr [110;97;109;101]%N)
                = Ok (inj (l_name lk))) as -> by reflexivity.
        assert (py_getattr (step_pv s) (VStr [110;97;109;101]%N) = Ok (VStr (st_name s))) as -> by reflexivity.
        unfold py_and. cbn [bind py_eq]. change (pv_eqb (VStr s_link) (VStr [108;105;110;107]%N)) with true.
        cbn [vb truthy bind]. unfold py_ne. rewrite pv_eqb_inj_str. cbn [bind].
        set (same := match l_name lk with JStr n => eqs n (st_name s) | _ => false end).
        destruct same; cbn [negb vb truthy res_map2].
        * rewrite (Htail true). reflexivity.
        * reflexivity.
      + assert (py_getattr (VDict [(VStr s_type_, VStr s_layout)]) (VStr [116;121;112;101;95]%N) = Ok (VStr s_layout)) as -> by reflexivity.
        unfold py_and. cbn [bind py_eq]. change (pv_eqb (VStr s_layout) (VStr [108;105;110;107]%N)) with false.
        cbn [vb truthy bind negb res_map2]. rewrite (Htail true). reflexivity.
    - destruct (index3 (VBool false) VNone VNone) as [I0 [I1 I2]]. rewrite I0, I1, I2. cbn [bind py_not truthy negb vb]. reflexivity.
  Qed.

  (** one step: the body of the loop over the steps *)
  Definition step_result (l : layout) (mk : list (str * json)) (sm : list (str * list (str * metadata))) (s : step)
    : res (list (str * metadata)) :=
    let found := match lookup (st_name s) sm with Some f => f | None => [] end in
    do' (used, good) <- verify_step_links sig_ok now_s l mk s found [] [];
    if (Z.of_nat (length (dedup used)) <? st_threshold s)%Z then Err EThreshold else Ok good.

  Definition steps_fold (l : layout) (mk : list (str * json)) (sm : list (str * list (str * metadata))) (s : step)
             (acc : list (str * list (str * metadata))) : res (list (str * list (str * metadata))) :=
    do good <- step_result l mk sm s; Ok (dict_set (st_name s) good acc).

  Lemma pv_set_sm : forall k v (l : list (str * list (str * metadata))),
    pv_set (VStr k) (found_pv v) (map (fun nf => (VStr (fst nf), found_pv (snd nf))) l)
    = map (fun nf => (VStr (fst nf), found_pv (snd nf))) (dict_set k v l).
  Proof.
    induction l as [|[k' v'] l IH]; [reflexivity|].
    cbn [map pv_set dict_set fst snd]. rewrite pv_eqb_vstr. destruct (eqs k k'); [reflexivity|].
    cbn [map fst snd]. rewrite IH. reflexivity.
  Qed.

  Theorem tie_thresholds_fold : forall l sm,
    keys_wf2 (ly_keys l) = true ->
    f_verify_link_signature_thresholds o_vs o_gp (inj (JDict (ly_keys l))) (VList (map step_pv (ly_steps l))) (sm_pv sm)
    = res_map2 sm_pv (fold_res (steps_fold l (main_keys_for_subkeys l) sm) (ly_steps l) []).
  Proof.
    intros l sm Wk. unfold f_verify_link_signature_thresholds.
    pose proof Wk as Wk'. unfold keys_wf2 in Wk'. apply andb_prop in Wk'. destruct Wk' as [Wk1 _].
    rewrite (tie_main_keys_for_subkeys l Wk1). cbn [bind]. set (mk := main_keys_for_subkeys l).
    pose proof (main_keys_wf2 l Wk) as Wm. fold mk in Wm.
    unfold py_for at 1. cbn [py_iter bind].
    match goal with |- context [py_fold (map step_pv (ly_steps l)) (VDict []) ?b] => set (outer := b) end.
    change (VDict []) with (sm_pv []).
    rewrite (py_fold_map step_pv sm_pv outer (steps_fold l mk sm)).
    - destruct (fold_res (steps_fold l mk sm) (ly_steps l) []); reflexivity.
    - intros s acc. unfold outer, steps_fold, step_result.
      assert (py_getattr (step_pv s) (VStr [110;97;109;101]%N) = Ok (VStr (st_name s))) as Hn by reflexivity.
      assert (py_getattr (step_pv s) (VStr [116;104;114;101;115;104;111;108;100]%N) = Ok (VInt (st_threshold s))) as Ht by reflexivity.
      rewrite !Hn, Ht. cbn [bind]. unfold py_get, sm_pv at 1. rewrite pv_assoc_sm.
      set (found := match lookup (st_name s) sm with Some f => f | None => [] end).
      assert (Hf : match option_map found_pv (lookup (st_name s) sm) with Some x => x | None => VDict [] end = found_pv found)
        by (unfold found; destruct (lookup (st_name s) sm); reflexivity).
      rewrite Hf. cbn [bind]. unfold found_pv at 1, py_for_items.
      match goal with |- context [py_fold_items (map rkv found) _ ?b] => set (body := b) end.
      rewrite verify_step_links_fold.
      change (VList [], VDict []) with (W ([], [])).
      rewrite (py_fold_items_map (fun _ => True) (fun kv => VStr (fst kv)) (fun kv => R (snd kv)) W body (link_step l mk s)).
      + destruct (fold_res (link_step l mk s) found ([], [])) as [[used good]|e]; cbn [res_map2 bind]; [|reflexivity].
        unfold W. cbn [fst snd]. unfold vstrs, py_set. cbn [bind]. rewrite pv_dedup_vstr. unfold py_len. cbn [bind].
        rewrite map_length. unfold py_lt, py_cmp. cbn [as_int bind vb].
        destruct (Z.of_nat (length (dedup used)) <? st_threshold s)%Z; cbn [truthy bind res_map2]; [reflexivity|].
        unfold py_setitem, sm_pv. rewrite pv_set_sm. reflexivity.
      + intros kv st _. apply (body_link l mk s Wk Wm body); reflexivity.
      + intros x _. exact I.
  Qed.

  (** with distinct step names (Layout validation) the dictionary built step by step is the model's list *)
  Lemma dict_set_fresh : forall {A} k (v : A) l, mem_str k (keys l) = false -> dict_set k v l = l ++ [(k, v)].
  Proof.
    intros A k v. induction l as [|[k' v'] l IH]; intro H; [reflexivity|].
    cbn [keys map fst mem_str] in H. apply Bool.orb_false_iff in H. destruct H as [H1 H2].
    cbn [dict_set]. rewrite H1. cbn [app]. rewrite (IH H2). reflexivity.
  Qed.

  Lemma keys_app : forall {A} (a b : list (str * A)), keys (a ++ b) = keys a ++ keys b.
  Proof. intros A a b. unfold keys. apply map_app. Qed.

  Lemma mem_str_app : forall x a b, mem_str x (a ++ b) = mem_str x a || mem_str x b.
  Proof. induction a as [|y a IH]; intro b; [reflexivity|]. cbn [app mem_str]. rewrite IH, Bool.orb_assoc. reflexivity. Qed.

  Fixpoint names_fresh (names : list str) (seen : list str) : bool :=
    match names with [] => true | n :: r => negb (mem_str n seen) && names_fresh r (seen ++ [n]) end.

  Lemma fold_is_mapM : forall l mk sm steps acc,
    names_fresh (map st_name steps) (keys acc) = true ->
    fold_res (steps_fold l mk sm) steps acc =
    do r <- mapM (fun s => do good <- step_result l mk sm s; Ok (st_name s, good)) steps; Ok (acc ++ r).
  Proof.
    intros l mk sm. induction steps as [|s steps IH]; intros acc Hn.
    - cbn [fold_res mapM bind]. rewrite app_nil_r. reflexivity.
    - cbn [map names_fresh] in Hn. apply andb_prop in Hn. destruct Hn as [H1 H2]. apply Bool.negb_true_iff in H1.
      cbn [fold_res mapM]. unfold steps_fold at 1. destruct (step_result l mk sm s) as [good|e]; cbn [bind]; [|reflexivity].
      rewrite (dict_set_fresh (st_name s) good acc H1). rewrite IH by (rewrite keys_app; exact H2).
      destruct (mapM (fun s0 => do good0 <- step_result l mk sm s0; Ok (st_name s0, good0)) steps) as [r|e]; cbn [bind]; [|reflexivity].
      rewrite <- app_assoc. reflexivity.
  Qed.

  Lemma mapM_ext_local : forall {A B} (f g : A -> res B) l, (forall x, f x = g x) -> mapM f l = mapM g l.
  Proof. intros A B f g l H. induction l as [|x l IH]; [reflexivity|]. cbn [mapM]. rewrite H, IH. reflexivity. Qed.

  Lemma model_as_mapM : forall l sm,
    verify_link_signature_thresholds sig_ok now_s l sm =
    mapM (fun s => do good <- step_result l (main_keys_for_subkeys l) sm s; Ok (st_name s, good)) (ly_steps l).
  Proof.
    intros l sm. unfold verify_link_signature_thresholds. apply mapM_ext_local. intro s. unfold step_result.
    destruct (verify_step_links sig_ok now_s l (main_keys_for_subkeys l) s
                (match lookup (st_name s) sm with Some f => f | None => [] end) [] []) as [[used good]|e]; cbn [bind]; [|reflexivity].
    destruct (Z.of_nat (length (dedup used)) <? st_threshold s)%Z; reflexivity.
  Qed.

  (** the function as written computes the model's [verify_link_signature_thresholds] *)
  Theorem tie_thresholds : forall l sm,
    keys_wf2 (ly_keys l) = true -> names_fresh (map st_name (ly_steps l)) [] = true ->
    f_verify_link_signature_thresholds o_vs o_gp (inj (JDict (ly_keys l))) (VList (map step_pv (ly_steps l))) (sm_pv sm)
    = res_map2 sm_pv (verify_link_signature_thresholds sig_ok now_s l sm).
  Proof.
    intros l sm Wk Hn. rewrite (tie_thresholds_fold l sm Wk). rewrite (fold_is_mapM l _ sm (ly_steps l) [] Hn).
    rewrite model_as_mapM.
    destruct (mapM (fun s => do good <- step_result l (main_keys_for_subkeys l) sm s; Ok (st_name s, good)) (ly_steps l)); reflexivity.
  Qed.

  (** hence every statement of Props/C02.v and Props/C08.v about the model's function is a statement about the function
      as written: it returns exactly when the model does, with the rendering of the model's verified set, and fails
      with the same error class *)
  Corollary source_thresholds_ok : forall l sm v,
    keys_wf2 (ly_keys l) = true -> names_fresh (map st_name (ly_steps l)) [] = true ->
    f_verify_link_signature_thresholds o_vs o_gp (inj (JDict (ly_keys l))) (VList (map step_pv (ly_steps l))) (sm_pv sm) = Ok v ->
    exists vm, verify_link_signature_thresholds sig_ok now_s l sm = Ok vm /\ v = sm_pv vm.
  Proof.
    intros l sm v Wk Hn H. rewrite (tie_thresholds l sm Wk Hn) in H.
    destruct (verify_link_signature_thresholds sig_ok now_s l sm) as [vm|e]; [|discriminate].
    injection H as <-. exists vm. split; reflexivity.
  Qed.

  Corollary source_thresholds_err : forall l sm e,
    keys_wf2 (ly_keys l) = true -> names_fresh (map st_name (ly_steps l)) [] = true ->
    (f_verify_link_signature_thresholds o_vs o_gp (inj (JDict (ly_keys l))) (VList (map step_pv (ly_steps l))) (sm_pv sm) = Err e
     <-> verify_link_signature_thresholds sig_ok now_s l sm = Err e).
  Proof.
    intros l sm e Wk Hn. rewrite (tie_thresholds l sm Wk Hn).
    destruct (verify_link_signature_thresholds sig_ok now_s l sm) as [vm|e']; cbn [res_map2]; split; intro H; try discriminate; injection H as ->; reflexivity.
  Qed.

  (** C02 / C08 about the function as written (through the stage lemmas of Proofs/VerifyThreshold.v): when it returns,
      the set it returns for every step is exactly the link files of that step that satisfy the verified predicate
      [link_ok] - filed under an authorised key id, carrying a signature the oracle accepts under the selected key, and
      naming this step - in load order, and the main-key ids they count for, duplicates removed, reach the threshold *)
  Corollary source_thresholds_sound : forall l sm v,
    keys_wf2 (ly_keys l) = true -> names_fresh (map st_name (ly_steps l)) [] = true ->
    (forall s, In s (ly_steps l) -> NoDup (keys (found_of s sm))) ->
    f_verify_link_signature_thresholds o_vs o_gp (inj (JDict (ly_keys l))) (VList (map step_pv (ly_steps l))) (sm_pv sm) = Ok v ->
    exists vm, v = sm_pv vm /\
      Forall2 (fun s e => fst e = st_name s /\
                 snd e = filter (link_ok sig_ok now_s l (main_keys_for_subkeys l) s) (found_of s sm) /\
                 (st_threshold s <= Z.of_nat (length (dedup (map (main_of l (main_keys_for_subkeys l) s) (snd e)))))%Z)
              (ly_steps l) vm.
  Proof.
    intros l sm v Wk Hn ND H. destruct (source_thresholds_ok l sm v Wk Hn H) as [vm [Hm ->]]. exists vm. split; [reflexivity|].
    pose proof (vlst_inv sig_ok now_s l sm vm Hm) as F.
    assert (G : forall steps vm', (forall s, In s steps -> NoDup (keys (found_of s sm))) ->
              Forall2 (fun s e => fst e = st_name s /\ exists used,
                         verify_step_links sig_ok now_s l (main_keys_for_subkeys l) s (found_of s sm) [] [] = Ok (used, snd e) /\
                         (st_threshold s <= Z.of_nat (length (dedup used)))%Z) steps vm' ->
              Forall2 (fun s e => fst e = st_name s /\
                         snd e = filter (link_ok sig_ok now_s l (main_keys_for_subkeys l) s) (found_of s sm) /\
                         (st_threshold s <= Z.of_nat (length (dedup (map (main_of l (main_keys_for_subkeys l) s) (snd e)))))%Z) steps vm').
    { intros steps vm' HND F'. induction F' as [|s e steps vm' [He [used [Hv Ht]]] F' IH]; [constructor|].
      constructor; [|apply IH; intros s' Hs'; apply HND; right; exact Hs'].
      destruct (vsl_filter sig_ok now_s l _ s _ used (snd e) (HND s (or_introl eq_refl)) Hv) as [Hg [Hu _]].
      split; [exact He|]. split; [exact Hg|]. rewrite <- Hu. exact Ht. }
    exact (G _ _ ND F).
  Qed.

  (** C08: a link whose signed content names another step is in no step's returned set, under whatever file name *)
  Corollary source_wrong_step_never_verified : forall l sm v,
    keys_wf2 (ly_keys l) = true -> names_fresh (map st_name (ly_steps l)) [] = true ->
    (forall s, In s (ly_steps l) -> NoDup (keys (found_of s sm))) ->
    f_verify_link_signature_thresholds o_vs o_gp (inj (JDict (ly_keys l))) (VList (map step_pv (ly_steps l))) (sm_pv sm) = Ok v ->
    exists vm, v = sm_pv vm /\
      Forall2 (fun s e => forall kid md lk, In (kid, md) (snd e) -> get_payload md = Ok (PLink lk) -> l_name lk = JStr (st_name s))
              (ly_steps l) vm.
  Proof.
    intros l sm v Wk Hn ND H. destruct (source_thresholds_sound l sm v Wk Hn ND H) as [vm [-> F]]. exists vm. split; [reflexivity|].
    eapply Forall2_impl; [|exact F]. intros s e [_ [Hg _]] kid md lk Hin Hp. rewrite Hg in Hin. apply filter_In in Hin.
    destruct Hin as [_ Hok]. unfold link_ok in Hok. cbn [fst snd] in Hok.
    destruct (verification_key l (main_keys_for_subkeys l) s kid) as [[[vk mid]|e0]|]; try discriminate.
    destruct mid; try discriminate.
    destruct (verify_signature sig_ok now_s md vk); [|discriminate].
    destruct (names_step md s) as [[|]|e1] eqn:Hns; try discriminate.
    exact (names_step_true md s Hns lk Hp).
  Qed.
End Full.

(** the hypotheses on the layout are met by a key store with a master key, its subkeys and a plain key *)
Example wf_example :
  let sub := JDict [(S_keyid, JStr [115;49]%N)] in
  let master := JDict [(S_keyid, JStr [109]%N); (S_subkeys, JDict [([115;49]%N, sub); ([115;50]%N, JDict [(S_keyid, JStr [115;50]%N)])])] in
  let plain := JDict [(S_keyid, JStr [112]%N)] in
  keys_wf2 [([109]%N, master); ([112]%N, plain)] = true
  /\ names_fresh [[97]%N; [98]%N; [97;98]%N] [] = true /\ names_fresh [[97]%N; [98]%N; [97]%N] [] = false.
Proof. vm_compute. repeat split. Qed.

Print Assumptions tie_main_keys_for_subkeys.
Print Assumptions tie_authorise.
Print Assumptions source_authorise_only_listed.
Print Assumptions source_unlisted_key_is_refused.
Print Assumptions tie_thresholds.
Print Assumptions source_thresholds_ok.
Print Assumptions source_thresholds_err.
Print Assumptions source_thresholds_sound.
Print Assumptions source_wrong_step_never_verified.
