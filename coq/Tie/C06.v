(** Tie/C06.v — what tools/sublay_ties.py regenerates from /repo (Gen/Sublay.v) is what Model/Verify.v
    models: the sub-directory and link file names, the field selection of get_summary_link, and the
    statement skeleton of verify_sublayouts.  Recompiled on every run of the C06 check. *)
From InToto.Model Require Import Base Json Strs Rules Meta Verify.
From InToto.Gen Require Import Sublay.
From Coq Require Import String Ascii.

Fixpoint s2l (s : string) : list N :=
  match s with EmptyString => [] | String c r => N_of_ascii c :: s2l r end.

(** SUBLAYOUT_LINK_DIR_FORMAT.format(name=, keyid=) and FILENAME_FORMAT.format(step_name=, keyid=) *)
Theorem tie_sublayout_dirname : forall name keyid, g_sublayout_dirname name keyid = sublayout_dirname name keyid.
Proof. reflexivity. Qed.
Theorem tie_link_filename : forall step_name keyid, g_link_filename step_name keyid = link_filename step_name keyid.
Proof. reflexivity. Qed.

(** get_summary_link: which field of which step's link goes where *)
Theorem tie_summary_link : forall l reduced name first rest f la,
  ly_steps l = first :: rest ->
  lookup (st_name first) reduced = Some f ->
  lookup (st_name (last (ly_steps l) first)) reduced = Some la ->
  get_summary_link l reduced name = Ok (g_summary_link f la name).
Proof.
  intros l reduced name first rest f la Hs Hf Hl. unfold get_summary_link.
  rewrite Hs in *. rewrite Hf, Hl. reflexivity.
Qed.

(** verify_sublayouts, statement by statement (docstrings and LOG calls dropped).  Model/Verify.v:
    the two loops = subs_steps / subs_links (dict iteration = load order); "payload = metadata.get_payload()" =
    the match on [get_payload md]; the guard on type_ = the PLayout branch; the key dict, the directory and the
    call with exactly these arguments = [sub_args] / [sublayout_dirname] / the closure looked up in [recs];
    no try/except around the call = [Err e => (Err e, ...)]; "payload = summary_link" and the two dict
    assignments = [(kid, summary) :: rest] / [(sname, kl) :: rest]. *)
Definition expected_verify_sublayouts : list str := List.map s2l [
  "args:layout,steps_metadata,superlayout_link_dir_path,inspect_timeout";
  "chain_link_dict = {}";
  "for (step_name, metadata_dict) in steps_metadata.items()";
  "  key_link_dict = {}";
  "  for (keyid, metadata) in metadata_dict.items()";
  "    payload = metadata.get_payload()";
  "    if payload.type_ == 'layout'";
  "      layout_key_dict = {}";
  "      layout_key_dict = {keyid: layout.keys.get(keyid)}";
  "      sub_link_dir = in_toto.models.layout.SUBLAYOUT_LINK_DIR_FORMAT.format(name=step_name, keyid=keyid)";
  "      sublayout_link_dir_path = os.path.join(superlayout_link_dir_path, sub_link_dir)";
  "      summary_link = in_toto_verify(metadata, layout_key_dict, link_dir_path=sublayout_link_dir_path, step_name=step_name, inspect_timeout=inspect_timeout)";
  "      payload = summary_link";
  "    key_link_dict[keyid] = payload";
  "  chain_link_dict[step_name] = key_link_dict";
  "return chain_link_dict"]%string.

Theorem tie_verify_sublayouts_skeleton : g_verify_sublayouts = expected_verify_sublayouts.
Proof. vm_compute. reflexivity. Qed.

Print Assumptions tie_sublayout_dirname.
Print Assumptions tie_link_filename.
Print Assumptions tie_summary_link.
Print Assumptions tie_verify_sublayouts_skeleton.
