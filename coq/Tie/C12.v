(** Tie/C12.v — the order of in_toto_record_stop's steps as /repo/in_toto/runlib.py has it on THIS run.
    Gen/Skel.v is regenerated from the source (tools/pytrans.py, effect skeletons); the verified ordering checkers of
    Model/Skel.v (sound for every trace of the skeleton: every call may raise, every branch may go either way) are
    evaluated on it in the kernel.  What they establish for the function as written:
      * the preliminary link is loaded, its signature is checked and the products are recorded BEFORE the final link is
        signed and written; nothing is written before the signature check succeeded;
      * the removal of the preliminary link comes after the dump of the final link returned normally, and is the last
        effect of every successful run: a run cut short anywhere leaves the preliminary link in place. *)
From Coq Require Import String Ascii.
From InToto.Model Require Import Base Skel.
From InToto.Proofs Require Import SkelSound.
From InToto.Gen Require Import Skel.

Definition s (x : string) : str := map (fun a => N_of_ascii a) (list_ascii_of_string x).

Definition A_load := s "Metadata.load".
Definition A_verify := s "link_metadata.verify_signature".
Definition A_payload := s "link_metadata.get_payload".
Definition A_record := s "record_artifacts_as_dict".
Definition A_sign := s "link_metadata.create_signature".
Definition A_dump := s "link_metadata.dump".
Definition A_rm := s "os.remove(unfinished_fn)".

Theorem tie_C12_stop_order :
  precedes skel_in_toto_record_stop A_load A_verify = true
  /\ precedes skel_in_toto_record_stop A_verify A_payload = true
  /\ precedes skel_in_toto_record_stop A_verify A_record = true
  /\ precedes skel_in_toto_record_stop A_verify A_sign = true
  /\ precedes skel_in_toto_record_stop A_verify A_dump = true
  /\ precedes skel_in_toto_record_stop A_record A_dump = true
  /\ precedes skel_in_toto_record_stop A_sign A_dump = true
  /\ precedes skel_in_toto_record_stop A_dump A_rm = true
  /\ last_effect skel_in_toto_record_stop A_rm = true.
Proof. vm_compute. repeat split; reflexivity. Qed.

(** the calls are really there (the checkers are not vacuously true) *)
Theorem tie_C12_stop_present :
  forallb (has_call skel_in_toto_record_stop) [A_load; A_verify; A_payload; A_record; A_sign; A_dump; A_rm] = true.
Proof. vm_compute. reflexivity. Qed.

(** record start: the preliminary link is the last thing it does, after recording and signing *)
Theorem tie_C12_start_order :
  precedes skel_in_toto_record_start A_record A_dump = true
  /\ precedes skel_in_toto_record_start A_sign A_dump = true
  /\ last_effect skel_in_toto_record_start A_dump = true
  /\ has_call skel_in_toto_record_start A_rm = false.
Proof. vm_compute. repeat split; reflexivity. Qed.

(** for today's code: in every execution of in_toto_record_stop, whenever the removal of the preliminary link is
    attempted, the final link has been written completely (its dump returned normally) before; and whenever anything is
    written, the signature check of the preliminary link has succeeded before *)
Theorem C12_remove_after_write_today : forall rho t o,
  exec rho skel_in_toto_record_stop t o ->
  forall t1 ok t2, t = t1 ++ ECall A_rm ok :: t2 -> In (ECall A_dump true) t1.
Proof.
  intros rho t o. apply (precedes_sound A_dump A_rm rho skel_in_toto_record_stop).
  exact (proj1 (proj2 (proj2 (proj2 (proj2 (proj2 (proj2 (proj2 tie_C12_stop_order)))))))).
Qed.

Theorem C12_write_after_check_today : forall rho t o,
  exec rho skel_in_toto_record_stop t o ->
  forall t1 ok t2, t = t1 ++ ECall A_dump ok :: t2 -> In (ECall A_verify true) t1.
Proof.
  intros rho t o. apply (precedes_sound A_verify A_dump rho skel_in_toto_record_stop).
  exact (proj1 (proj2 (proj2 (proj2 (proj2 tie_C12_stop_order))))).
Qed.

Theorem C12_success_ends_with_removal_today : forall rho t o,
  exec rho skel_in_toto_record_stop t o -> success o = true -> last_call t None = Some (A_rm, true).
Proof.
  intros rho t o. apply (last_effect_sound A_rm rho skel_in_toto_record_stop).
  exact (proj2 (proj2 (proj2 (proj2 (proj2 (proj2 (proj2 (proj2 tie_C12_stop_order)))))))).
Qed.

Print Assumptions C12_remove_after_write_today.
Print Assumptions C12_write_after_check_today.
Print Assumptions C12_success_ends_with_removal_today.
