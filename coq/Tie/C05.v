(** Tie/C05.v — verify_threshold_constraints and reduce_chain_links regenerated from
    /repo/in_toto/verifylib.py (Gen/Fun5.v, by tools/pytrans2.py --thresholds) are the model's functions
    (Model/Verify.v), for which the C05 theorems are proved.  Recompiled against the regenerated source on every run. *)
From Coq Require Import Lia.
From InToto.Model Require Import Base Json PyLib Glob PyLibGlob Rule Rules Meta Verify.
From InToto.Proofs Require Import PyLibFacts2 PyLibFacts3 FsProofs.
From InToto.Gen Require Import Fun5.

(** * Python == on embedded artifact maps is the model's comparison *)
Lemma find_inj_hashrec : forall k (y : amap) a,
  hashrec a = true -> amap_hashrecs y = true ->
  (fix find (y0 : list (pyval * pyval)) : bool :=
     match y0 with
     | [] => false
     | (kb, b) :: y' => if pv_eqb (VStr k) kb then pv_eqb (inj a) b else find y'
     end) (map (fun kv => (VStr (fst kv), inj (snd kv))) y) =
  match lookup k y with Some b => py_eqb a b | None => false end.
Proof.
  induction y as [|[kb b] y IH]; intros a Ha Hy; [reflexivity|].
  cbn [map fst snd lookup]. cbn [amap_hashrecs forallb snd] in Hy. apply andb_true_iff in Hy. destruct Hy as [Hb Hy].
  cbn [pv_eqb]. destruct (eqs k kb).
  - apply pv_eqb_hashrec; assumption.
  - apply IH; assumption.
Qed.

Lemma pv_eqb_amap : forall a b : amap, amap_hashrecs a = true -> amap_hashrecs b = true ->
  pv_eqb (inj_amap a) (inj_amap b) = py_eqb (JDict a) (JDict b).
Proof.
  intros a b Ha Hb. unfold inj_amap. cbn [pv_eqb py_eqb]. rewrite !map_length. f_equal.
  induction a as [|[ka va] a IH]; [reflexivity|].
  cbn [amap_hashrecs forallb snd] in Ha. apply andb_true_iff in Ha. destruct Ha as [Hva Ha].
  cbn [map fst snd]. rewrite (find_inj_hashrec ka b va Hva Hb). rewrite (IH Ha). reflexivity.
Qed.

(** * Rendering of the arguments *)
Definition s_steps : str := [115;116;101;112;115]%N.
Definition s_threshold : str := [116;104;114;101;115;104;111;108;100]%N.
Definition s_name' : str := [110;97;109;101]%N.
Definition step_pv (s : step) : pyval :=
  VDict [(VStr s_name', VStr (st_name s)); (VStr s_threshold, VInt (st_threshold s))].
Definition layout_pv (l : layout) : pyval := VDict [(VStr s_steps, VList (map step_pv (ly_steps l)))].
Definition kl_pv (kl : list (str * link)) : pyval := VDict (map (fun kv => (VStr (fst kv), link_pv (snd kv))) kl).
Definition chain_pv (chain : list (str * list (str * link))) : pyval :=
  VDict (map (fun skl => (VStr (fst skl), kl_pv (snd skl))) chain).

Definition link_ok (lk : link) : Prop := amap_hashrecs (l_materials lk) = true /\ amap_hashrecs (l_products lk) = true.
Definition chain_ok (chain : list (str * list (str * link))) : Prop :=
  forall n kl k lk, In (n, kl) chain -> In (k, lk) kl -> link_ok lk.

Lemma pv_assoc_chain : forall k (chain : list (str * list (str * link))),
  pv_assoc pv_eqb (VStr k) (map (fun skl => (VStr (fst skl), kl_pv (snd skl))) chain) = option_map kl_pv (lookup k chain).
Proof. induction chain as [|[k' v] c IH]; cbn; [reflexivity|]. destruct (eqs k k'); [reflexivity | exact IH]. Qed.

Lemma pv_assoc_kl : forall k (kl : list (str * link)),
  pv_assoc pv_eqb (VStr k) (map (fun kv => (VStr (fst kv), link_pv (snd kv))) kl) = option_map link_pv (lookup k kl).
Proof. induction kl as [|[k' v] c IH]; cbn; [reflexivity|]. destruct (eqs k k'); [reflexivity | exact IH]. Qed.

Lemma getattr_materials : forall lk, py_getattr (link_pv lk) (VStr [109;97;116;101;114;105;97;108;115]%N) = Ok (inj_amap (l_materials lk)).
Proof. reflexivity. Qed.
Lemma getattr_products : forall lk, py_getattr (link_pv lk) (VStr [112;114;111;100;117;99;116;115]%N) = Ok (inj_amap (l_products lk)).
Proof. reflexivity. Qed.

(** loops over d.items() whose state is rendered by [W], for elements satisfying [P] *)
Lemma py_fold_items_map : forall {A S T : Type} (P : A -> Prop) (K V : A -> pyval) (W : S -> T)
                                 (body : pyval -> pyval -> T -> res T) (step : A -> S -> res S),
  (forall x st, P x -> body (K x) (V x) (W st) = res_map2 W (step x st)) ->
  forall l st, (forall x, In x l -> P x) ->
    py_fold_items (map (fun x => (K x, V x)) l) (W st) body = res_map2 W (fold_res step l st).
Proof.
  intros A S T P K V W body step H. induction l as [|x l IH]; intros st HP; [reflexivity|].
  cbn [map py_fold_items fold_res]. rewrite H by (apply HP; left; reflexivity).
  destruct (step x st) as [st'|e]; [|reflexivity]. cbn [res_map2 bind]. apply IH. intros y Hy. apply HP. right. exact Hy.
Qed.

Definition cmp_step (ref : link) (kv : str * link) (_ : unit) : res unit :=
  if amap_eqb (l_materials ref) (l_materials (snd kv)) && amap_eqb (l_products ref) (l_products (snd kv))
  then Ok tt else Err EThreshold.

Lemma cmp_fold : forall ref kl,
  fold_res (cmp_step ref) kl tt =
  if forallb (fun kv => amap_eqb (l_materials ref) (l_materials (snd kv)) && amap_eqb (l_products ref) (l_products (snd kv))) kl
  then Ok tt else Err EThreshold.
Proof.
  intros ref. induction kl as [|kv kl IH]; [reflexivity|]. cbn [fold_res forallb]. unfold cmp_step at 1.
  destruct (amap_eqb (l_materials ref) (l_materials (snd kv)) && amap_eqb (l_products ref) (l_products (snd kv))); [|reflexivity].
  cbn [bind andb]. exact IH.
Qed.

(** the comparison loop over the links of one step *)
Lemma compare_loop : forall (ref : link) (kl : list (str * link)) (body : pyval -> pyval -> unit -> res unit),
  link_ok ref -> (forall k lk, In (k, lk) kl -> link_ok lk) ->
  (forall v_keyid v_link u, body v_keyid v_link u =
       (do t13 <- py_or (do t9 <- py_getattr (link_pv ref) (VStr [109;97;116;101;114;105;97;108;115]%N);
                        do t10 <- py_getattr v_link (VStr [109;97;116;101;114;105;97;108;115]%N); py_ne t9 t10)
                       (fun _ => do t11 <- py_getattr (link_pv ref) (VStr [112;114;111;100;117;99;116;115]%N);
                                 do t12 <- py_getattr v_link (VStr [112;114;111;100;117;99;116;115]%N); py_ne t11 t12);
        if truthy t13 then Err EThreshold else Ok tt)) ->
  py_fold_items (map (fun kv => (VStr (fst kv), link_pv (snd kv))) kl) tt body
  = if forallb (fun kv => amap_eqb (l_materials ref) (l_materials (snd kv)) && amap_eqb (l_products ref) (l_products (snd kv))) kl
    then Ok tt else Err EThreshold.
Proof.
  intros ref kl body [Rm Rp] Hkl Hbody.
  rewrite (py_fold_items_map (fun kv => link_ok (snd kv)) (fun kv => VStr (fst kv)) (fun kv => link_pv (snd kv))
                             (fun u : unit => u) body (cmp_step ref)).
  - rewrite cmp_fold. destruct (forallb _ kl); reflexivity.
  - intros [k lk] [] [Lm Lp]. cbn [fst snd] in *. rewrite Hbody. unfold cmp_step. cbn [snd].
    rewrite !getattr_materials. cbn [bind]. unfold py_ne at 1. rewrite (pv_eqb_amap _ _ Rm Lm). unfold amap_eqb, py_or. cbn [bind].
    destruct (py_eqb (JDict (l_materials ref)) (JDict (l_materials lk))); cbn [negb vb truthy bind andb]; [|reflexivity].
    rewrite !getattr_products. cbn [bind]. unfold py_ne. rewrite (pv_eqb_amap _ _ Rp Lp).
    destruct (py_eqb (JDict (l_products ref)) (JDict (l_products lk))); reflexivity.
  - intros [k lk] Hin. cbn [snd]. exact (Hkl k lk Hin).
Qed.

Definition thr_step (chain : list (str * list (str * link))) (s : step) (_ : unit) : res unit :=
  if (st_threshold s <=? 1)%Z then Ok tt else
  match lookup (st_name s) chain with
  | None => Err EKeyError
  | Some kl =>
      if (Z.of_nat (length kl) <? st_threshold s)%Z then Err EThreshold else
      match kl with
      | [] => Err EIndexError
      | (_, ref) :: _ =>
          if forallb (fun kv => amap_eqb (l_materials ref) (l_materials (snd kv)) &&
                                amap_eqb (l_products ref) (l_products (snd kv))) kl
          then Ok tt else Err EThreshold
      end
  end.

Lemma thr_fold : forall chain steps,
  fold_res (thr_step chain) steps tt =
  (do _ <- mapM (fun s => thr_step chain s tt) steps; Ok tt).
Proof.
  intros chain. induction steps as [|s steps IH]; [reflexivity|].
  cbn [fold_res mapM]. destruct (thr_step chain s tt) as [[]|e]; [|reflexivity]. cbn [bind]. rewrite IH.
  destruct (mapM (fun s0 => thr_step chain s0 tt) steps); reflexivity.
Qed.

Theorem tie_threshold_constraints : forall (l : layout) chain,
  chain_ok chain ->
  f_verify_threshold_constraints (layout_pv l) (chain_pv chain) =
  res_map2 (fun _ => VNone) (verify_threshold_constraints l chain).
Proof.
  intros l chain Hok. unfold f_verify_threshold_constraints, verify_threshold_constraints.
  assert (py_getattr (layout_pv l) (VStr [115;116;101;112;115]%N) = Ok (VList (map step_pv (ly_steps l)))) as -> by reflexivity.
  cbn [bind]. unfold py_for. cbn [py_iter bind].
  rewrite (py_fold_map step_pv (fun u : unit => u) _ (thr_step chain)).
  - rewrite thr_fold. change (fun s => thr_step chain s tt) with
      (fun s => if (st_threshold s <=? 1)%Z then Ok tt else
                match lookup (st_name s) chain with
                | None => Err EKeyError
                | Some kl => if (Z.of_nat (length kl) <? st_threshold s)%Z then Err EThreshold else
                    match kl with
                    | [] => Err EIndexError
                    | (_, ref) :: _ =>
                        if forallb (fun kv => amap_eqb (l_materials ref) (l_materials (snd kv)) &&
                                              amap_eqb (l_products ref) (l_products (snd kv))) kl
                        then Ok tt else Err EThreshold
                    end
                end).
    destruct (mapM _ (ly_steps l)) as [x|e]; reflexivity.
  - intros s []. cbv beta. unfold thr_step.
    assert (py_getattr (step_pv s) (VStr [116;104;114;101;115;104;111;108;100]%N) = Ok (VInt (st_threshold s))) as Ht by reflexivity.
    assert (py_getattr (step_pv s) (VStr [110;97;109;101]%N) = Ok (VStr (st_name s))) as Hn by reflexivity.
    rewrite !Ht, Hn. cbn [bind py_le py_cmp as_int vb truthy].
    destruct (st_threshold s <=? 1)%Z eqn:Ethr; [reflexivity|].
    unfold py_index at 1. unfold chain_pv. rewrite pv_assoc_chain.
    destruct (lookup (st_name s) chain) as [kl|] eqn:El; [|reflexivity].
    cbn [option_map bind]. unfold kl_pv at 1. cbn [py_len bind py_lt py_cmp as_int]. rewrite map_length.
    cbn [vb truthy].
    destruct (Z.of_nat (length kl) <? st_threshold s)%Z eqn:Elen; [reflexivity|].
    destruct kl as [|[k0 ref] kl'].
    + exfalso. cbn in Elen. apply Z.ltb_ge in Elen. apply Z.leb_gt in Ethr. lia.
    + assert (Hin : forall k lk, In (k, lk) ((k0, ref) :: kl') -> link_ok lk).
      { intros k lk Hi. apply (Hok (st_name s) ((k0, ref) :: kl') k lk); [|exact Hi]. apply lookup_In. exact El. }
      unfold kl_pv. cbn [map fst snd py_keys bind py_list py_iter py_index as_int norm_index].
      cbn [length Z.of_nat]. 
      assert (Hni : norm_index 0 (S (length kl')) = Some 0%nat) by reflexivity.
      change (norm_index 0 (length (VStr k0 :: map fst (map (fun kv => (VStr (fst kv), link_pv (snd kv))) kl')))) with
             (norm_index 0 (S (length (map fst (map (fun kv : str * link => (VStr (fst kv), link_pv (snd kv))) kl'))))).
      cbn [norm_index Z.leb Z.ltb Z.compare Z.of_nat znat nth_error bind].
      cbn [pv_assoc pv_eqb]. rewrite eqs_refl. cbn [bind].
      unfold py_for_items.
      rewrite (compare_loop ref ((k0, ref) :: kl') _ (Hin k0 ref (or_introl eq_refl)) Hin) by (intros; reflexivity).
      cbn [bind]. destruct (forallb _ ((k0, ref) :: kl')); reflexivity.
Qed.
Print Assumptions tie_threshold_constraints.

(** * reduce_chain_links: the first link of every step, in the order of the steps *)
Lemma pv_set_fresh : forall k v (acc : links),
  ~ In k (keys acc) ->
  pv_set (VStr k) v (map (fun nl => (VStr (fst nl), link_pv (snd nl))) acc) =
  map (fun nl => (VStr (fst nl), link_pv (snd nl))) acc ++ [(VStr k, v)].
Proof.
  intros k v. induction acc as [|[k' lk] acc IH]; intro Hn; [reflexivity|].
  cbn [map fst snd pv_set pv_eqb]. destruct (eqs k k') eqn:E.
  - exfalso. apply Hn. left. symmetry. apply (proj1 (eqs_eq k k')). exact E.
  - rewrite IH; [reflexivity|]. intro Hin. apply Hn. right. exact Hin.
Qed.

Lemma reduce_loop : forall (body : pyval -> pyval -> pyval -> res pyval),
  (forall k v st, body k v st =
     (do v_reduced <- (do t3 <- (do t2 <- (do t1 <- py_values v; py_list t1); py_index t2 (VInt 0%Z)); py_setitem st k t3);
      Ok v_reduced)) ->
  forall chain acc, NoDup (keys acc ++ keys chain) ->
    py_fold_items (map (fun skl => (VStr (fst skl), kl_pv (snd skl))) chain) (links_pv acc) body =
    res_map2 links_pv (do r <- reduce_chain_links chain; Ok (acc ++ r)).
Proof.
  intros body Hb. induction chain as [|[n kl] chain IH]; intros acc Hnd.
  - cbn. rewrite app_nil_r. reflexivity.
  - cbn [map py_fold_items fst snd]. rewrite Hb. unfold reduce_chain_links. cbn [mapM fst snd].
    destruct kl as [|[k0 lk] kl'].
    + reflexivity.
    + unfold kl_pv at 1. cbn [map fst snd py_values bind py_list py_iter py_index as_int].
      change (norm_index 0 (length (link_pv lk :: map snd (map (fun kv : str * link => (VStr (fst kv), link_pv (snd kv))) kl'))))
        with (norm_index 0 (S (length (map snd (map (fun kv : str * link => (VStr (fst kv), link_pv (snd kv))) kl'))))).
      cbn [norm_index Z.leb Z.ltb Z.compare Z.of_nat znat nth_error bind].
      unfold py_setitem, links_pv at 1. rewrite pv_set_fresh.
      2:{ intro Hin. cbn [keys map fst] in Hnd. apply NoDup_remove_2 in Hnd. apply Hnd. apply in_or_app. left. exact Hin. }
      cbn [bind].
      replace (VDict (map (fun nl : str * link => (VStr (fst nl), link_pv (snd nl))) acc ++ [(VStr n, link_pv lk)]))
        with (links_pv (acc ++ [(n, lk)])) by (unfold links_pv; rewrite map_app; reflexivity).
      rewrite IH.
      * fold (reduce_chain_links chain). destruct (reduce_chain_links chain) as [r|e]; [|reflexivity].
        cbn [bind res_map2]. rewrite <- app_assoc. reflexivity.
      * unfold keys in *. rewrite map_app, <- app_assoc. cbn [map fst app] in *. exact Hnd.
Qed.

Theorem tie_reduce_chain_links : forall chain,
  NoDup (keys chain) ->
  f_reduce_chain_links (chain_pv chain) = res_map2 links_pv (reduce_chain_links chain).
Proof.
  intros chain Hnd. unfold f_reduce_chain_links, chain_pv, py_for_items.
  change (VDict []) with (links_pv []).
  rewrite (reduce_loop _ (fun k v st => eq_refl) chain [] Hnd).
  destruct (reduce_chain_links chain) as [r|e]; reflexivity.
Qed.
Print Assumptions tie_reduce_chain_links.

(** * The C05 statements carried over to the regenerated source *)
From InToto.Proofs Require Import ThresholdSpec VerifyAgreement.

(** `verify_threshold_constraints` AS WRITTEN returns normally only if every step with a threshold above one has at
    least `threshold` links and ALL of them agree with the first one in materials and products *)
Theorem source_threshold_constraints_agreement : forall (l : layout) chain,
  chain_ok chain ->
  f_verify_threshold_constraints (layout_pv l) (chain_pv chain) = Ok VNone ->
  forall s, In s (ly_steps l) -> (1 < st_threshold s)%Z ->
    exists kl k0 ref rest, lookup (st_name s) chain = Some kl /\ kl = (k0, ref) :: rest /\
      (st_threshold s <= Z.of_nat (length kl))%Z /\ forall k lk, In (k, lk) kl -> agrees ref lk = true.
Proof.
  intros l chain Hok H. rewrite (tie_threshold_constraints l chain Hok) in H.
  destruct (verify_threshold_constraints l chain) as [[]|e] eqn:E; [|discriminate].
  exact (agreement l chain E).
Qed.

(** ... and raises ThresholdVerificationError as soon as one link of such a step disagrees with the first *)
Theorem source_threshold_constraints_dissent : forall (l : layout) chain,
  chain_ok chain ->
  (forall s, In s (ly_steps l) -> lookup (st_name s) chain <> None) ->
  forall s k0 ref rest k lk, In s (ly_steps l) -> (1 < st_threshold s)%Z ->
    lookup (st_name s) chain = Some ((k0, ref) :: rest) -> In (k, lk) ((k0, ref) :: rest) ->
    agrees ref lk = false ->
    f_verify_threshold_constraints (layout_pv l) (chain_pv chain) = Err EThreshold.
Proof.
  intros l chain Hok Hall s k0 ref rest k lk Hs Ht Hl Hin Hd.
  rewrite (tie_threshold_constraints l chain Hok), (dissent_rejects l chain Hall s k0 ref rest k lk Hs Ht Hl Hin Hd).
  reflexivity.
Qed.
Print Assumptions source_threshold_constraints_agreement.
Print Assumptions source_threshold_constraints_dissent.
