(** Tie/C16.v — parameter substitution as /repo/in_toto/verifylib.py writes it now.
    Gen/Fun16.v holds substitute_parameters regenerated from the source by tools/pytrans2.py --substitute on every run,
    as a FUNCTION of the layout's steps, inspections and the parameter dictionary: the three values each loop assigns
    to the attributes of a step / inspection are returned (the attribute names are emitted as constants and checked
    here).  str.format with the parameter dictionary and `_check_parameter_dict` are oracles.  For all oracles that answer as the
    model's [subst_elem] / [check_params] do, on layouts whose rules are lists (Layout validation), the function as
    written computes the model's [substitute_parameters]: the parameter dictionary is checked first; every element of
    every rule of both rule lists, of every expected command and of every run field of every step and inspection is
    passed through format exactly once, in that order; the first failure decides the error; nothing else changes. *)
From InToto.Model Require Import Base Json Strs PyLib Glob PyLibGlob Rule Rules Subst Meta Verify.
From InToto.Gen Require Import Fun16.

Definition s_em : str := [101;120;112;101;99;116;101;100;95;109;97;116;101;114;105;97;108;115]%N.
Definition s_ep : str := [101;120;112;101;99;116;101;100;95;112;114;111;100;117;99;116;115]%N.
Definition s_cmd : str := [101;120;112;101;99;116;101;100;95;99;111;109;109;97;110;100]%N.
Definition s_run : str := [114;117;110]%N.

(** the loops assign exactly the three substituted attributes (order of the assignments = order of the returned triple) *)
Lemma assigned_attributes : c_step_attrs = [s_cmd; s_em; s_ep] /\ c_inspection_attrs = [s_run; s_em; s_ep].
Proof. split; reflexivity. Qed.

Definition jl (l : list json) : pyval := VList (map inj l).
Definition step_in (s : step) : pyval :=
  VDict [(VStr s_em, jl (st_em s)); (VStr s_ep, jl (st_ep s)); (VStr s_cmd, jl (st_cmd s))].
Definition insp_in (i : insp) : pyval :=
  VDict [(VStr s_em, jl (in_em i)); (VStr s_ep, jl (in_ep i)); (VStr s_run, jl (in_run i))].
Definition step_out (s : step) : pyval := VList [jl (st_cmd s); jl (st_em s); jl (st_ep s)].
Definition insp_out (i : insp) : pyval := VList [jl (in_run i); jl (in_em i); jl (in_ep i)].

Definition is_list (j : json) : Prop := exists l, j = JList l.
Definition layout_rules_are_lists (l : layout) : Prop :=
  (forall s, In s (ly_steps l) -> Forall is_list (st_em s) /\ Forall is_list (st_ep s)) /\
  (forall i, In i (ly_inspect l) -> Forall is_list (in_em i) /\ Forall is_list (in_ep i)).

(** a loop that appends one rendered result per element is mapM *)
Lemma fold_append_mapM : forall {A B : Type} (E : A -> pyval) (T : B -> pyval) (F : pyval -> pyval -> res pyval)
                                (f : A -> res B) (P : A -> Prop),
  (forall x acc, P x -> F (E x) (VList acc) = match f x with Ok r => Ok (VList (acc ++ [T r])) | Err e => Err e end) ->
  forall l acc, Forall P l ->
    py_fold (map E l) (VList acc) F = match mapM f l with Ok rs => Ok (VList (acc ++ map T rs)) | Err e => Err e end.
Proof.
  intros A B E T F f P H. induction l as [|x l IH]; intros acc HP.
  - cbn [map py_fold mapM]. rewrite app_nil_r. reflexivity.
  - inversion HP as [|? ? Px Pl]; subst. cbn [map py_fold mapM]. rewrite (H x acc Px).
    destruct (f x) as [r|e]; cbn [bind]; [|reflexivity]. rewrite (IH _ Pl).
    destruct (mapM f l) as [rs|e]; cbn [bind map]; [|reflexivity]. rewrite <- app_assoc. reflexivity.
Qed.

Lemma Forall_True : forall {A} (l : list A), Forall (fun _ => True) l.
Proof. induction l; constructor; [exact I | assumption]. Qed.

Section C16.
  Variable o_fmt : pyval -> pyval -> res pyval.
  Variable o_chk : pyval -> res pyval.
  Variable params : json.
  Variable ps : list (str * str).
  Hypothesis H_ps : check_params params = Ok ps.
  Hypothesis H_fmt : forall j, o_fmt (inj j) (inj params) = match subst_elem ps j with Ok r => Ok (inj r) | Err e => Err e end.

  (** one list of strings (a rule, an expected command, a run field) *)
  Lemma elems : forall l acc,
    py_fold (map inj l) (VList acc)
      (fun v_x v_new => do v_new' <- (do t <- o_fmt v_x (inj params); py_append v_new t); Ok v_new')
    = match mapM (subst_elem ps) l with Ok rs => Ok (VList (acc ++ map inj rs)) | Err e => Err e end.
  Proof.
    intros l acc. apply (fold_append_mapM inj inj _ (subst_elem ps) (fun _ => True)); [|apply Forall_True].
    intros x a _. rewrite H_fmt. destruct (subst_elem ps x); reflexivity.
  Qed.

  (** one list of rules *)
  Lemma rules : forall l acc, Forall is_list l ->
    py_fold (map inj l) (VList acc)
      (fun v_rule v_new_rules =>
         do v_new_rule <- py_for v_rule (VList [])
            (fun v_stanza v_new_rule => do v_new_rule' <- (do t <- o_fmt v_stanza (inj params); py_append v_new_rule t); Ok v_new_rule');
         do v_new_rules' <- py_append v_new_rules v_new_rule; Ok v_new_rules')
    = match mapM (subst_list ps) l with Ok rs => Ok (VList (acc ++ map inj rs)) | Err e => Err e end.
  Proof.
    intros l acc HL. apply (fold_append_mapM inj inj _ (subst_list ps) is_list); [|exact HL].
    intros x a [es ->]. cbn [inj subst_list]. unfold py_for. cbn [py_iter bind]. rewrite (elems es []).
    destruct (mapM (subst_elem ps) es) as [rs|e]; cbn [bind app inj]; reflexivity.
  Qed.

  Definition triple (a b c : list json) : pyval := VList [jl a; jl b; jl c].

  (** what both loop bodies do with one element: two rule lists and one plain list, then the triple is appended *)
  Lemma element : forall (em ep xs : list json) (obj : pyval) (k_em k_ep k_xs : str) acc,
    Forall is_list em -> Forall is_list ep ->
    py_getattr obj (VStr k_em) = Ok (jl em) -> py_getattr obj (VStr k_ep) = Ok (jl ep) -> py_getattr obj (VStr k_xs) = Ok (jl xs) ->
    (do t6 <- py_getattr obj (VStr k_em);
     do v_new_material_rules <- py_for t6 (VList [])
        (fun v_rule v_new_rules =>
           do v_new_rule <- py_for v_rule (VList [])
              (fun v_stanza v_new_rule => do v_new_rule' <- (do t <- o_fmt v_stanza (inj params); py_append v_new_rule t); Ok v_new_rule');
           do v_new_rules' <- py_append v_new_rules v_new_rule; Ok v_new_rules');
     do t5 <- py_getattr obj (VStr k_ep);
     do v_new_product_rules <- py_for t5 (VList [])
        (fun v_rule v_new_rules =>
           do v_new_rule <- py_for v_rule (VList [])
              (fun v_stanza v_new_rule => do v_new_rule' <- (do t <- o_fmt v_stanza (inj params); py_append v_new_rule t); Ok v_new_rule');
           do v_new_rules' <- py_append v_new_rules v_new_rule; Ok v_new_rules');
     do t4 <- py_getattr obj (VStr k_xs);
     do v_new_xs <- py_for t4 (VList [])
        (fun v_argv v_new_xs => do v_new_xs' <- (do t3 <- o_fmt v_argv (inj params); py_append v_new_xs t3); Ok v_new_xs');
     do v_out <- py_append (VList acc) (VList [v_new_xs; v_new_material_rules; v_new_product_rules]); Ok v_out)
    = match (do em' <- mapM (subst_list ps) em; do ep' <- mapM (subst_list ps) ep; do xs' <- mapM (subst_elem ps) xs; Ok (em', ep', xs')) with
      | Ok (em', ep', xs') => Ok (VList (acc ++ [triple xs' em' ep']))
      | Err e => Err e
      end.
  Proof.
    intros em ep xs obj k_em k_ep k_xs acc Hem Hep G1 G2 G3. rewrite G1, G2, G3. cbn [bind]. unfold jl at 1, py_for at 1. cbn [py_iter bind].
    rewrite (rules em [] Hem). destruct (mapM (subst_list ps) em) as [em'|e]; cbn [bind app]; [|reflexivity].
    unfold jl at 1, py_for at 1. cbn [py_iter bind]. rewrite (rules ep [] Hep).
    destruct (mapM (subst_list ps) ep) as [ep'|e]; cbn [bind app]; [|reflexivity].
    unfold jl at 1, py_for at 1. cbn [py_iter bind]. rewrite (elems xs []).
    destruct (mapM (subst_elem ps) xs) as [xs'|e]; cbn [bind app]; reflexivity.
  Qed.
End C16.

Theorem tie_substitute_parameters : forall o_fmt o_chk l params,
  (forall p, o_chk (inj p) = match check_params p with Ok _ => Ok VNone | Err e => Err e end) ->
  (forall ps, check_params params = Ok ps ->
              forall j, o_fmt (inj j) (inj params) = match subst_elem ps j with Ok r => Ok (inj r) | Err e => Err e end) ->
  layout_rules_are_lists l ->
  f_substitute_parameters o_fmt o_chk (VList (map step_in (ly_steps l))) (VList (map insp_in (ly_inspect l))) (inj params)
  = match substitute_parameters l params with
    | Ok l' => Ok (VList [VList (map step_out (ly_steps l')); VList (map insp_out (ly_inspect l'))])
    | Err e => Err e
    end.
Proof.
  intros o_fmt o_chk l params Hchk Hfmt [HS HI]. unfold f_substitute_parameters, substitute_parameters. rewrite Hchk.
  destruct (check_params params) as [ps|e] eqn:C; cbn [bind]; [|reflexivity].
  specialize (Hfmt ps eq_refl).
  unfold py_for at 1. cbn [py_iter bind].
  match goal with |- context [py_fold (map step_in (ly_steps l)) (VList []) ?b] => set (sbody := b) end.
  rewrite (fold_append_mapM step_in step_out sbody (subst_step ps) (fun s => In s (ly_steps l))).
  - destruct (mapM (subst_step ps) (ly_steps l)) as [steps'|e]; cbn [bind app]; [|reflexivity].
    unfold py_for at 1. cbn [py_iter bind].
    match goal with |- context [py_fold (map insp_in (ly_inspect l)) (VList []) ?b] => set (ibody := b) end.
    rewrite (fold_append_mapM insp_in insp_out ibody (subst_insp ps) (fun i => In i (ly_inspect l))).
    + destruct (mapM (subst_insp ps) (ly_inspect l)) as [insp'|e]; cbn [bind app]; reflexivity.
    + intros i acc Hi. unfold ibody. cbv zeta. destruct (HI i Hi) as [Hem Hep].
      refine (eq_trans (element o_fmt params ps Hfmt (in_em i) (in_ep i) (in_run i) (insp_in i) s_em s_ep s_run acc Hem Hep eq_refl eq_refl eq_refl) _).
      unfold subst_insp. destruct (mapM (subst_list ps) (in_em i)) as [em'|e]; cbn [bind]; [|reflexivity].
      destruct (mapM (subst_list ps) (in_ep i)) as [ep'|e]; cbn [bind]; [|reflexivity].
      destruct (mapM (subst_elem ps) (in_run i)) as [run'|e]; cbn [bind]; reflexivity.
    + apply Forall_forall. intros i Hi. exact Hi.
  - intros s acc Hs. unfold sbody. cbv zeta. destruct (HS s Hs) as [Hem Hep].
    refine (eq_trans (element o_fmt params ps Hfmt (st_em s) (st_ep s) (st_cmd s) (step_in s) s_em s_ep s_cmd acc Hem Hep eq_refl eq_refl eq_refl) _).
    unfold subst_step. destruct (mapM (subst_list ps) (st_em s)) as [em'|e]; cbn [bind]; [|reflexivity].
    destruct (mapM (subst_list ps) (st_ep s)) as [ep'|e]; cbn [bind]; [|reflexivity].
    destruct (mapM (subst_elem ps) (st_cmd s)) as [cmd'|e]; cbn [bind]; reflexivity.
  - apply Forall_forall. intros s Hs. exact Hs.
Qed.

(** hence the statements of Props/C16.v about the model's [substitute_parameters] are statements about the function as
    written: it fails exactly when the model does, with the same error class, and otherwise assigns exactly the model's
    substituted lists *)
Corollary source_substitute_err : forall o_fmt o_chk l params e,
  (forall p, o_chk (inj p) = match check_params p with Ok _ => Ok VNone | Err e => Err e end) ->
  (forall ps, check_params params = Ok ps ->
              forall j, o_fmt (inj j) (inj params) = match subst_elem ps j with Ok r => Ok (inj r) | Err e => Err e end) ->
  layout_rules_are_lists l ->
  (f_substitute_parameters o_fmt o_chk (VList (map step_in (ly_steps l))) (VList (map insp_in (ly_inspect l))) (inj params) = Err e
   <-> substitute_parameters l params = Err e).
Proof.
  intros o_fmt o_chk l params e H1 H2 H3. rewrite (tie_substitute_parameters o_fmt o_chk l params H1 H2 H3).
  destruct (substitute_parameters l params) as [l'|e']; split; intro H; try discriminate; injection H as ->; reflexivity.
Qed.

Corollary source_substitute_ok : forall o_fmt o_chk l params v,
  (forall p, o_chk (inj p) = match check_params p with Ok _ => Ok VNone | Err e => Err e end) ->
  (forall ps, check_params params = Ok ps ->
              forall j, o_fmt (inj j) (inj params) = match subst_elem ps j with Ok r => Ok (inj r) | Err e => Err e end) ->
  layout_rules_are_lists l ->
  f_substitute_parameters o_fmt o_chk (VList (map step_in (ly_steps l))) (VList (map insp_in (ly_inspect l))) (inj params) = Ok v ->
  exists l', substitute_parameters l params = Ok l' /\
             v = VList [VList (map step_out (ly_steps l')); VList (map insp_out (ly_inspect l'))].
Proof.
  intros o_fmt o_chk l params v H1 H2 H3 H. rewrite (tie_substitute_parameters o_fmt o_chk l params H1 H2 H3) in H.
  destruct (substitute_parameters l params) as [l'|e']; [|discriminate]. injection H as <-. exists l'. split; reflexivity.
Qed.

(** the hypothesis on the layout is met by a layout with rules, a command and an inspection *)
Example rules_are_lists_example :
  layout_rules_are_lists
    (mkLayout [mkStep [97]%N [JList [JStr [65]%N; JStr [123;120;125]%N]] [] [] [JStr [99]%N] (JInt 1)]
              [mkInsp [105]%N [] [JList [JStr [68]%N; JStr [42]%N]] [JStr [115;104]%N]] [] [] 0%Z []).
Proof.
  split; intros x [<-|[]]; cbn; split; repeat constructor; eexists; reflexivity.
Qed.

Print Assumptions tie_substitute_parameters.
Print Assumptions source_substitute_err.
Print Assumptions source_substitute_ok.
Print Assumptions assigned_attributes.
