(** Tie/C20.v — the text DirectoryResolver._hash feeds to SHA-256, regenerated from
    /repo/in_toto/resolver/_resolver.py (Gen/Fun20.v, by tools/pytrans2.py --dirtext; the hashing tail
    `digest(_HASH_ALGORITHM); update(text_repr.encode("utf-8")); hexdigest()` is checked for its shape), is the model's
    [dir_text] (Model/DirDigest.v), the documented sha256sum-line construction of the C20 theorems. *)
From Coq Require Import Lia.
From InToto.Model Require Import Base Json PyLib Glob PyLibGlob Utf8 DirDigest.
From InToto.Proofs Require Import PyLibFacts2 PyLibFacts3.
From InToto.Gen Require Import Fun20.

Definition s_sha256 : str := [115;104;97;50;53;54]%N.
Definition file_hashes_pv (files : list (str * str)) : pyval :=
  VDict (map (fun f => (VStr (fst f), VDict [(VStr s_sha256, VStr (snd f))])) files).

Lemma as_strs_map : forall l, as_strs (map VStr l) = Some l.
Proof. induction l as [|x l IH]; [reflexivity|]. cbn [map as_strs]. rewrite IH. reflexivity. Qed.

(** sorting the paths = the paths of the sorted pairs *)
Lemma insert_fst : forall x l, map fst (insert_by x l) = insert_str (fst x) (map fst l).
Proof.
  intros x. induction l as [|y l IH]; [reflexivity|]. cbn [insert_by map insert_str].
  destruct (lex_leb (fst x) (fst y)); cbn [map]; [reflexivity | rewrite IH; reflexivity].
Qed.
Lemma sort_fst : forall files, map fst (sort_files files) = sort_strs (map fst files).
Proof.
  induction files as [|f files IH]; [reflexivity|]. cbn [sort_files map sort_strs]. rewrite insert_fst, IH. reflexivity.
Qed.

Lemma insert_In : forall x y l, In y (insert_by x l) <-> y = x \/ In y l.
Proof.
  intros x y. induction l as [|z l IH]; cbn [insert_by In]; [intuition congruence|].
  destruct (lex_leb (fst x) (fst z)); cbn [In]; [intuition congruence | rewrite IH; intuition congruence].
Qed.
Lemma sort_In : forall y files, In y (sort_files files) <-> In y files.
Proof.
  intros y. induction files as [|f files IH]; cbn [sort_files In]; [tauto|]. rewrite insert_In, IH. intuition congruence.
Qed.

Lemma lookup_nodup : forall (files : list (str * str)) k h, NoDup (map fst files) -> In (k, h) files -> lookup k files = Some h.
Proof.
  induction files as [|[k' h'] files IH]; intros k h Hnd Hin; [destruct Hin|].
  cbn [map fst] in Hnd. inversion Hnd as [|? ? Hn Hnd']; subst.
  cbn [lookup]. destruct Hin as [E|Hin].
  - inversion E; subst. rewrite eqs_refl. reflexivity.
  - destruct (eqs k k') eqn:Ek.
    + apply eqs_eq in Ek. subst k'. exfalso. apply Hn. change k with (fst (k, h)). apply in_map. exact Hin.
    + apply IH; assumption.
Qed.

Lemma pv_assoc_files : forall k (files : list (str * str)),
  pv_assoc pv_eqb (VStr k) (map (fun f => (VStr (fst f), VDict [(VStr s_sha256, VStr (snd f))])) files) =
  option_map (fun h => VDict [(VStr s_sha256, VStr h)]) (lookup k files).
Proof. induction files as [|[k' h'] files IH]; cbn; [reflexivity|]. destruct (eqs k k'); [reflexivity | exact IH]. Qed.

Definition core (f : str * str) : str := snd f ++ [32; 32]%N ++ fst f.

(** a list comprehension whose condition is always true and whose element is given pointwise *)
Lemma comp_go_map : forall {A : Type} (E g : A -> pyval) (cond elt : pyval -> res pyval) (l : list A),
  (forall x, In x l -> cond (E x) = Ok (VBool true) /\ elt (E x) = Ok (g x)) ->
  comp_go (map E l) cond elt = Ok (map g l).
Proof.
  intros A E g cond elt. induction l as [|x l IH]; intro H; [reflexivity|].
  cbn [map comp_go]. destruct (H x (or_introl eq_refl)) as [Hc He]. rewrite Hc. cbn [bind truthy]. rewrite He. cbn [bind].
  rewrite IH by (intros y Hy; apply H; right; exact Hy). reflexivity.
Qed.

Lemma join_lines : forall l, l <> [] ->
  join_strs [10%N] l ++ [10%N] = flat_map (fun x => x ++ [10%N]) l.
Proof.
  induction l as [|x l IH]; intro Hne; [contradiction|].
  destruct l as [|y l]; [cbn; rewrite app_nil_r; reflexivity|].
  change (join_strs [10%N] (x :: y :: l)) with (x ++ [10%N] ++ join_strs [10%N] (y :: l)).
  change (flat_map (fun x0 : list N => x0 ++ [10%N]) (x :: y :: l)) with
         ((x ++ [10%N]) ++ flat_map (fun x0 : list N => x0 ++ [10%N]) (y :: l)).
  rewrite <- IH by discriminate. rewrite <- !app_assoc. reflexivity.
Qed.

Theorem tie_dir_text : forall files : list (str * str),
  NoDup (map fst files) ->
  f_dir_text (file_hashes_pv files) = Ok (VStr (dir_text files)).
Proof.
  intros files Hnd. unfold f_dir_text.
  assert (py_keys (file_hashes_pv files) = Ok (VSet (map VStr (map fst files)))) as ->
    by (unfold py_keys, file_hashes_pv; rewrite !map_map; reflexivity).
  cbn [bind py_list py_iter].
  destruct files as [|f0 files'] eqn:Ef; [reflexivity|]. rewrite <- Ef in *.
  assert (truthy (VList (map VStr (map fst files))) = true) as -> by (rewrite Ef; reflexivity).
  unfold py_sort. rewrite as_strs_map. cbn [bind].
  rewrite <- sort_fst. unfold py_listcomp. cbn [py_iter bind].
  change (VStr [115; 104; 97; 50; 53; 54]%N) with (VStr s_sha256).
  rewrite map_map.
  rewrite (comp_go_map (fun f : str * str => VStr (fst f)) (fun f => VStr (core f))).
  2:{ intros [k h] Hin. split; [reflexivity|]. cbn [fst].
      assert (Hl : lookup k files = Some h) by (apply lookup_nodup; [exact Hnd | apply sort_In; exact Hin]).
      unfold py_index at 1, file_hashes_pv. rewrite pv_assoc_files, Hl. cbn [option_map bind].
      assert (py_index (VDict [(VStr s_sha256, VStr h)]) (VStr s_sha256) = Ok (VStr h)) as -> by reflexivity.
      cbn [bind py_fstring]. unfold core. cbn [fst snd]. rewrite app_nil_r. reflexivity. }
  rewrite <- (map_map core VStr).
  cbn [bind]. unfold py_join. rewrite as_strs_map. cbn [bind py_add].
  unfold dir_text, lines_text.
  rewrite join_lines.
  - f_equal. f_equal. rewrite flat_map_concat_map, map_map, <- flat_map_concat_map.
    apply flat_map_ext. intros [k h]. unfold core, line. cbn [fst snd]. rewrite <- !app_assoc. reflexivity.
  - intro Hn. apply map_eq_nil in Hn. assert (In f0 (sort_files files)) by (apply sort_In; rewrite Ef; left; reflexivity).
    rewrite Hn in H. destruct H.
Qed.
Print Assumptions tie_dir_text.

(** the digest the source computes (SHA-256 of the UTF-8 bytes of that text) is the model's [dir_digest], for which
    C20_construction / C20_order_free / C20_sensitive are proved *)
Theorem source_dir_digest : forall (H : list N -> str) (files : list (str * str)) t,
  NoDup (map fst files) ->
  f_dir_text (file_hashes_pv files) = Ok (VStr t) ->
  H (utf8 t) = dir_digest H files.
Proof.
  intros H files t Hnd Ht. rewrite (tie_dir_text files Hnd) in Ht. inversion Ht; subst. reflexivity.
Qed.
Print Assumptions source_dir_digest.
