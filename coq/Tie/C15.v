(** Tie/C15.v — the computable checkers of Model/Skel.v evaluated (vm_compute, in the kernel) on
    the skeletons regenerated from /repo by tools/pytrans.py on THIS run (Gen/Skel.v), and the
    C15 theorems instantiated with them.  Recompiled on every check run. *)
From Coq Require Import String Ascii.
From InToto.Model Require Import Base Skel.
From InToto.Proofs Require Import SkelSound SkelEffects.
From InToto.Props Require Import C15.
From InToto.Gen Require Import Skel.

Definition s (x : string) : str := map (fun a => N_of_ascii a) (list_ascii_of_string x).

(** * names pinned from the source text *)
Definition L_base := s "self._base_path".
Definition N_getcwd := s "original_cwd = os.getcwd()".
Definition N_chdir_base := s "os.chdir(self._base_path)".
Definition N_chdir_back := s "os.chdir(original_cwd)".
Definition N_backup := s "base_path_backup = in_toto.settings.ARTIFACT_BASE_PATH".
Definition N_clear := s "in_toto.settings.ARTIFACT_BASE_PATH = None".
Definition N_putback := s "in_toto.settings.ARTIFACT_BASE_PATH = base_path_backup".
Definition N_mk_out := s "(stdout_fd, stdout_name) = tempfile.mkstemp()".
Definition N_mk_err := s "(stderr_fd, stderr_name) = tempfile.mkstemp()".
Definition N_rm_out := s "os.remove(stdout_name)".
Definition N_rm_err := s "os.remove(stderr_name)".
Definition N_close_out := s "os.close(stdout_fd)".

(** primitive operations on the three observed pieces of process state *)
Definition eff_cwd := mentions [s "os.chdir"; s "os.fchdir"].
Definition eff_setting (n : str) : bool := prefix_of (s "in_toto.settings.") n || mentions [s "setattr"] n.
Definition eff_tmp := mentions [s "tempfile."; s "mkstemp"; s "mkdtemp"; s "TemporaryFile"].
Definition eff_any (n : str) : bool := eff_cwd n || eff_setting n || eff_tmp n.

(** * working directory *)
Theorem tie_C15_cwd_FileResolver :
  bracketed [L_base] skel_FileResolver_hash_artifacts N_getcwd N_chdir_base N_chdir_back = true.
Proof. vm_compute. reflexivity. Qed.

Theorem tie_C15_cwd_OSTreeResolver :
  bracketed [L_base] skel_OSTreeResolver_hash_artifacts N_getcwd N_chdir_base N_chdir_back = true.
Proof. vm_compute. reflexivity. Qed.

(** (since the repair of D11a the directory resolver enters the base path itself, with the same bracket) *)
Theorem tie_C15_cwd_DirectoryResolver :
  bracketed [L_base] skel_DirectoryResolver_hash_artifacts N_getcwd N_chdir_base N_chdir_back = true.
Proof. vm_compute. reflexivity. Qed.

(** the skeletons really contain the bracket (the checker is not vacuously true) *)
Theorem tie_C15_cwd_present :
  forallb (fun sk => has_call sk N_getcwd && has_call sk N_chdir_base && has_call sk N_chdir_back
                     && has_stable_label sk L_base)
          [skel_FileResolver_hash_artifacts; skel_OSTreeResolver_hash_artifacts; skel_DirectoryResolver_hash_artifacts] = true.
Proof. vm_compute. reflexivity. Qed.

(** no other function of the recording / verification path changes directory itself *)
Theorem tie_C15_cwd_callers :
  forallb (no_effect_calls eff_cwd)
    [skel_record_artifacts_as_dict;
     skel_subprocess_run_duplicate_streams; skel_execute_link; skel_in_toto_run; skel_in_toto_mock;
     skel_in_toto_record_start; skel_in_toto_record_stop; skel_in_toto_match_products;
     skel_run_all_inspections; skel_in_toto_verify] = true.
Proof. vm_compute. reflexivity. Qed.

(** C15_cwd for today's code: on every path out of hash_artifacts the directory is the one on entry *)
Theorem C15_cwd_FileResolver_today : forall (D : Type) rho t o,
  exec rho skel_FileResolver_hash_artifacts t o ->
  no_excuse [] (Some N_getcwd) N_chdir_base N_chdir_back t ->
  forall base cwd0 saved0 : D,
    fst (bapply (Some N_getcwd) N_chdir_base N_chdir_back D base t (cwd0, saved0)) = cwd0.
Proof. intros D rho t o. exact (C15_cwd D _ _ _ _ _ tie_C15_cwd_FileResolver rho t o). Qed.

Theorem C15_cwd_OSTreeResolver_today : forall (D : Type) rho t o,
  exec rho skel_OSTreeResolver_hash_artifacts t o ->
  no_excuse [] (Some N_getcwd) N_chdir_base N_chdir_back t ->
  forall base cwd0 saved0 : D,
    fst (bapply (Some N_getcwd) N_chdir_base N_chdir_back D base t (cwd0, saved0)) = cwd0.
Proof. intros D rho t o. exact (C15_cwd D _ _ _ _ _ tie_C15_cwd_OSTreeResolver rho t o). Qed.

Theorem C15_cwd_DirectoryResolver_today : forall (D : Type) rho t o,
  exec rho skel_DirectoryResolver_hash_artifacts t o ->
  no_excuse [] (Some N_getcwd) N_chdir_base N_chdir_back t ->
  forall base cwd0 saved0 : D,
    fst (bapply (Some N_getcwd) N_chdir_base N_chdir_back D base t (cwd0, saved0)) = cwd0.
Proof. intros D rho t o. exact (C15_cwd D _ _ _ _ _ tie_C15_cwd_DirectoryResolver rho t o). Qed.

(** * the ARTIFACT_BASE_PATH setting *)
Theorem tie_C15_setting_run_all_inspections :
  bracketed [] skel_run_all_inspections N_backup N_clear N_putback = true
  /\ has_call skel_run_all_inspections N_clear = true.
Proof. vm_compute. split; reflexivity. Qed.

(** nobody else writes a setting *)
Theorem tie_C15_setting_callers :
  forallb (no_effect_calls eff_setting)
    [skel_FileResolver_hash_artifacts; skel_OSTreeResolver_hash_artifacts;
     skel_DirectoryResolver_hash_artifacts; skel_record_artifacts_as_dict;
     skel_subprocess_run_duplicate_streams; skel_execute_link; skel_in_toto_run; skel_in_toto_mock;
     skel_in_toto_record_start; skel_in_toto_record_stop; skel_in_toto_match_products;
     skel_in_toto_verify] = true.
Proof. vm_compute. reflexivity. Qed.

Theorem C15_setting_run_all_inspections_today : forall rho t o,
  exec rho skel_run_all_inspections t o ->
  no_excuse [] (Some N_backup) N_clear N_putback t ->
  forall v0 saved0 : option str,
    fst (bapply (Some N_backup) N_clear N_putback (option str) None t (v0, saved0)) = v0.
Proof.
  intros rho t o. exact (C15_setting _ _ _ _ _ (proj1 tie_C15_setting_run_all_inspections) rho t o).
Qed.

(** * temporary capture files *)
Theorem tie_C15_tmp_stdout :
  bracketed_res [] [N_close_out] skel_subprocess_run_duplicate_streams N_mk_out N_rm_out = true
  /\ bracketed_res [] [N_close_out] skel_execute_link N_mk_out N_rm_out = true.
Proof. vm_compute. split; reflexivity. Qed.

Theorem tie_C15_tmp_stderr :
  bracketed_res [] [] skel_subprocess_run_duplicate_streams N_mk_err N_rm_err = true
  /\ bracketed_res [] [] skel_execute_link N_mk_err N_rm_err = true.
Proof. vm_compute. split; reflexivity. Qed.

Theorem tie_C15_tmp_present :
  has_call skel_subprocess_run_duplicate_streams N_mk_out && has_call skel_subprocess_run_duplicate_streams N_mk_err
  && has_call skel_subprocess_run_duplicate_streams N_rm_out && has_call skel_subprocess_run_duplicate_streams N_rm_err
  = true.
Proof. vm_compute. reflexivity. Qed.

(** these two are the only temp-file creations, and nobody else creates one *)
Theorem tie_C15_tmp_callers :
  forallb (no_effect_calls eff_tmp)
    [skel_FileResolver_hash_artifacts; skel_OSTreeResolver_hash_artifacts;
     skel_DirectoryResolver_hash_artifacts; skel_record_artifacts_as_dict; skel_in_toto_run;
     skel_in_toto_mock; skel_in_toto_record_start; skel_in_toto_record_stop;
     skel_in_toto_match_products; skel_run_all_inspections; skel_in_toto_verify] = true
  /\ filter eff_tmp (calls skel_subprocess_run_duplicate_streams) = [N_mk_out; N_mk_err].
Proof. vm_compute. split; reflexivity. Qed.

Theorem C15_tmp_stdout_today : forall rho t o,
  exec rho skel_subprocess_run_duplicate_streams t o ->
  no_excuse [N_close_out] None N_mk_out N_rm_out t ->
  fst (bapply None N_mk_out N_rm_out bool true t (false, false)) = false.
Proof. intros rho t o. exact (C15_tmp _ _ _ _ _ (proj1 tie_C15_tmp_stdout) rho t o). Qed.

Theorem C15_tmp_stderr_today : forall rho t o,
  exec rho skel_subprocess_run_duplicate_streams t o ->
  no_excuse [] None N_mk_err N_rm_err t ->
  fst (bapply None N_mk_err N_rm_err bool true t (false, false)) = false.
Proof. intros rho t o. exact (C15_tmp _ _ _ _ _ (proj1 tie_C15_tmp_stderr) rho t o). Qed.

(** * callers: none of the public entry points touches the three pieces of state itself *)
Theorem C15_callers_today : forall (St V : Type) (obs : St -> V) (E : str -> bool -> St -> St -> Prop),
  (forall n, eff_any n = false -> forall ok a b, E n ok a b -> obs b = obs a) ->
  forall sk, In sk [skel_record_artifacts_as_dict; skel_in_toto_run; skel_in_toto_mock;
                    skel_in_toto_record_start; skel_in_toto_record_stop;
                    skel_in_toto_match_products; skel_in_toto_verify] ->
  forall rho t o x y, exec rho sk t o -> steps St E t x y -> obs y = obs x.
Proof.
  intros St V obs E HE sk Hin. apply (C15_callers St V obs E eff_any sk); [|exact HE].
  assert (Hall : forallb (no_effect_calls eff_any)
            [skel_record_artifacts_as_dict; skel_in_toto_run; skel_in_toto_mock;
             skel_in_toto_record_start; skel_in_toto_record_stop;
             skel_in_toto_match_products; skel_in_toto_verify] = true) by (vm_compute; reflexivity).
  rewrite forallb_forall in Hall. apply Hall. assumption.
Qed.

Print Assumptions C15_cwd_FileResolver_today.
Print Assumptions C15_cwd_DirectoryResolver_today.
Print Assumptions C15_setting_run_all_inspections_today.
Print Assumptions C15_tmp_stdout_today.
Print Assumptions C15_callers_today.
