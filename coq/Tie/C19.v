(** Tie/C19.v — the set algebra of in_toto_match_products regenerated from /repo/in_toto/runlib.py
    (Gen/Fun2.v, everything after the recording call, by tools/pytrans2.py) is the model's
    [Match.match_products].  Recompiled against the regenerated source on every run.
    The translator also checks (fail closed) that the recording call is
    record_artifacts_as_dict(paths, exclude_patterns=exclude_patterns, lstrip_paths=lstrip_paths). *)
From InToto.Model Require Import Base Json PyLib Glob PyLibGlob Rule Rules Match.
From InToto.Proofs Require Import PyLibFacts2 MatchProofs.
From InToto.Gen Require Import Fun2.

Lemma dedup_nodup : forall l, NoDup l -> dedup l = l.
Proof.
  induction l as [|x l IH]; intro H; [reflexivity|]. inversion H as [|? ? Hn Hl]; subst.
  cbn [dedup]. destruct (mem_str x l) eqn:E; [apply mem_str_In in E; contradiction|]. rewrite (IH Hl). reflexivity.
Qed.

Lemma nodup_filter : forall (f : str -> bool) l, NoDup l -> NoDup (filter f l).
Proof.
  induction l as [|x l IH]; intro H; [constructor|]. inversion H as [|? ? Hn Hl]; subst. cbn [filter].
  destruct (f x); [constructor; [intro Hin; apply filter_In in Hin; tauto | exact (IH Hl)] | exact (IH Hl)].
Qed.

Lemma py_index_inj_amap : forall (m : amap) k,
  py_index (inj_amap m) (VStr k) = match lookup k m with Some v => Ok (inj v) | None => Err EKeyError end.
Proof.
  intros m k. unfold py_index, inj_amap. rewrite pv_assoc_inj. destruct (lookup k m); reflexivity.
Qed.

Lemma comp_go_differ : forall (P A : amap) l,
  amap_hashrecs P = true -> amap_hashrecs A = true ->
  (forall n, In n l -> In n (keys P) /\ In n (keys A)) ->
  comp_go (map VStr l)
    (fun v_name => py_and (Ok (VBool true))
       (fun _ => do t1 <- py_index (inj_amap P) v_name; do t2 <- py_index (inj_amap A) v_name; py_ne t1 t2))
    (fun v_name => Ok v_name)
  = Ok (map VStr (filter (differs P A) l)).
Proof.
  intros P A l HP HA. induction l as [|n l IH]; intro Hin; [reflexivity|].
  cbn [map comp_go]. unfold py_and at 1. cbn [bind truthy].
  destruct (Hin n (or_introl eq_refl)) as [HnP HnA].
  apply in_keys_lookup in HnP. apply in_keys_lookup in HnA.
  destruct HnP as [x Hx]. destruct HnA as [y Hy].
  assert (differs P A n = negb (py_eqb x y)) as Hd by (unfold differs; rewrite Hx, Hy; reflexivity).
  rewrite (py_index_inj_amap P n), (py_index_inj_amap A n), Hx, Hy. cbn [bind py_ne].
  rewrite (pv_eqb_hashrec x y (lookup_hashrec n P x HP Hx) (lookup_hashrec n A y HA Hy)).
  cbn [filter]. rewrite Hd.
  rewrite IH by (intros m Hm; apply Hin; right; exact Hm).
  destruct (py_eqb x y); reflexivity.
Qed.

Lemma py_sub_vsset' : forall a b, py_sub (vsset a) (vsset b) = Ok (vsset (set_diff a b)).
Proof. intros a b. unfold py_sub, vsset, py_sub_set, py_set_binop, set_diff. cbn [as_set]. rewrite filter_notmem_vstr. reflexivity. Qed.
Lemma py_and_vsset' : forall a b, py_and_set (vsset a) (vsset b) = Ok (vsset (set_inter a b)).
Proof. intros a b. unfold py_and_set, vsset, py_set_binop, set_inter. cbn [as_set]. rewrite filter_mem_vstr. reflexivity. Qed.

(** [only_products, not_in_products, differ] as the source computes them = the model's triple *)
Theorem tie_match_products : forall (P A : amap),
  amap_hashrecs P = true -> amap_hashrecs A = true -> NoDup (keys P) ->
  f_match_products_tail (inj_amap A) (inj_amap P) =
  (let '(o, n, d) := match_products P A in Ok (VList [vsset o; vsset n; vsset d])).
Proof.
  intros P A HP HA HN. unfold f_match_products_tail, match_products.
  rewrite !keys_inj_amap. cbn [bind].
  rewrite !py_sub_vsset'. cbn [bind]. rewrite py_and_vsset'. cbn [bind].
  unfold py_setcomp, vsset at 1. cbn [py_iter bind].
  rewrite (comp_go_differ P A) by first [ assumption
                                        | intros n Hn; apply filter_In in Hn; destruct Hn as [H1 H2];
                                          split; [exact H1 | apply mem_str_In; exact H2] ].
  cbn [bind]. rewrite pv_dedup_vstr.
  rewrite dedup_nodup by (apply nodup_filter; apply nodup_filter; exact HN).
  reflexivity.
Qed.

Print Assumptions tie_match_products.
