(** Tie/C01.v — the layout signature gate as /repo/in_toto/verifylib.py writes it now.
    Gen/Fun01.v holds verify_metadata_signatures regenerated from the source by tools/pytrans2.py --layout-signatures on
    every run, with the two calls it makes outside itself as oracles: metadata.verify_signature(key) and
    in_toto.formats._check_public_keys(keys).  For ANY rendering [R] of metadata objects as Python values and any oracles
    that answer as the model's [verify_signature] / [check_public_keys] do, the function as written computes the model's
    [verify_metadata_signatures]: the key dictionary is checked first, an empty one is refused, and EVERY key of it must
    verify - the first one that does not decides the error. *)
From InToto.Model Require Import Base Json Strs PyLib Glob PyLibGlob Rule Rules Meta Verify.
From InToto.Gen Require Import Fun01.

Definition injkv (kv : str * json) : pyval * pyval := (VStr (fst kv), inj (snd kv)).

Section C01.
  Variable sig_ok : str -> list N -> str -> bool.
  Variable now_s : Z.
  Variable R : metadata -> pyval.
  Variable o_vs : pyval -> pyval -> res pyval.
  Variable o_cpk : pyval -> res pyval.
  Hypothesis H_vs : forall md k, o_vs (R md) (inj k) = match verify_signature sig_ok now_s md k with Ok _ => Ok VNone | Err e => Err e end.
  Hypothesis H_cpk : forall keys, o_cpk (inj keys) = match check_public_keys keys with Ok _ => Ok VNone | Err e => Err e end.

  Lemma every_key : forall md (l : list (str * json)),
    py_fold_items (map injkv l) tt (fun _ v_verify_key _ => do _ <- o_vs (R md) v_verify_key; Ok tt)
    = match mapM (fun kv => verify_signature sig_ok now_s md (snd kv)) l with Ok _ => Ok tt | Err e => Err e end.
  Proof.
    intros md. induction l as [|[k v] l IH]; [reflexivity|].
    cbn [map py_fold_items mapM injkv fst snd]. rewrite H_vs.
    destruct (verify_signature sig_ok now_s md v) as [u|e]; cbn [bind]; [|reflexivity].
    rewrite IH. destruct (mapM (fun kv => verify_signature sig_ok now_s md (snd kv)) l); reflexivity.
  Qed.

  Theorem tie_verify_metadata_signatures : forall md keys,
    f_verify_metadata_signatures o_vs o_cpk (R md) (inj keys)
    = match verify_metadata_signatures sig_ok now_s md keys with Ok _ => Ok VNone | Err e => Err e end.
  Proof.
    intros md keys. unfold f_verify_metadata_signatures, verify_metadata_signatures. rewrite H_cpk.
    destruct (check_public_keys keys) as [ks|e] eqn:C; cbn [bind]; [|reflexivity].
    assert (keys = JDict ks) as ->.
    { unfold check_public_keys in C. destruct keys; try discriminate.
      match type of C with (do _ <- ?m; _) = _ => destruct m end; [|discriminate]. cbn [bind] in C. injection C as <-. reflexivity. }
    change (inj (JDict ks)) with (VDict (map injkv ks)). unfold py_len. cbn [bind]. rewrite map_length.
    unfold py_lt, py_cmp. cbn [as_int bind vb].
    destruct ks as [|kv ks]; [reflexivity|].
    assert ((Z.of_nat (length (kv :: ks)) <? 1)%Z = false) as -> by (apply Z.ltb_ge; cbn [length]; lia).
    cbn [truthy]. unfold py_for_items. rewrite every_key.
    destruct (mapM (fun kv0 => verify_signature sig_ok now_s md (snd kv0)) (kv :: ks)); reflexivity.
  Qed.

  (** about the function as written *)
  Corollary source_no_keys_rejected : forall md,
    f_verify_metadata_signatures o_vs o_cpk (R md) (inj (JDict [])) = Err ESignature.
  Proof. intro md. rewrite tie_verify_metadata_signatures. reflexivity. Qed.

  Corollary source_every_key_verifies : forall md keys v,
    f_verify_metadata_signatures o_vs o_cpk (R md) (inj keys) = Ok v ->
    exists ks, keys = JDict ks /\ ks <> [] /\ check_public_keys keys = Ok ks /\
               forall k key, In (k, key) ks -> verify_signature sig_ok now_s md key = Ok tt.
  Proof.
    intros md keys v H. rewrite tie_verify_metadata_signatures in H. unfold verify_metadata_signatures in H.
    destruct (check_public_keys keys) as [ks|e] eqn:C; cbn [bind] in H; [|discriminate].
    assert (keys = JDict ks) as Hk.
    { unfold check_public_keys in C. destruct keys; try discriminate.
      match type of C with (do _ <- ?m; _) = _ => destruct m end; [|discriminate]. cbn [bind] in C. injection C as <-. reflexivity. }
    exists ks. split; [exact Hk|]. destruct ks as [|kv ks]; [discriminate|]. split; [discriminate|]. split; [reflexivity|].
    destruct (mapM (fun kv0 => verify_signature sig_ok now_s md (snd kv0)) (kv :: ks)) as [us|e] eqn:M; [|discriminate].
    clear H C Hk. revert us M. generalize (kv :: ks). intro l. induction l as [|[k0 v0] l IH]; intros us M k key Hin; [destruct Hin|].
    cbn [mapM snd] in M. destruct (verify_signature sig_ok now_s md v0) as [[]|e] eqn:V; [|discriminate]. cbn [bind] in M.
    destruct (mapM (fun kv0 => verify_signature sig_ok now_s md (snd kv0)) l) as [us'|e] eqn:M'; [|discriminate].
    destruct Hin as [E|Hin]; [injection E as <- <-; exact V | exact (IH us' eq_refl k key Hin)].
  Qed.

  Corollary source_one_bad_key_rejects : forall md ks k key e,
    check_public_keys (JDict ks) = Ok ks -> In (k, key) ks ->
    verify_signature sig_ok now_s md key = Err e ->
    exists e', f_verify_metadata_signatures o_vs o_cpk (R md) (inj (JDict ks)) = Err e'.
  Proof.
    intros md ks k key e C Hin V.
    destruct (f_verify_metadata_signatures o_vs o_cpk (R md) (inj (JDict ks))) as [v|e'] eqn:F; [|exists e'; reflexivity].
    destruct (source_every_key_verifies md (JDict ks) v F) as [ks' [Hk [_ [_ Hall]]]]. injection Hk as <-.
    rewrite (Hall k key Hin) in V. discriminate.
  Qed.
End C01.

Print Assumptions tie_verify_metadata_signatures.
Print Assumptions source_no_keys_rejected.
Print Assumptions source_every_key_verifies.
Print Assumptions source_one_bad_key_rejects.
