(** Tie/C09.v — the constants regenerated from /repo's source by harness/c09tie.py (Gen/C09Consts.v: attr.ib field lists,
    `_type` tags, constructor defaults, DSSE payload type) are the ones the model uses.  Recompiled on every run. *)
From InToto.Model Require Import Base Json Strs Utf8 Canon Rule Rules Expiry Meta Sign.
From InToto.Gen Require Import C09Consts.

Definition dict_keys (j : json) : list str := match j with JDict m => map fst m | _ => [] end.
Definition same_set (a b : list str) : Prop := set_eqb a b = true /\ length a = length b.

(** attr.asdict(obj) has exactly the attr.ib fields (a subclass: the base class's first) — the content that is signed *)
Theorem tie_link_fields : forall l, dict_keys (link_asdict l) = fields_Link.
Proof. reflexivity. Qed.
Theorem tie_layout_fields : forall l, dict_keys (layout_asdict l) = fields_Layout.
Proof. reflexivity. Qed.
Theorem tie_step_fields : forall s, same_set (dict_keys (step_asdict s)) (fields_SupplyChainItem ++ fields_Step).
Proof. intro s. split; reflexivity. Qed.
Theorem tie_insp_fields : forall i, same_set (dict_keys (insp_asdict i)) (fields_SupplyChainItem ++ fields_Inspection).
Proof. intro i. split; reflexivity. Qed.
Theorem tie_metablock_fields : forall b64enc sigs p d, to_dict b64enc (Metablock sigs p) = Ok d -> dict_keys d = fields_Metablock.
Proof. intros b64enc sigs p d H. inversion H. reflexivity. Qed.

(** the `_type` tags the constructors force, and the DSSE payload type *)
Theorem tie_tags : tag_Link = S_link /\ tag_Layout = S_layout /\ tag_Step = S_step /\ tag_Inspection = S_inspection.
Proof. repeat split; reflexivity. Qed.
Theorem tie_tags_in_asdict : forall l y s i,
  jget S__type (link_asdict l) = Some (JStr tag_Link) /\ jget S__type (layout_asdict y) = Some (JStr tag_Layout) /\
  jget S__type (step_asdict s) = Some (JStr tag_Step) /\ jget S__type (insp_asdict i) = Some (JStr tag_Inspection).
Proof. intros. repeat split; reflexivity. Qed.
Theorem tie_payload_type : envelope_payload_type = S_envelope_payload_type.
Proof. reflexivity. Qed.

(** constructor defaults: an object read from a dict that omits a field carries the default of `kwargs.get(field, default)` *)
Ltac all_in H := repeat (destruct H as [H|H]; [inversion H; subst; try reflexivity; try congruence|]); try contradiction.

Theorem tie_link_defaults : exists l, read_link (JDict []) = Ok l /\
  forall k v, In (k, v) defaults_Link -> jget k (link_asdict l) = Some v.
Proof. eexists. split; [reflexivity|]. intros k v H. all_in H. Qed.

Definition ex_name : str := [120]%N.
Theorem tie_step_defaults : exists s, read_step (JDict [(S_name, JStr ex_name)]) = Ok s /\
  forall k v, In (k, v) (defaults_SupplyChainItem ++ defaults_Step) -> k <> S_name -> jget k (step_asdict s) = Some v.
Proof. eexists. split; [reflexivity|]. intros k v H Hn. all_in H. Qed.
Theorem tie_insp_defaults : exists i, read_insp (JDict [(S_name, JStr ex_name)]) = Ok i /\
  forall k v, In (k, v) (defaults_SupplyChainItem ++ defaults_Inspection) -> k <> S_name -> jget k (insp_asdict i) = Some v.
Proof. eexists. split; [reflexivity|]. intros k v H Hn. all_in H. Qed.

Definition ex_expires : str := [50;48;51;48;45;48;49;45;48;49;84;48;48;58;48;48;58;48;48;90]%N.   (* 2030-01-01T00:00:00Z *)
Theorem tie_layout_defaults : exists y,
  read_layout (JDict [(S_steps, JList []); (S_inspect, JList []); (S_expires, JStr ex_expires)]) = Ok y /\
  forall k v, In (k, v) defaults_Layout -> k <> S_expires -> jget k (layout_asdict y) = Some v.
Proof. eexists. split; [vm_compute; reflexivity|]. intros k v H Hn. all_in H. Qed.

Print Assumptions tie_link_fields.
Print Assumptions tie_layout_fields.
Print Assumptions tie_step_fields.
Print Assumptions tie_insp_fields.
Print Assumptions tie_metablock_fields.
Print Assumptions tie_tags.
Print Assumptions tie_tags_in_asdict.
Print Assumptions tie_payload_type.
Print Assumptions tie_link_defaults.
Print Assumptions tie_step_defaults.
Print Assumptions tie_insp_defaults.
Print Assumptions tie_layout_defaults.
