(** Tie/C17.v — the functions regenerated from /repo/in_toto/rulelib.py (Gen/Fun.v)
    are extensionally the model's unpack_rule / pack_rule. Recompiled on every run. *)
From InToto.Model Require Import Base Json PyLib Rule.
From InToto.Proofs Require Import PyLibFacts RuleProofs.
From InToto.Gen Require Import Fun.

Definition res_map {A B} (f : A -> B) (r : res A) : res B :=
  match r with Ok a => Ok (f a) | Err e => Err e end.
Definition meaning_pv (m : meaning) : pyval := inj (meaning_json m).

Definition is_jstr (j : json) : bool := match j with JStr _ => true | _ => false end.
Definition is_vstr (v : pyval) : bool := match v with VStr _ => true | _ => false end.

Lemma all_strs_forallb : forall l,
  forallb is_vstr (map inj l) = match all_strs l with Some _ => true | None => false end.
Proof.
  induction l as [|x l IH]; simpl; [reflexivity|].
  destruct x; simpl; try reflexivity. rewrite IH. destruct (all_strs l); reflexivity.
Qed.

Lemma tie_check_str_list : forall j,
  f__check_str_list (inj j) = res_map (fun _ => VNone) (check_str_list j).
Proof.
  intros j. destruct j; try reflexivity.
  unfold f__check_str_list. cbn -[py_fold all_strs].
  rewrite (py_fold_check is_vstr EFormat).
  - rewrite all_strs_forallb. destruct (all_strs l); reflexivity.
  - intros x. destruct x; reflexivity.
Qed.

Arguments Z.ltb : simpl never.
Arguments Z.leb : simpl never.
Arguments Z.eqb : simpl never.
Arguments Z.gtb : simpl never.
Arguments Z.geb : simpl never.
Arguments Z.of_nat : simpl never.

Ltac case_eqs :=
  match goal with
  | |- context [eqs ?a ?b] =>
      let E := fresh "E" in
      destruct (eqs a b) eqn:E;
      [ apply eqs_eq in E; try rewrite E in *; cbn | cbn ]
  end.

Ltac case_z :=
  match goal with
  | |- context [norm_index ?i ?n] =>
      first [ rewrite (norm_index_ok i n) by (cbn; lia) | rewrite (norm_index_out i n) by (cbn; lia) ]
  | |- context [(?a <? ?b)%Z] => destruct (Z.ltb_spec a b); [try (exfalso; cbn in *; lia) | try (exfalso; cbn in *; lia)]
  | |- context [(?a <=? ?b)%Z] => destruct (Z.leb_spec a b); [try (exfalso; cbn in *; lia) | try (exfalso; cbn in *; lia)]
  | |- context [(?a =? ?b)%Z] => destruct (Z.eqb_spec a b); [try (exfalso; cbn in *; lia) | try (exfalso; cbn in *; lia)]
  end.

Ltac crunch := repeat first [ case_z | case_eqs | progress cbn ]; try reflexivity; try (exfalso; cbn in *; congruence).

Theorem tie_unpack_rule : forall j,
  f_unpack_rule (inj j) = res_map meaning_pv (unpack_rule j).
Proof.
  intros j. unfold f_unpack_rule, unpack_rule.
  rewrite tie_check_str_list.
  destruct (check_str_list j) as [toks|e] eqn:Ec; [|reflexivity].
  assert (inj j = vstrs toks) as ->.
  { destruct j; try discriminate. simpl in Ec. destruct (all_strs l) eqn:El; try discriminate.
    inversion Ec; subst. apply all_strs_inv in El. subst. simpl. rewrite map_inj_strs. reflexivity. }
  clear Ec j.
  cbn [res_map bind]. unfold vstrs.
  cbn [py_for py_iter bind].
  rewrite (py_fold_map_append lower) by (intros; reflexivity).
  cbn [app bind].
  destruct toks as [|t0 [|p [|a2 [|a3 [|a4 [|a5 [|a6 [|a7 [|a8 [|a9 [|a10 rest]]]]]]]]]]];
    cbn; unfold is_kw, kw_generic, kw_dst, k_create, k_modify, k_delete, k_allow, k_disallow, k_require,
           k_match, k_in, k_with, k_from, k_materials, k_products; cbn.
  all: crunch.
Qed.

(** pack_rule_data on the dictionary unpack_rule returned *)
Definition pack_args (m : meaning) : pyval * pyval * pyval * pyval * pyval * pyval :=
  match m with
  | Generic k p => (VStr (gkind_name k), VStr p, VNone, VNone, VNone, VNone)
  | Match p sp d dp step => (VStr k_match, VStr p, VStr sp, VStr (dkind_name d), VStr dp, VStr step)
  end.

Theorem tie_pack_rule : forall m,
  (let '(a, b, c, d, e, f) := pack_args m in f_pack_rule a b c d e f) = res_map vstrs (pack_rule m).
Proof.
  intros m. destruct m as [k p | p sp d dp step].
  - destruct k; reflexivity.
  - destruct d; destruct sp as [|? ?]; destruct dp as [|? ?]; destruct step as [|? ?]; reflexivity.
Qed.

Print Assumptions tie_unpack_rule.
Print Assumptions tie_pack_rule.
