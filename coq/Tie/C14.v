(** Tie/C14.v — the verification pipeline reads metadata containers through the two accessors only, and
    the DSSE payload type is the modelled constant (regenerated from /repo by tools/sublay_ties.py). *)
From InToto.Model Require Import Base Json Strs Rules Meta Verify.
From InToto.Gen Require Import Sublay.
From Coq Require Import String Ascii.

Fixpoint s2l (s : string) : list N :=
  match s with EmptyString => [] | String c r => N_of_ascii c :: s2l r end.

Theorem tie_envelope_payload_type : g_envelope_payload_type = S_envelope_payload_type.
Proof. reflexivity. Qed.

(** attributes read from a metadata object in the four functions of the pipeline that hold one:
    never [.signed], [.payload], [.signatures] — which is what C14_verify_payload_only relies on *)
Theorem tie_accessor_discipline : g_accessors = List.map s2l [
  "in_toto_verify:get_payload";
  "verify_link_signature_thresholds:get_payload,verify_signature";
  "verify_metadata_signatures:verify_signature";
  "verify_sublayouts:get_payload"]%string.
Proof. vm_compute. reflexivity. Qed.

Print Assumptions tie_envelope_payload_type.
Print Assumptions tie_accessor_discipline.
