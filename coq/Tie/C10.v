(** Tie/C10.v — the naming of recorded files: FileResolver._mangle and FileResolver._strip_scheme_prefix regenerated
    from /repo/in_toto/resolver/_resolver.py (Gen/Fun10.v, by tools/pytrans2.py --mangle) are the model's [mangle]
    and [strip_scheme_prefix] (Model/Resolve.v), on which the C10 theorems rest.  Recompiled every run. *)
From Coq Require Import Lia.
From InToto.Model Require Import Base Json PyLib Glob PyLibGlob Fs Resolve.
From InToto.Proofs Require Import PyLibFacts2 PyLibFacts3.
From InToto.Gen Require Import Fun10.

(** the prefix loop with its break: only the FIRST matching prefix is removed *)
Lemma lstrip_loop : forall (ps : list str) (path : str) (body : pyval -> bool * pyval -> res (bool * pyval)),
  (forall p brk v, body (VStr p) (brk, VStr v) =
     if brk then Ok (true, VStr v)
     else (do t1 <- py_startswith (VStr v) (VStr p);
           if truthy t1 then (do v' <- (do t2 <- py_len (VStr p); py_slice_from (VStr v) t2); Ok (true, v'))
           else Ok (false, VStr v))) ->
  exists b, py_fold (map VStr ps) (false, VStr path) body = Ok (b, VStr (lstrip_first ps path)).
Proof.
  intros ps path body Hb.
  assert (Hdone : forall ps v, py_fold (map VStr ps) (true, VStr v) body = Ok (true, VStr v)).
  { induction ps0 as [|p ps0 IH]; intro v; [reflexivity|]. cbn [map py_fold]. rewrite Hb. cbn [bind]. apply IH. }
  revert path. induction ps as [|p ps IH]; intro path.
  - exists false. reflexivity.
  - cbn [map py_fold lstrip_first]. rewrite Hb. cbn [py_startswith bind].
    destruct (starts_with p path); cbn [vb truthy].
    + rewrite py_slice_from_len. cbn [bind]. exists true. rewrite Hdone. reflexivity.
    + cbn [bind]. apply IH.
Qed.

Definition existing_pv (existing : list str) : pyval := VDict (map (fun k => (VStr k, VNone)) existing).

Lemma py_in_existing : forall name existing,
  py_in (VStr name) (existing_pv existing) = Ok (vb (mem_str name existing)).
Proof.
  intros name existing. unfold py_in, existing_pv. rewrite map_map. cbn [fst].
  change (map (fun x : str => VStr x) existing) with (map VStr existing). rewrite pv_mem_vstr. reflexivity.
Qed.

Theorem tie_mangle : forall (lstrip : list str) (path : str) (existing : list str) (prefix : str),
  f_file_mangle (VStr path) (existing_pv existing) (VStr prefix) (vstrs lstrip) =
  res_map2 VStr (mangle lstrip path existing prefix).
Proof.
  intros lstrip path existing prefix. unfold f_file_mangle, mangle, mangled_name.
  assert (py_replace1 (VStr path) (VStr [92%N]) (VStr [47%N]) = Ok (VStr (replace_c c_bslash c_slash path))) as -> by reflexivity.
  cbn [bind]. unfold py_for, vstrs. cbn [py_iter bind].
  match goal with
  | |- context [py_fold _ _ ?body] =>
      destruct (lstrip_loop lstrip (replace_c c_bslash c_slash path) body) as [b Hloop]; [intros p brk v; reflexivity|]
  end.
  rewrite Hloop.
  cbn [bind py_add]. unfold py_and. cbn [bind].
  destruct lstrip as [|l0 ls].
  - reflexivity.
  - cbn [map truthy is_nil negb andb]. rewrite py_in_existing. cbn [bind].
    destruct (mem_str _ existing); reflexivity.
Qed.
Print Assumptions tie_mangle.

Theorem tie_strip_scheme_prefix : forall path : str,
  f_file_strip_scheme_prefix (VStr path) c_FileResolver_SCHEME =
  Ok (VList [VStr (fst (strip_scheme_prefix path)); VStr (snd (strip_scheme_prefix path))]).
Proof.
  intro path. unfold f_file_strip_scheme_prefix, c_FileResolver_SCHEME, strip_scheme_prefix.
  cbn [py_add bind app py_startswith].
  change ([102; 105; 108; 101; 58]%N) with s_file_colon.
  destruct (starts_with s_file_colon path); cbn [vb truthy bind fst snd].
  - rewrite py_slice_from_len. reflexivity.
  - reflexivity.
Qed.
Print Assumptions tie_strip_scheme_prefix.
