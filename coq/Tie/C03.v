(** Tie/C03.v — the simple artifact-rule functions regenerated from /repo/in_toto/verifylib.py
    (Gen/Fun2.v, by tools/pytrans2.py) are extensionally the model's rule functions (Model/Rules.v)
    for the glob model.  Recompiled against the regenerated source on every run. *)
From InToto.Model Require Import Base Json PyLib Glob PyLibGlob Rule Rules.
From InToto.Proofs Require Import PyLibFacts2 RulesProofs.
From InToto.Gen Require Import Fun2.

Lemma py_set_vstrs : forall l, py_set (vstrs l) = Ok (vsset (dedup l)).
Proof. intro l. unfold py_set, vstrs, vsset. rewrite pv_dedup_vstr. reflexivity. Qed.
Lemma py_sub_vsset : forall a b, py_sub (vsset a) (vsset b) = Ok (vsset (set_diff a b)).
Proof. intros a b. unfold py_sub, vsset, py_sub_set, py_set_binop, set_diff. cbn [as_set]. rewrite filter_notmem_vstr. reflexivity. Qed.
Lemma py_and_vsset : forall a b, py_and_set (vsset a) (vsset b) = Ok (vsset (set_inter a b)).
Proof. intros a b. unfold py_and_set, vsset, py_set_binop, set_inter. cbn [as_set]. rewrite filter_mem_vstr. reflexivity. Qed.

(** CREATE: matched names that are products and not materials *)
Theorem tie_create_rule : forall pat queue mats prods,
  f_verify_create_rule (VStr pat) (vsset queue) (vsset mats) (vsset prods) =
  res_map2 vsset (create_rule glob_match pat queue mats prods).
Proof.
  intros pat queue mats prods. unfold f_verify_create_rule, create_rule.
  rewrite fnmatch_filter_set. destruct (fnfilter glob_match queue pat) as [f|e]; [|reflexivity].
  cbn [res_map2 bind]. rewrite py_set_vstrs. cbn [bind]. rewrite py_sub_vsset. cbn [bind].
  rewrite py_and_vsset. reflexivity.
Qed.

(** DELETE: matched names that are materials and not products *)
Theorem tie_delete_rule : forall pat queue mats prods,
  f_verify_delete_rule (VStr pat) (vsset queue) (vsset mats) (vsset prods) =
  res_map2 vsset (delete_rule glob_match pat queue mats prods).
Proof.
  intros pat queue mats prods. unfold f_verify_delete_rule, delete_rule.
  rewrite fnmatch_filter_set. destruct (fnfilter glob_match queue pat) as [f|e]; [|reflexivity].
  cbn [res_map2 bind]. rewrite py_set_vstrs. cbn [bind]. rewrite py_sub_vsset. cbn [bind].
  rewrite py_and_vsset. reflexivity.
Qed.

(** ALLOW: every matched name *)
Theorem tie_allow_rule : forall pat queue,
  f_verify_allow_rule (VStr pat) (vsset queue) = res_map2 vsset (allow_rule glob_match pat queue).
Proof.
  intros pat queue. unfold f_verify_allow_rule, allow_rule.
  rewrite fnmatch_filter_set. destruct (fnfilter glob_match queue pat) as [f|e]; [|reflexivity].
  cbn [res_map2 bind]. apply py_set_vstrs.
Qed.

(** DISALLOW: fails iff a queued name matches *)
Theorem tie_disallow_rule : forall pat queue,
  f_verify_disallow_rule (VStr pat) (vsset queue) =
  res_map2 (fun _ => VNone) (disallow_rule glob_match pat queue).
Proof.
  intros pat queue. unfold f_verify_disallow_rule, disallow_rule.
  rewrite fnmatch_filter_set. destruct (fnfilter glob_match queue pat) as [f|e]; [|reflexivity].
  cbn [res_map2 bind]. destruct f; reflexivity.
Qed.

(** REQUIRE: literal membership in the queue, no globbing *)
Theorem tie_require_rule : forall name queue,
  f_verify_require_rule (VStr name) (vsset queue) =
  res_map2 (fun _ => VNone) (require_rule name queue).
Proof.
  intros name queue. unfold f_verify_require_rule, require_rule, py_not_in, py_in, vsset.
  cbn [bind]. rewrite pv_mem_vstr. destruct (mem_str name queue); reflexivity.
Qed.

Print Assumptions tie_create_rule.
Print Assumptions tie_delete_rule.
Print Assumptions tie_allow_rule.
Print Assumptions tie_disallow_rule.
Print Assumptions tie_require_rule.

(** * MODIFY: matched names that are in both maps with different hash records *)

Lemma dedup_In' : forall x l, In x (dedup l) <-> In x l.
Proof.
  induction l as [|y l IH]; cbn [dedup]; [tauto|]. destruct (mem_str y l) eqn:E.
  - rewrite IH. cbn [In]. split; [intro H; right; exact H | intros [Hy|H]; [subst y; apply mem_str_In; exact E | exact H]].
  - cbn [In]. rewrite IH. tauto.
Qed.

Lemma dedup_NoDup : forall l, NoDup (dedup l).
Proof.
  induction l as [|y l IH]; cbn [dedup]; [constructor|]. destruct (mem_str y l) eqn:E; [exact IH|].
  constructor; [|exact IH]. rewrite dedup_In'. apply mem_str_false. exact E.
Qed.

Lemma filter_NoDup : forall (f : str -> bool) l, NoDup l -> NoDup (filter f l).
Proof.
  induction l as [|x l IH]; intro H; [constructor|]. inversion H as [|? ? Hn Hl]; subst. cbn [filter].
  destruct (f x); [constructor; [intro Hin; apply filter_In in Hin; tauto | exact (IH Hl)] | exact (IH Hl)].
Qed.

Lemma py_index_inj_amap' : forall (m : amap) k,
  py_index (inj_amap m) (VStr k) = match lookup k m with Some v => Ok (inj v) | None => Err EKeyError end.
Proof. intros m k. unfold py_index, inj_amap. rewrite pv_assoc_inj. destruct (lookup k m); reflexivity. Qed.

Definition differs_mp (M P : amap) (n : str) : bool :=
  match lookup n M, lookup n P with Some hm, Some hp => negb (py_eqb hm hp) | _, _ => false end.

Lemma modify_fold : forall (M P : amap) L acc,
  amap_hashrecs M = true -> amap_hashrecs P = true ->
  (forall n, In n L -> In n (keys M) /\ In n (keys P)) -> NoDup L -> (forall n, In n L -> ~ In n acc) ->
  py_fold (map VStr L) (VSet (map VStr acc))
    (fun v_path v_consumed =>
       do t9 <- (do t7 <- py_index (inj_amap M) v_path; do t8 <- py_index (inj_amap P) v_path; py_ne t7 t8);
       if truthy t9 then (do v_consumed0 <- py_set_add v_consumed v_path; Ok v_consumed0) else Ok v_consumed)
  = Ok (VSet (map VStr (acc ++ filter (differs_mp M P) L))).
Proof.
  intros M P L. induction L as [|n L IH]; intros acc HM HP Hin Hnd Hfresh.
  - cbn. rewrite app_nil_r. reflexivity.
  - cbn [map py_fold].
    destruct (Hin n (or_introl eq_refl)) as [HnM HnP].
    apply keys_In_lookup in HnM. apply keys_In_lookup in HnP. destruct HnM as [x Hx]. destruct HnP as [y Hy].
    assert (differs_mp M P n = negb (py_eqb x y)) as Hd by (unfold differs_mp; rewrite Hx, Hy; reflexivity).
    rewrite (py_index_inj_amap' M n), (py_index_inj_amap' P n), Hx, Hy. cbn [bind py_ne].
    rewrite (pv_eqb_hashrec x y (lookup_hashrec n M x HM Hx) (lookup_hashrec n P y HP Hy)).
    inversion Hnd as [|? ? Hn HL]; subst.
    cbn [filter]. rewrite Hd. destruct (py_eqb x y); cbn [negb vb truthy bind].
    + apply IH; try assumption.
      * intros m Hm. apply Hin. right. exact Hm.
      * intros m Hm. apply Hfresh. right. exact Hm.
    + unfold py_set_add. rewrite pv_mem_vstr.
      destruct (mem_str n acc) eqn:Em; [apply mem_str_In in Em; exfalso; exact (Hfresh n (or_introl eq_refl) Em)|].
      cbn [bind]. replace (map VStr acc ++ [VStr n]) with (map VStr (acc ++ [n])) by (rewrite map_app; reflexivity).
      rewrite IH; try assumption.
      * rewrite <- app_assoc. reflexivity.
      * intros m Hm. apply Hin. right. exact Hm.
      * intros m Hm Hacc. apply in_app_or in Hacc. destruct Hacc as [Ha|[->|[]]].
        -- exact (Hfresh m (or_intror Hm) Ha).
        -- exact (Hn Hm).
Qed.

Lemma filter_chain : forall (M P : amap) X,
  filter (differs_mp M P)
         (filter (fun x => mem_str x (dedup (keys P))) (filter (fun x => mem_str x (dedup (keys M))) X))
  = filter (differs_mp M P) X.
Proof.
  intros M P X. induction X as [|n X IH]; [reflexivity|]. cbn [filter].
  destruct (mem_str n (dedup (keys M))) eqn:EM.
  - cbn [filter]. destruct (mem_str n (dedup (keys P))) eqn:EP.
    + cbn [filter]. rewrite IH. reflexivity.
    + rewrite IH. assert (differs_mp M P n = false) as ->; [|reflexivity].
      unfold differs_mp. destruct (lookup n M); [|reflexivity]. destruct (lookup n P) eqn:El; [|reflexivity].
      exfalso. apply mem_str_false in EP. apply EP. apply dedup_In'. apply keys_In_lookup. eauto.
  - rewrite IH. assert (differs_mp M P n = false) as ->; [|reflexivity].
    unfold differs_mp. destruct (lookup n M) eqn:El; [|reflexivity].
    exfalso. apply mem_str_false in EM. apply EM. apply dedup_In'. apply keys_In_lookup. eauto.
Qed.

Theorem tie_modify_rule : forall pat queue (M P : amap),
  amap_hashrecs M = true -> amap_hashrecs P = true ->
  f_verify_modify_rule (VStr pat) (vsset queue) (inj_amap M) (inj_amap P) =
  res_map2 vsset (modify_rule glob_match pat queue M P).
Proof.
  intros pat queue M P HM HP. unfold f_verify_modify_rule, modify_rule.
  rewrite fnmatch_filter_set. destruct (fnfilter glob_match queue pat) as [f|e]; [|reflexivity].
  cbn [res_map2 bind]. rewrite py_set_vstrs. cbn [bind].
  rewrite !keys_inj_amap. cbn [bind].
  assert (forall l, py_set (vsset l) = Ok (vsset (dedup l))) as Hps
    by (intro l; unfold py_set, vsset; rewrite pv_dedup_vstr; reflexivity).
  rewrite !Hps. cbn [bind]. rewrite py_and_vsset. cbn [bind]. rewrite py_and_vsset. cbn [bind].
  unfold py_for. unfold vsset at 1. cbn [py_iter bind].
  change (VSet []) with (VSet (map VStr [])).
  unfold set_inter.
  rewrite (modify_fold M P _ [] HM HP).
  - cbn [app bind]. rewrite filter_chain. reflexivity.
  - intros n Hn. apply filter_In in Hn. destruct Hn as [Hn HPk]. apply filter_In in Hn. destruct Hn as [_ HMk].
    apply mem_str_In in HPk. apply mem_str_In in HMk. rewrite dedup_In' in HPk, HMk. split; assumption.
  - apply filter_NoDup. apply filter_NoDup. apply dedup_NoDup.
  - intros n _ [].
Qed.

Print Assumptions tie_modify_rule.
