(** Tie/C03.v — the simple artifact-rule functions regenerated from /repo/in_toto/verifylib.py
    (Gen/Fun2.v, by tools/pytrans2.py) are extensionally the model's rule functions (Model/Rules.v)
    for the glob model.  Recompiled against the regenerated source on every run. *)
From InToto.Model Require Import Base Json PyLib Glob PyLibGlob Rule Rules.
From InToto.Proofs Require Import PyLibFacts2.
From InToto.Gen Require Import Fun2.

Lemma py_set_vstrs : forall l, py_set (vstrs l) = Ok (vsset (dedup l)).
Proof. intro l. unfold py_set, vstrs, vsset. rewrite pv_dedup_vstr. reflexivity. Qed.
Lemma py_sub_vsset : forall a b, py_sub (vsset a) (vsset b) = Ok (vsset (set_diff a b)).
Proof. intros a b. unfold py_sub, vsset, py_sub_set, py_set_binop, set_diff. cbn [as_set]. rewrite filter_notmem_vstr. reflexivity. Qed.
Lemma py_and_vsset : forall a b, py_and_set (vsset a) (vsset b) = Ok (vsset (set_inter a b)).
Proof. intros a b. unfold py_and_set, vsset, py_set_binop, set_inter. cbn [as_set]. rewrite filter_mem_vstr. reflexivity. Qed.

(** CREATE: matched names that are products and not materials *)
Theorem tie_create_rule : forall pat queue mats prods,
  f_verify_create_rule (VStr pat) (vsset queue) (vsset mats) (vsset prods) =
  res_map2 vsset (create_rule glob_match pat queue mats prods).
Proof.
  intros pat queue mats prods. unfold f_verify_create_rule, create_rule.
  rewrite fnmatch_filter_set. destruct (fnfilter glob_match queue pat) as [f|e]; [|reflexivity].
  cbn [res_map2 bind]. rewrite py_set_vstrs. cbn [bind]. rewrite py_sub_vsset. cbn [bind].
  rewrite py_and_vsset. reflexivity.
Qed.

(** DELETE: matched names that are materials and not products *)
Theorem tie_delete_rule : forall pat queue mats prods,
  f_verify_delete_rule (VStr pat) (vsset queue) (vsset mats) (vsset prods) =
  res_map2 vsset (delete_rule glob_match pat queue mats prods).
Proof.
  intros pat queue mats prods. unfold f_verify_delete_rule, delete_rule.
  rewrite fnmatch_filter_set. destruct (fnfilter glob_match queue pat) as [f|e]; [|reflexivity].
  cbn [res_map2 bind]. rewrite py_set_vstrs. cbn [bind]. rewrite py_sub_vsset. cbn [bind].
  rewrite py_and_vsset. reflexivity.
Qed.

(** ALLOW: every matched name *)
Theorem tie_allow_rule : forall pat queue,
  f_verify_allow_rule (VStr pat) (vsset queue) = res_map2 vsset (allow_rule glob_match pat queue).
Proof.
  intros pat queue. unfold f_verify_allow_rule, allow_rule.
  rewrite fnmatch_filter_set. destruct (fnfilter glob_match queue pat) as [f|e]; [|reflexivity].
  cbn [res_map2 bind]. apply py_set_vstrs.
Qed.

(** DISALLOW: fails iff a queued name matches *)
Theorem tie_disallow_rule : forall pat queue,
  f_verify_disallow_rule (VStr pat) (vsset queue) =
  res_map2 (fun _ => VNone) (disallow_rule glob_match pat queue).
Proof.
  intros pat queue. unfold f_verify_disallow_rule, disallow_rule.
  rewrite fnmatch_filter_set. destruct (fnfilter glob_match queue pat) as [f|e]; [|reflexivity].
  cbn [res_map2 bind]. destruct f; reflexivity.
Qed.

(** REQUIRE: literal membership in the queue, no globbing *)
Theorem tie_require_rule : forall name queue,
  f_verify_require_rule (VStr name) (vsset queue) =
  res_map2 (fun _ => VNone) (require_rule name queue).
Proof.
  intros name queue. unfold f_verify_require_rule, require_rule, py_not_in, py_in, vsset.
  cbn [bind]. rewrite pv_mem_vstr. destruct (mem_str name queue); reflexivity.
Qed.

Print Assumptions tie_create_rule.
Print Assumptions tie_delete_rule.
Print Assumptions tie_allow_rule.
Print Assumptions tie_disallow_rule.
Print Assumptions tie_require_rule.
