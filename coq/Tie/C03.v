(** Tie/C03.v — the simple artifact-rule functions regenerated from /repo/in_toto/verifylib.py
    (Gen/Fun2.v, by tools/pytrans2.py) are extensionally the model's rule functions (Model/Rules.v)
    for the glob model.  Recompiled against the regenerated source on every run. *)
From InToto.Model Require Import Base Json PyLib Glob PyLibGlob Rule Rules.
From InToto.Proofs Require Import PyLibFacts2 PyLibFacts3 RulesProofs.
From InToto.Gen Require Import Fun2.

Lemma py_set_vstrs : forall l, py_set (vstrs l) = Ok (vsset (dedup l)).
Proof. intro l. unfold py_set, vstrs, vsset. rewrite pv_dedup_vstr. reflexivity. Qed.
Lemma py_sub_vsset : forall a b, py_sub (vsset a) (vsset b) = Ok (vsset (set_diff a b)).
Proof. intros a b. unfold py_sub, vsset, py_sub_set, py_set_binop, set_diff. cbn [as_set]. rewrite filter_notmem_vstr. reflexivity. Qed.
Lemma py_and_vsset : forall a b, py_and_set (vsset a) (vsset b) = Ok (vsset (set_inter a b)).
Proof. intros a b. unfold py_and_set, vsset, py_set_binop, set_inter. cbn [as_set]. rewrite filter_mem_vstr. reflexivity. Qed.

(** CREATE: matched names that are products and not materials *)
Theorem tie_create_rule : forall pat queue mats prods,
  f_verify_create_rule (VStr pat) (vsset queue) (vsset mats) (vsset prods) =
  res_map2 vsset (create_rule glob_match pat queue mats prods).
Proof.
  intros pat queue mats prods. unfold f_verify_create_rule, create_rule.
  rewrite fnmatch_filter_set. destruct (fnfilter glob_match queue pat) as [f|e]; [|reflexivity].
  cbn [res_map2 bind]. rewrite py_set_vstrs. cbn [bind]. rewrite py_sub_vsset. cbn [bind].
  rewrite py_and_vsset. reflexivity.
Qed.

(** DELETE: matched names that are materials and not products *)
Theorem tie_delete_rule : forall pat queue mats prods,
  f_verify_delete_rule (VStr pat) (vsset queue) (vsset mats) (vsset prods) =
  res_map2 vsset (delete_rule glob_match pat queue mats prods).
Proof.
  intros pat queue mats prods. unfold f_verify_delete_rule, delete_rule.
  rewrite fnmatch_filter_set. destruct (fnfilter glob_match queue pat) as [f|e]; [|reflexivity].
  cbn [res_map2 bind]. rewrite py_set_vstrs. cbn [bind]. rewrite py_sub_vsset. cbn [bind].
  rewrite py_and_vsset. reflexivity.
Qed.

(** ALLOW: every matched name *)
Theorem tie_allow_rule : forall pat queue,
  f_verify_allow_rule (VStr pat) (vsset queue) = res_map2 vsset (allow_rule glob_match pat queue).
Proof.
  intros pat queue. unfold f_verify_allow_rule, allow_rule.
  rewrite fnmatch_filter_set. destruct (fnfilter glob_match queue pat) as [f|e]; [|reflexivity].
  cbn [res_map2 bind]. apply py_set_vstrs.
Qed.

(** DISALLOW: fails iff a queued name matches *)
Theorem tie_disallow_rule : forall pat queue,
  f_verify_disallow_rule (VStr pat) (vsset queue) =
  res_map2 (fun _ => VNone) (disallow_rule glob_match pat queue).
Proof.
  intros pat queue. unfold f_verify_disallow_rule, disallow_rule.
  rewrite fnmatch_filter_set. destruct (fnfilter glob_match queue pat) as [f|e]; [|reflexivity].
  cbn [res_map2 bind]. destruct f; reflexivity.
Qed.

(** REQUIRE: literal membership in the queue, no globbing *)
Theorem tie_require_rule : forall name queue,
  f_verify_require_rule (VStr name) (vsset queue) =
  res_map2 (fun _ => VNone) (require_rule name queue).
Proof.
  intros name queue. unfold f_verify_require_rule, require_rule, py_not_in, py_in, vsset.
  cbn [bind]. rewrite pv_mem_vstr. destruct (mem_str name queue); reflexivity.
Qed.

Print Assumptions tie_create_rule.
Print Assumptions tie_delete_rule.
Print Assumptions tie_allow_rule.
Print Assumptions tie_disallow_rule.
Print Assumptions tie_require_rule.

(** * MODIFY: matched names that are in both maps with different hash records *)

Lemma dedup_In' : forall x l, In x (dedup l) <-> In x l.
Proof.
  induction l as [|y l IH]; cbn [dedup]; [tauto|]. destruct (mem_str y l) eqn:E.
  - rewrite IH. cbn [In]. split; [intro H; right; exact H | intros [Hy|H]; [subst y; apply mem_str_In; exact E | exact H]].
  - cbn [In]. rewrite IH. tauto.
Qed.

Lemma dedup_NoDup : forall l, NoDup (dedup l).
Proof.
  induction l as [|y l IH]; cbn [dedup]; [constructor|]. destruct (mem_str y l) eqn:E; [exact IH|].
  constructor; [|exact IH]. rewrite dedup_In'. apply mem_str_false. exact E.
Qed.

Lemma filter_NoDup : forall (f : str -> bool) l, NoDup l -> NoDup (filter f l).
Proof.
  induction l as [|x l IH]; intro H; [constructor|]. inversion H as [|? ? Hn Hl]; subst. cbn [filter].
  destruct (f x); [constructor; [intro Hin; apply filter_In in Hin; tauto | exact (IH Hl)] | exact (IH Hl)].
Qed.

Lemma py_index_inj_amap' : forall (m : amap) k,
  py_index (inj_amap m) (VStr k) = match lookup k m with Some v => Ok (inj v) | None => Err EKeyError end.
Proof. intros m k. unfold py_index, inj_amap. rewrite pv_assoc_inj. destruct (lookup k m); reflexivity. Qed.

Definition differs_mp (M P : amap) (n : str) : bool :=
  match lookup n M, lookup n P with Some hm, Some hp => negb (py_eqb hm hp) | _, _ => false end.

Lemma modify_fold : forall (M P : amap) L acc,
  amap_hashrecs M = true -> amap_hashrecs P = true ->
  (forall n, In n L -> In n (keys M) /\ In n (keys P)) -> NoDup L -> (forall n, In n L -> ~ In n acc) ->
  py_fold (map VStr L) (VSet (map VStr acc))
    (fun v_path v_consumed =>
       do t9 <- (do t7 <- py_index (inj_amap M) v_path; do t8 <- py_index (inj_amap P) v_path; py_ne t7 t8);
       if truthy t9 then (do v_consumed0 <- py_set_add v_consumed v_path; Ok v_consumed0) else Ok v_consumed)
  = Ok (VSet (map VStr (acc ++ filter (differs_mp M P) L))).
Proof.
  intros M P L. induction L as [|n L IH]; intros acc HM HP Hin Hnd Hfresh.
  - cbn. rewrite app_nil_r. reflexivity.
  - cbn [map py_fold].
    destruct (Hin n (or_introl eq_refl)) as [HnM HnP].
    apply keys_In_lookup in HnM. apply keys_In_lookup in HnP. destruct HnM as [x Hx]. destruct HnP as [y Hy].
    assert (differs_mp M P n = negb (py_eqb x y)) as Hd by (unfold differs_mp; rewrite Hx, Hy; reflexivity).
    rewrite (py_index_inj_amap' M n), (py_index_inj_amap' P n), Hx, Hy. cbn [bind py_ne].
    rewrite (pv_eqb_hashrec x y (lookup_hashrec n M x HM Hx) (lookup_hashrec n P y HP Hy)).
    inversion Hnd as [|? ? Hn HL]; subst.
    cbn [filter]. rewrite Hd. destruct (py_eqb x y); cbn [negb vb truthy bind].
    + apply IH; try assumption.
      * intros m Hm. apply Hin. right. exact Hm.
      * intros m Hm. apply Hfresh. right. exact Hm.
    + unfold py_set_add. rewrite pv_mem_vstr.
      destruct (mem_str n acc) eqn:Em; [apply mem_str_In in Em; exfalso; exact (Hfresh n (or_introl eq_refl) Em)|].
      cbn [bind]. replace (map VStr acc ++ [VStr n]) with (map VStr (acc ++ [n])) by (rewrite map_app; reflexivity).
      rewrite IH; try assumption.
      * rewrite <- app_assoc. reflexivity.
      * intros m Hm. apply Hin. right. exact Hm.
      * intros m Hm Hacc. apply in_app_or in Hacc. destruct Hacc as [Ha|[->|[]]].
        -- exact (Hfresh m (or_intror Hm) Ha).
        -- exact (Hn Hm).
Qed.

Lemma filter_chain : forall (M P : amap) X,
  filter (differs_mp M P)
         (filter (fun x => mem_str x (dedup (keys P))) (filter (fun x => mem_str x (dedup (keys M))) X))
  = filter (differs_mp M P) X.
Proof.
  intros M P X. induction X as [|n X IH]; [reflexivity|]. cbn [filter].
  destruct (mem_str n (dedup (keys M))) eqn:EM.
  - cbn [filter]. destruct (mem_str n (dedup (keys P))) eqn:EP.
    + cbn [filter]. rewrite IH. reflexivity.
    + rewrite IH. assert (differs_mp M P n = false) as ->; [|reflexivity].
      unfold differs_mp. destruct (lookup n M); [|reflexivity]. destruct (lookup n P) eqn:El; [|reflexivity].
      exfalso. apply mem_str_false in EP. apply EP. apply dedup_In'. apply keys_In_lookup. eauto.
  - rewrite IH. assert (differs_mp M P n = false) as ->; [|reflexivity].
    unfold differs_mp. destruct (lookup n M) eqn:El; [|reflexivity].
    exfalso. apply mem_str_false in EM. apply EM. apply dedup_In'. apply keys_In_lookup. eauto.
Qed.

Theorem tie_modify_rule : forall pat queue (M P : amap),
  amap_hashrecs M = true -> amap_hashrecs P = true ->
  f_verify_modify_rule (VStr pat) (vsset queue) (inj_amap M) (inj_amap P) =
  res_map2 vsset (modify_rule glob_match pat queue M P).
Proof.
  intros pat queue M P HM HP. unfold f_verify_modify_rule, modify_rule.
  rewrite fnmatch_filter_set. destruct (fnfilter glob_match queue pat) as [f|e]; [|reflexivity].
  cbn [res_map2 bind]. rewrite py_set_vstrs. cbn [bind].
  rewrite !keys_inj_amap. cbn [bind].
  assert (forall l, py_set (vsset l) = Ok (vsset (dedup l))) as Hps
    by (intro l; unfold py_set, vsset; rewrite pv_dedup_vstr; reflexivity).
  rewrite !Hps. cbn [bind]. rewrite py_and_vsset. cbn [bind]. rewrite py_and_vsset. cbn [bind].
  unfold py_for. unfold vsset at 1. cbn [py_iter bind].
  change (VSet []) with (VSet (map VStr [])).
  unfold set_inter.
  rewrite (modify_fold M P _ [] HM HP).
  - cbn [app bind]. rewrite filter_chain. reflexivity.
  - intros n Hn. apply filter_In in Hn. destruct Hn as [Hn HPk]. apply filter_In in Hn. destruct Hn as [_ HMk].
    apply mem_str_In in HPk. apply mem_str_In in HMk. rewrite dedup_In' in HPk, HMk. split; assumption.
  - apply filter_NoDup. apply filter_NoDup. apply dedup_NoDup.
  - intros n _ [].
Qed.

Print Assumptions tie_modify_rule.

(** * MATCH: verify_match_rule regenerated from the source is the forward reading [match_rule_fwd]
    (Proofs/PyLibFacts3.v), which has the same outcome as the model's [match_rule]
    ([match_rule_fwd_same]: same error, or the same set of consumed paths).
    rule_data is the dictionary unpack_rule returns (Tie/C17.v: [meaning_pv]); links are rendered as
    name -> {materials, products}; hash records are dicts of strings (formats._check_hash_dict). *)
Definition meaning_pv (m : meaning) : pyval := inj (meaning_json m).

Section RD.
  Variables (pat sp : str) (d : dkind) (dp step : str).
  Let rd := meaning_pv (Match pat sp d dp step).
  Lemma rd_dest_name : py_index rd (VStr [100;101;115;116;95;110;97;109;101]%N) = Ok (VStr step).
  Proof. reflexivity. Qed.
  Lemma rd_dest_type : py_index rd (VStr [100;101;115;116;95;116;121;112;101]%N) = Ok (VStr (dkind_name d)).
  Proof. reflexivity. Qed.
  Lemma rd_source_prefix : py_index rd (VStr [115;111;117;114;99;101;95;112;114;101;102;105;120]%N) = Ok (VStr sp).
  Proof. reflexivity. Qed.
  Lemma rd_dest_prefix : py_index rd (VStr [100;101;115;116;95;112;114;101;102;105;120]%N) = Ok (VStr dp).
  Proof. reflexivity. Qed.
  Lemma rd_pattern : py_index rd (VStr [112;97;116;116;101;114;110]%N) = Ok (VStr pat).
  Proof. reflexivity. Qed.
End RD.

Lemma truthy_vstr : forall s, truthy (VStr s) = match s with [] => false | _ => true end.
Proof. reflexivity. Qed.

Lemma full_path_join : forall p r, p <> [] ->
  (do t <- py_path_join (VStr p) (VStr r); py_replace1 t (VStr [92%N]) (VStr [47%N])) = Ok (VStr (full_path p r)).
Proof. intros p r Hp. destruct p; [contradiction|]. reflexivity. Qed.

Theorem tie_match_rule : forall pat sp d dp step queue (src : amap) (ls : links),
  amap_hashrecs src = true ->
  (forall l, lookup step ls = Some l -> amap_hashrecs (arts d l) = true) ->
  f_verify_match_rule (meaning_pv (Match pat sp d dp step)) (vsset queue) (inj_amap src) (links_pv ls) =
  res_map2 vsset (match_rule_fwd pat sp d dp step queue src ls).
Proof.
  intros pat sp d dp step queue src ls Hsrc Hdest.
  unfold f_verify_match_rule, match_rule_fwd.
  rewrite rd_dest_name. cbn [bind]. rewrite py_get_links. cbn [bind].
  destruct (lookup step ls) as [dl|] eqn:El; [|reflexivity].
  specialize (Hdest dl eq_refl).
  assert (truthy (py_not (link_pv dl)) = false) as -> by reflexivity.
  rewrite rd_dest_type. cbn [bind]. rewrite py_getattr_link. cbn [bind].
  rewrite rd_source_prefix. cbn [bind].
  (* the body of the consuming loop, whatever the prefixes are *)
  assert (forall (body : pyval -> pyval -> res pyval),
            (forall r acc, body (VStr r) (vsset acc) = res_map2 vsset (match_step sp dp src (arts d dl) r acc)) ->
            forall globbed,
              (do v_consumed <- py_for (vstrs globbed) (VSet []) body; Ok v_consumed) =
              res_map2 vsset (fold_res (match_step sp dp src (arts d dl)) globbed [])) as Hloop.
  { intros body Hb globbed. unfold py_for, vstrs. cbn [py_iter bind].
    change (VSet []) with (vsset []).
    rewrite (py_fold_strs vsset body _ Hb). destruct (fold_res _ globbed []); reflexivity. }
  destruct sp as [|c sp'].
  - (* no source prefix: the queue itself is filtered *)
    cbn [truthy bind].
    rewrite rd_pattern. cbn [bind]. rewrite fnmatch_filter_set.
    destruct (fnfilter glob_match queue pat) as [globbed|e]; [|reflexivity].
    cbn [res_map2 bind]. apply Hloop. intros r acc. cbv beta.
    rewrite ?rd_source_prefix, ?rd_dest_prefix. cbn [bind truthy].
    unfold match_step. cbn [full_path].
    destruct dp as [|c' dp'].
    + cbn [truthy bind full_path]. rewrite !py_index_amap.
      destruct (lookup r src) as [hs|] eqn:Es; [|reflexivity]. cbn [bind].
      destruct (lookup r (arts d dl)) as [hd|] eqn:Ed; [|reflexivity].
      cbn [py_catch bind py_ne].
      rewrite (pv_eqb_hashrec hs hd (lookup_hashrec _ _ _ Hsrc Es) (lookup_hashrec _ _ _ Hdest Ed)).
      destruct (py_eqb hs hd); [|reflexivity]. cbn [negb vb truthy bind].
      unfold py_set_add, vsset. rewrite pv_mem_vstr. destruct (mem_str r acc); [reflexivity|].
      cbn [bind res_map2]. unfold vsset. rewrite map_app. reflexivity.
    + cbn [truthy bind]. rewrite py_path_join_str. cbn [bind]. rewrite py_replace_bs. cbn [bind].
      rewrite !py_index_amap.
      destruct (lookup r src) as [hs|] eqn:Es; [|reflexivity]. cbn [bind].
      change (full_path (c' :: dp') r) with (replace_bs (posix_join (c' :: dp') r)).
      destruct (lookup (replace_bs (posix_join (c' :: dp') r)) (arts d dl)) as [hd|] eqn:Ed; [|reflexivity].
      cbn [py_catch bind py_ne].
      rewrite (pv_eqb_hashrec hs hd (lookup_hashrec _ _ _ Hsrc Es) (lookup_hashrec _ _ _ Hdest Ed)).
      destruct (py_eqb hs hd); [|reflexivity]. cbn [negb vb truthy bind].
      unfold py_set_add, vsset. rewrite pv_mem_vstr. destruct (mem_str r acc); [reflexivity|].
      cbn [bind res_map2]. unfold vsset. rewrite map_app. reflexivity.
  - (* a source prefix: strip it from the queued paths that carry it *)
    cbn [truthy bind].
    rewrite ?rd_source_prefix. cbn [bind]. rewrite py_path_join_str. cbn [bind]. rewrite py_replace_bs. cbn [bind].
    change (replace_bs (posix_join (c :: sp') [])) with (norm_prefix (c :: sp')).
    set (np := norm_prefix (c :: sp')).
    unfold py_for at 1. unfold vsset at 1. cbn [py_iter bind].
    change (VList []) with (vstrs []).
    rewrite (py_fold_strs vstrs _ (prefix_step np)).
    2:{ intros a acc. unfold prefix_step. cbn [py_startswith bind].
        destruct (starts_with np a); cbn [vb truthy res_map2]; [|reflexivity].
        rewrite py_slice_from_len. cbn [bind]. unfold py_append, vstrs. rewrite map_app. reflexivity. }
    destruct (fold_res (prefix_step np) queue []) as [filtered|e] eqn:Ef; [|rewrite prefix_fold in Ef; discriminate].
    cbn [res_map2 bind].
    rewrite rd_pattern. cbn [bind]. rewrite fnmatch_filter_list.
    destruct (fnfilter glob_match filtered pat) as [globbed|e]; [|reflexivity].
    cbn [res_map2 bind]. apply Hloop. intros r acc. cbv beta.
    rewrite ?rd_source_prefix, ?rd_dest_prefix. cbn [bind truthy].
    rewrite py_path_join_str. cbn [bind]. rewrite py_replace_bs. cbn [bind].
    unfold match_step.
    change (full_path (c :: sp') r) with (replace_bs (posix_join (c :: sp') r)).
    destruct dp as [|c' dp'].
    + cbn [truthy bind full_path]. rewrite !py_index_amap.
      destruct (lookup (replace_bs (posix_join (c :: sp') r)) src) as [hs|] eqn:Es; [|reflexivity]. cbn [bind].
      destruct (lookup r (arts d dl)) as [hd|] eqn:Ed; [|reflexivity].
      cbn [py_catch bind py_ne].
      rewrite (pv_eqb_hashrec hs hd (lookup_hashrec _ _ _ Hsrc Es) (lookup_hashrec _ _ _ Hdest Ed)).
      destruct (py_eqb hs hd); [|reflexivity]. cbn [negb vb truthy bind].
      unfold py_set_add, vsset. rewrite pv_mem_vstr. destruct (mem_str _ acc); [reflexivity|].
      cbn [bind res_map2]. unfold vsset. rewrite map_app. reflexivity.
    + cbn [truthy bind]. rewrite py_path_join_str. cbn [bind]. rewrite py_replace_bs. cbn [bind].
      rewrite !py_index_amap.
      destruct (lookup (replace_bs (posix_join (c :: sp') r)) src) as [hs|] eqn:Es; [|reflexivity]. cbn [bind].
      change (full_path (c' :: dp') r) with (replace_bs (posix_join (c' :: dp') r)).
      destruct (lookup (replace_bs (posix_join (c' :: dp') r)) (arts d dl)) as [hd|] eqn:Ed; [|reflexivity].
      cbn [py_catch bind py_ne].
      rewrite (pv_eqb_hashrec hs hd (lookup_hashrec _ _ _ Hsrc Es) (lookup_hashrec _ _ _ Hdest Ed)).
      destruct (py_eqb hs hd); [|reflexivity]. cbn [negb vb truthy bind].
      unfold py_set_add, vsset. rewrite pv_mem_vstr. destruct (mem_str _ acc); [reflexivity|].
      cbn [bind res_map2]. unfold vsset. rewrite map_app. reflexivity.
Qed.
Print Assumptions tie_match_rule.

(** the regenerated function against the model's [match_rule] itself *)
Theorem tie_match_rule_model : forall pat sp d dp step queue (src : amap) (ls : links),
  amap_hashrecs src = true ->
  (forall l, lookup step ls = Some l -> amap_hashrecs (arts d l) = true) ->
  exists r, f_verify_match_rule (meaning_pv (Match pat sp d dp step)) (vsset queue) (inj_amap src) (links_pv ls) = res_map2 vsset r
            /\ res_same r (match_rule glob_match pat sp d dp step queue src ls).
Proof.
  intros. eexists. split; [apply tie_match_rule; assumption | apply match_rule_fwd_same].
Qed.
Print Assumptions tie_match_rule_model.
