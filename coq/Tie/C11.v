(** Tie/C11.v — the order in which in_toto_run records and runs, as /repo/in_toto/runlib.py has it on THIS run
    (C11: materials are the state before the command started, products the state after it ended; C04 rests on it).
    Gen/Skel.v is regenerated from the source (tools/pytrans.py, effect skeletons).  A four-state monitor is evaluated
    on the skeleton of in_toto_run by the verified abstract interpreter of Model/Skel.v (sound for every trace: every
    call may raise, every branch may go either way):
        0  nothing recorded yet          1  one recording has returned, the command has not been started
        2  the command was started after exactly one recording
        3  a second recording has returned after that (or after the first one when there is no command)
        9  anything else happened: the command started before a recording returned or after the second one or twice,
           a third recording, or the link object built before the second recording returned.
    Theorems for today's code, for every execution: the monitor never reaches 9; when the command is started exactly one
    recording has returned and no command was started before; when the Link object is built exactly two recordings have
    returned and the command (if any) was started between them; a run that returns normally ends in state 3. *)
From Coq Require Import String Ascii Lia.
From InToto.Model Require Import Base Skel.
From InToto.Proofs Require Import SkelSound.
From InToto.Gen Require Import Skel.

Definition s (x : string) : str := map (fun a => N_of_ascii a) (list_ascii_of_string x).
Definition A_record := s "record_artifacts_as_dict".
Definition A_exec := s "execute_link".
Definition A_link := s "in_toto.models.link.Link".
Definition A_sign := s "link_metadata.create_signature".
Definition A_dump := s "link_metadata.dump".

Inductive cls := CRec | CExec | CLate | COther.
Definition classify (e : event) : cls :=
  match e with
  | ECall n ok => if eqs n A_record then (if ok then CRec else COther)
                  else if eqs n A_exec then CExec
                  else if eqs n A_link then CLate else COther
  | _ => COther
  end.

Definition order_mon : mon :=
  fun q e =>
    match classify e with
    | CRec => match q with 0 => 1 | 1 => 3 | 2 => 3 | _ => 9 end
    | CExec => match q with 1 => 2 | _ => 9 end
    | CLate => match q with 3 => 3 | _ => 9 end
    | COther => q
    end%N.
Definition order_acc (x : aout) : bool :=
  negb (N.eqb (snd x) 9) && (if success (fst x) then N.eqb (snd x) 3 else true).

Theorem tie_C11_run_order : check order_mon FUEL order_acc 0%N skel_in_toto_run = true.
Proof. vm_compute. reflexivity. Qed.

(** the calls are really there, and the link is signed and written only after it was built *)
Theorem tie_C11_run_present :
  forallb (has_call skel_in_toto_run) [A_record; A_exec; A_link; A_sign; A_dump] = true
  /\ precedes skel_in_toto_run A_link A_sign = true /\ precedes skel_in_toto_run A_sign A_dump = true.
Proof. vm_compute. repeat split; reflexivity. Qed.

(** what the states mean: counts of completed recordings, started commands and built links *)
Fixpoint count (c : cls -> bool) (t : trace) : nat :=
  match t with [] => 0 | e :: t' => (if c (classify e) then 1 else 0) + count c t' end.
Definition is_rec c := match c with CRec => true | _ => false end.
Definition is_exec c := match c with CExec => true | _ => false end.
Definition is_late c := match c with CLate => true | _ => false end.

Lemma count_app : forall c t1 t2, count c (t1 ++ t2) = count c t1 + count c t2.
Proof. intros c. induction t1 as [|e t1 IH]; intro t2; [reflexivity|]. cbn [app count]. rewrite IH. lia. Qed.

Lemma run_9 : forall t, run order_mon 9%N t = 9%N.
Proof.
  induction t as [|e t IH]; [reflexivity|]. rewrite run_cons.
  assert (order_mon 9%N e = 9%N) as -> by (unfold order_mon; destruct (classify e); reflexivity). exact IH.
Qed.

Lemma state_meaning : forall t q, run order_mon 0%N t = q -> q <> 9%N ->
  (q = 0%N -> count is_rec t = 0 /\ count is_exec t = 0 /\ count is_late t = 0) /\
  (q = 1%N -> count is_rec t = 1 /\ count is_exec t = 0 /\ count is_late t = 0) /\
  (q = 2%N -> count is_rec t = 1 /\ count is_exec t = 1 /\ count is_late t = 0) /\
  (q = 3%N -> count is_rec t = 2 /\ count is_exec t <= 1) /\
  (q = 0%N \/ q = 1%N \/ q = 2%N \/ q = 3%N).
Proof.
  induction t as [|e t IH] using rev_ind; intros q Hq Hn.
  - cbn in Hq. subst q. repeat split; try discriminate; try reflexivity. left. reflexivity.
  - rewrite run_app in Hq. cbn [run fold_left] in Hq.
    set (p := run order_mon 0%N t) in *.
    assert (Hp9 : p <> 9%N).
    { intro E. rewrite E in Hq. unfold order_mon in Hq. destruct (classify e); subst q; apply Hn; reflexivity. }
    destruct (IH p eq_refl Hp9) as [I0 [I1 [I2 [I3 Icases]]]].
    rewrite !count_app. cbn [count]. unfold order_mon in Hq.
    destruct (classify e) eqn:C; cbn [is_rec is_exec is_late];
      destruct Icases as [E|[E|[E|E]]]; rewrite E in Hq; subst q; try (exfalso; apply Hn; reflexivity);
      try (destruct (I0 E) as [? [? ?]]); try (destruct (I1 E) as [? [? ?]]); try (destruct (I2 E) as [? [? ?]]);
      try (destruct (I3 E) as [? ?]);
      repeat split; try discriminate; try lia; auto.
Qed.

(** C11 / C04 for today's in_toto_run *)
Theorem C11_run_order_today : forall rho t o, exec rho skel_in_toto_run t o ->
  (forall t1 ok t2, t = t1 ++ ECall A_exec ok :: t2 ->
     count is_rec t1 = 1 /\ count is_exec t1 = 0 /\ count is_late t1 = 0) /\
  (forall t1 ok t2, t = t1 ++ ECall A_link ok :: t2 ->
     count is_rec t1 = 2 /\ count is_exec t1 <= 1) /\
  (success o = true -> count is_rec t = 2 /\ count is_exec t <= 1).
Proof.
  intros rho t o Hex.
  pose proof (check_sound rho order_mon FUEL order_acc 0%N skel_in_toto_run tie_C11_run_order t o Hex) as H.
  unfold order_acc in H. cbn [fst snd] in H. apply andb_prop in H. destruct H as [H9 Hs].
  apply Bool.negb_true_iff in H9. apply N.eqb_neq in H9.
  assert (Hpre : forall t1 e t2, t = t1 ++ e :: t2 -> order_mon (run order_mon 0%N t1) e <> 9%N).
  { intros t1 e t2 ->. intro E. apply H9. rewrite run_app, run_cons, E. apply run_9. }
  split; [|split].
  - intros t1 ok t2 Ht. pose proof (Hpre t1 _ t2 Ht) as Hq. set (p := run order_mon 0%N t1) in *. unfold order_mon in Hq.
    assert (C : classify (ECall A_exec ok) = CExec) by reflexivity. rewrite C in Hq.
    assert (p = 1%N) as Hp1.
    { destruct p as [|[p|p|]]; try (exfalso; apply Hq; reflexivity); reflexivity. }
    destruct (state_meaning t1 p eq_refl) as [_ [I1 _]]; [rewrite Hp1; discriminate|]. exact (I1 Hp1).
  - intros t1 ok t2 Ht. pose proof (Hpre t1 _ t2 Ht) as Hq. set (p := run order_mon 0%N t1) in *. unfold order_mon in Hq.
    assert (C : classify (ECall A_link ok) = CLate) by reflexivity. rewrite C in Hq.
    assert (p = 3%N) as Hp3.
    { destruct p as [|[[p|p|]|[p|p|]|]]; try (exfalso; apply Hq; reflexivity); reflexivity. }
    destruct (state_meaning t1 p eq_refl) as [_ [_ [_ [I3 _]]]]; [rewrite Hp3; discriminate|]. exact (I3 Hp3).
  - intro Hsuc. rewrite Hsuc in Hs. apply N.eqb_eq in Hs.
    destruct (state_meaning t _ eq_refl H9) as [_ [_ [_ [I3 _]]]]. exact (I3 Hs).
Qed.

Print Assumptions C11_run_order_today.
