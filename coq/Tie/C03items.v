(** Tie/C03items.v — verify_item_rules and verify_all_item_rules regenerated from
    /repo/in_toto/verifylib.py (Gen/Fun3.v, by tools/pytrans2.py --items; the statements that only write the
    diagnostic RULE_TRACE dictionary and the logging calls are dropped, fail closed on any other use) are the
    model's evaluator (Model/Rules.v), for which the C03 theorems are proved.  Uses the ties of
    unpack_rule (Tie/C17.v) and of the seven rule functions (Tie/C03.v). *)
From InToto.Model Require Import Base Json PyLib Glob PyLibGlob Rule Rules.
From InToto.Proofs Require Import PyLibFacts2 PyLibFacts3 RulesProofs.
From InToto.Gen Require Import Fun Fun2 Fun3.
From InToto.Tie Require C17.
From InToto.Tie Require Import C03.

(** what the tie assumes about the link objects: hash records are dicts of strings and a map holds a path once
    (both hold for every loaded link: formats._check_hash_dict, Python dicts) *)
Definition amap_ok (m : amap) : Prop := amap_hashrecs m = true /\ NoDup (keys m).
Definition links_ok (ls : links) : Prop :=
  forall n l, lookup n ls = Some l -> amap_ok (l_materials l) /\ amap_ok (l_products l).

Lemma arts_ok : forall ls n l d, links_ok ls -> lookup n ls = Some l -> amap_ok (arts d l).
Proof. intros ls n l d H Hl. destruct (H n l Hl) as [Hm Hp]. destruct d; assumption. Qed.

Lemma dedup_nodup' : forall l, NoDup l -> dedup l = l.
Proof.
  induction l as [|x l IH]; intro H; [reflexivity|]. inversion H as [|? ? Hn Hl]; subst.
  cbn [dedup]. destruct (mem_str x l) eqn:E; [apply mem_str_In in E; contradiction|]. rewrite (IH Hl). reflexivity.
Qed.

Lemma keys_set : forall m, NoDup (keys m) ->
  (do t <- py_keys (inj_amap m); py_set t) = Ok (vsset (keys m)).
Proof.
  intros m Hn. rewrite keys_inj_amap. cbn [bind]. unfold py_set, vsset. rewrite pv_dedup_vstr, (dedup_nodup' _ Hn). reflexivity.
Qed.

Lemma filter_true : forall (f : str -> bool) q, (forall x, f x = true) -> filter f q = q.
Proof. intros f q H. induction q as [|x q IH]; [reflexivity|]. cbn [filter]. rewrite H, IH. reflexivity. Qed.
Lemma set_diff_nil : forall q, set_diff q [] = q.
Proof. intro q. unfold set_diff. apply filter_true. reflexivity. Qed.

Lemma set_diff_same : forall q c c', (forall z, In z c <-> In z c') -> set_diff q c = set_diff q c'.
Proof.
  intros q c c' H. unfold set_diff. apply filter_ext. intro x. f_equal.
  destruct (mem_str x c) eqn:E1; destruct (mem_str x c') eqn:E2; try reflexivity.
  - apply mem_str_In in E1. apply H in E1. apply mem_str_false in E2. contradiction.
  - apply mem_str_In in E2. apply H in E2. apply mem_str_false in E1. contradiction.
Qed.

(** one iteration of the loop, with MATCH read forwards *)
Definition apply_rule_fwd (side : dkind) (item : link) (ls : links) (queue : list str) (m : meaning) : res (list str) :=
  match m with
  | Match pat sp d dp step =>
      do c <- match_rule_fwd pat sp d dp step queue (arts side item) ls; Ok (set_diff queue c)
  | _ => apply_rule glob_match side item ls queue m
  end.

Lemma apply_rule_fwd_eq : forall side item ls queue m,
  apply_rule_fwd side item ls queue m = apply_rule glob_match side item ls queue m.
Proof.
  intros side item ls queue m. destruct m as [k p|pat sp d dp step]; [reflexivity|].
  cbn [apply_rule_fwd apply_rule].
  pose proof (match_rule_fwd_same pat sp d dp step queue (arts side item) ls) as H. unfold res_same in H.
  destruct (match_rule_fwd pat sp d dp step queue (arts side item) ls) as [c|e];
    destruct (match_rule glob_match pat sp d dp step queue (arts side item) ls) as [c'|e']; try contradiction.
  - cbn [bind]. rewrite (set_diff_same queue c c' H). reflexivity.
  - subst. reflexivity.
Qed.

Definition rule_step (side : dkind) (item : link) (ls : links) (r : json) (q : list str) : res (list str) :=
  do m <- unpack_rule r; apply_rule_fwd side item ls q m.

Lemma run_rules_fold : forall side item ls rules q,
  fold_res (rule_step side item ls) rules q = run_rules glob_match side item ls q rules.
Proof.
  intros side item ls. induction rules as [|r rules IH]; intro q; [reflexivity|].
  cbn [fold_res run_rules]. unfold rule_step at 1. destruct (unpack_rule r) as [m|e]; [|reflexivity].
  cbn [bind]. rewrite apply_rule_fwd_eq. destruct (apply_rule glob_match side item ls q m) as [q'|e]; [|reflexivity].
  cbn [bind]. apply IH.
Qed.

Lemma py_sub_q : forall a b, py_sub (vsset a) (vsset b) = Ok (vsset (set_diff a b)).
Proof. exact py_sub_vsset. Qed.

Theorem tie_item_rules : forall name side rules ls,
  links_ok ls ->
  f_verify_item_rules (VStr name) (VStr (dkind_name side)) (inj (JList rules)) (links_pv ls) =
  res_map2 (fun _ => VNone) (verify_item_rules glob_match name side rules ls).
Proof.
  intros name side rules ls Hok. unfold f_verify_item_rules, verify_item_rules.
  assert (py_not_in (VStr (dkind_name side))
            (VList [VStr [109;97;116;101;114;105;97;108;115]%N; VStr [112;114;111;100;117;99;116;115]%N]) = Ok (VBool false)) as ->
    by (destruct side; reflexivity).
  cbn [bind truthy]. rewrite !py_index_links.
  destruct (lookup name ls) as [item|] eqn:El; [|reflexivity].
  cbn [bind].
  change (VStr [109;97;116;101;114;105;97;108;115]%N) with (VStr (dkind_name Materials)).
  change (VStr [112;114;111;100;117;99;116;115]%N) with (VStr (dkind_name Products)).
  rewrite !py_getattr_link. cbn [bind arts].
  destruct (Hok name item El) as [[HMh HMn] [HPh HPn]].
  rewrite (keys_set _ HMn). cbn [bind]. rewrite (keys_set _ HPn). cbn [bind].
  destruct (arts_ok ls name item side Hok El) as [HAh HAn].
  rewrite (keys_set _ HAn). cbn [bind].
  unfold py_for. cbn [inj py_iter bind].
  rewrite (py_fold_map inj vsset _ (rule_step side item ls)).
  - rewrite run_rules_fold. destruct (run_rules glob_match side item ls (keys (arts side item)) rules); reflexivity.
  - (* one iteration *)
    intros r q. cbv beta. rewrite C17.tie_unpack_rule. unfold rule_step.
    destruct (unpack_rule r) as [m|e]; [|reflexivity].
    cbn [C17.res_map bind].
    destruct m as [k pat|pat sp d dp step].
    + destruct k; cbn [C17.meaning_pv meaning_json inj map fst snd gkind_name apply_rule_fwd apply_rule];
        (assert (Hrt : forall p, py_index (VDict [(VStr s_rule_type, p); (VStr s_pattern, VStr pat)]) (VStr [114;117;108;101;95;116;121;112;101]%N) = Ok p) by reflexivity);
        (assert (Hpt : forall p, py_index (VDict [(VStr s_rule_type, p); (VStr s_pattern, VStr pat)]) (VStr [112;97;116;116;101;114;110]%N) = Ok (VStr pat)) by reflexivity);
        rewrite Hrt, Hpt; cbn [bind]; clear Hrt Hpt.
      * (* create *)
        assert (forall X Y : res pyval, (do t <- py_eq (VStr k_create) (VStr [109;97;116;99;104]%N); if truthy t then X else Y) = Y) as -> by reflexivity.
        assert (forall X Y : res pyval, (do t <- py_eq (VStr k_create) (VStr [99;114;101;97;116;101]%N); if truthy t then X else Y) = X) as -> by reflexivity.
        rewrite tie_create_rule. destruct (create_rule glob_match pat q (keys (l_materials item)) (keys (l_products item))) as [c|e]; [|reflexivity].
        cbn [res_map2 bind]. rewrite py_sub_q. reflexivity.
      * (* modify *)
        assert (forall X Y : res pyval, (do t <- py_eq (VStr k_modify) (VStr [109;97;116;99;104]%N); if truthy t then X else Y) = Y) as -> by reflexivity.
        assert (forall X Y : res pyval, (do t <- py_eq (VStr k_modify) (VStr [99;114;101;97;116;101]%N); if truthy t then X else Y) = Y) as -> by reflexivity.
        assert (forall X Y : res pyval, (do t <- py_eq (VStr k_modify) (VStr [100;101;108;101;116;101]%N); if truthy t then X else Y) = Y) as -> by reflexivity.
        assert (forall X Y : res pyval, (do t <- py_eq (VStr k_modify) (VStr [109;111;100;105;102;121]%N); if truthy t then X else Y) = X) as -> by reflexivity.
        rewrite (tie_modify_rule pat q _ _ HMh HPh).
        destruct (modify_rule glob_match pat q (l_materials item) (l_products item)) as [c|e]; [|reflexivity].
        cbn [res_map2 bind]. rewrite py_sub_q. reflexivity.
      * (* delete *)
        assert (forall X Y : res pyval, (do t <- py_eq (VStr k_delete) (VStr [109;97;116;99;104]%N); if truthy t then X else Y) = Y) as -> by reflexivity.
        assert (forall X Y : res pyval, (do t <- py_eq (VStr k_delete) (VStr [99;114;101;97;116;101]%N); if truthy t then X else Y) = Y) as -> by reflexivity.
        assert (forall X Y : res pyval, (do t <- py_eq (VStr k_delete) (VStr [100;101;108;101;116;101]%N); if truthy t then X else Y) = X) as -> by reflexivity.
        rewrite tie_delete_rule. destruct (delete_rule glob_match pat q (keys (l_materials item)) (keys (l_products item))) as [c|e]; [|reflexivity].
        cbn [res_map2 bind]. rewrite py_sub_q. reflexivity.
      * (* allow *)
        assert (forall X Y : res pyval, (do t <- py_eq (VStr k_allow) (VStr [109;97;116;99;104]%N); if truthy t then X else Y) = Y) as -> by reflexivity.
        assert (forall X Y : res pyval, (do t <- py_eq (VStr k_allow) (VStr [99;114;101;97;116;101]%N); if truthy t then X else Y) = Y) as -> by reflexivity.
        assert (forall X Y : res pyval, (do t <- py_eq (VStr k_allow) (VStr [100;101;108;101;116;101]%N); if truthy t then X else Y) = Y) as -> by reflexivity.
        assert (forall X Y : res pyval, (do t <- py_eq (VStr k_allow) (VStr [109;111;100;105;102;121]%N); if truthy t then X else Y) = Y) as -> by reflexivity.
        assert (forall X Y : res pyval, (do t <- py_eq (VStr k_allow) (VStr [97;108;108;111;119]%N); if truthy t then X else Y) = X) as -> by reflexivity.
        rewrite tie_allow_rule. destruct (allow_rule glob_match pat q) as [c|e]; [|reflexivity].
        cbn [res_map2 bind]. rewrite py_sub_q. reflexivity.
      * (* disallow *)
        assert (forall X Y : res pyval, (do t <- py_eq (VStr k_disallow) (VStr [109;97;116;99;104]%N); if truthy t then X else Y) = Y) as -> by reflexivity.
        assert (forall X Y : res pyval, (do t <- py_eq (VStr k_disallow) (VStr [99;114;101;97;116;101]%N); if truthy t then X else Y) = Y) as -> by reflexivity.
        assert (forall X Y : res pyval, (do t <- py_eq (VStr k_disallow) (VStr [100;101;108;101;116;101]%N); if truthy t then X else Y) = Y) as -> by reflexivity.
        assert (forall X Y : res pyval, (do t <- py_eq (VStr k_disallow) (VStr [109;111;100;105;102;121]%N); if truthy t then X else Y) = Y) as -> by reflexivity.
        assert (forall X Y : res pyval, (do t <- py_eq (VStr k_disallow) (VStr [97;108;108;111;119]%N); if truthy t then X else Y) = Y) as -> by reflexivity.
        assert (forall X Y : res pyval, (do t <- py_eq (VStr k_disallow) (VStr [100;105;115;97;108;108;111;119]%N); if truthy t then X else Y) = X) as -> by reflexivity.
        rewrite tie_disallow_rule. destruct (disallow_rule glob_match pat q) as [c|e]; [|reflexivity].
        cbn [res_map2 bind]. change (VSet []) with (vsset []). rewrite py_sub_q, set_diff_nil. reflexivity.
      * (* require *)
        assert (forall X Y : res pyval, (do t <- py_eq (VStr k_require) (VStr [109;97;116;99;104]%N); if truthy t then X else Y) = Y) as -> by reflexivity.
        assert (forall X Y : res pyval, (do t <- py_eq (VStr k_require) (VStr [99;114;101;97;116;101]%N); if truthy t then X else Y) = Y) as -> by reflexivity.
        assert (forall X Y : res pyval, (do t <- py_eq (VStr k_require) (VStr [100;101;108;101;116;101]%N); if truthy t then X else Y) = Y) as -> by reflexivity.
        assert (forall X Y : res pyval, (do t <- py_eq (VStr k_require) (VStr [109;111;100;105;102;121]%N); if truthy t then X else Y) = Y) as -> by reflexivity.
        assert (forall X Y : res pyval, (do t <- py_eq (VStr k_require) (VStr [97;108;108;111;119]%N); if truthy t then X else Y) = Y) as -> by reflexivity.
        assert (forall X Y : res pyval, (do t <- py_eq (VStr k_require) (VStr [100;105;115;97;108;108;111;119]%N); if truthy t then X else Y) = Y) as -> by reflexivity.
        assert (forall X Y : res pyval, (do t <- py_eq (VStr k_require) (VStr [114;101;113;117;105;114;101]%N); if truthy t then X else Y) = X) as -> by reflexivity.
        rewrite tie_require_rule. destruct (require_rule pat q) as [c|e]; [|reflexivity].
        cbn [res_map2 bind]. change (VSet []) with (vsset []). rewrite py_sub_q, set_diff_nil. reflexivity.
    + (* match *)
      change (C17.meaning_pv (Match pat sp d dp step)) with (meaning_pv (Match pat sp d dp step)).
      assert (py_index (meaning_pv (Match pat sp d dp step)) (VStr [114;117;108;101;95;116;121;112;101]%N) = Ok (VStr k_match)) as -> by reflexivity.
      cbn [bind]. rewrite rd_pattern. cbn [bind].
      assert (forall X Y : res pyval, (do t <- py_eq (VStr k_match) (VStr [109;97;116;99;104]%N); if truthy t then X else Y) = X) as -> by reflexivity.
      rewrite (tie_match_rule pat sp d dp step q (arts side item) ls HAh).
      2:{ intros l Hl. exact (proj1 (arts_ok ls step l d Hok Hl)). }
      cbn [apply_rule_fwd].
      destruct (match_rule_fwd pat sp d dp step q (arts side item) ls) as [c|e]; [|reflexivity].
      cbn [res_map2 bind]. rewrite py_sub_q. reflexivity.
Qed.
Print Assumptions tie_item_rules.

(** * verify_all_item_rules: every step / inspection, materials then products *)
Definition s_name : str := [110;97;109;101]%N.
Definition s_expected_materials : str := [101;120;112;101;99;116;101;100;95;109;97;116;101;114;105;97;108;115]%N.
Definition s_expected_products : str := [101;120;112;101;99;116;101;100;95;112;114;111;100;117;99;116;115]%N.
Definition item_pv (it : str * list json * list json) : pyval :=
  let '(n, em, ep) := it in
  VDict [(VStr s_name, VStr n); (VStr s_expected_materials, inj (JList em)); (VStr s_expected_products, inj (JList ep))].

Definition item_step (ls : links) (it : str * list json * list json) (_ : unit) : res unit :=
  let '(n, em, ep) := it in
  do _ <- verify_item_rules glob_match n Materials em ls;
  do _ <- verify_item_rules glob_match n Products ep ls;
  Ok tt.

Lemma all_items_fold : forall ls items,
  fold_res (item_step ls) items tt = verify_all_item_rules glob_match items ls.
Proof.
  intros ls. induction items as [|[[n em] ep] items IH]; [reflexivity|].
  cbn [fold_res verify_all_item_rules]. unfold item_step at 1.
  destruct (verify_item_rules glob_match n Materials em ls); [|reflexivity]. cbn [bind].
  destruct (verify_item_rules glob_match n Products ep ls); [|reflexivity]. cbn [bind]. exact IH.
Qed.

Theorem tie_all_item_rules : forall items ls,
  links_ok ls ->
  f_verify_all_item_rules (VList (map item_pv items)) (links_pv ls) =
  res_map2 (fun _ => VNone) (verify_all_item_rules glob_match items ls).
Proof.
  intros items ls Hok. unfold f_verify_all_item_rules, py_for. cbn [py_iter bind].
  rewrite (py_fold_map item_pv (fun u : unit => u) _ (item_step ls)).
  - rewrite all_items_fold. destruct (verify_all_item_rules glob_match items ls) as [[]|e]; reflexivity.
  - intros [[n em] ep] []. cbv beta.
    assert (py_getattr (item_pv (n, em, ep)) (VStr [110;97;109;101]%N) = Ok (VStr n)) as -> by reflexivity.
    assert (py_getattr (item_pv (n, em, ep)) (VStr [101;120;112;101;99;116;101;100;95;109;97;116;101;114;105;97;108;115]%N) = Ok (inj (JList em))) as -> by reflexivity.
    assert (py_getattr (item_pv (n, em, ep)) (VStr [101;120;112;101;99;116;101;100;95;112;114;111;100;117;99;116;115]%N) = Ok (inj (JList ep))) as -> by reflexivity.
    cbn [bind].
    change (VStr [109;97;116;101;114;105;97;108;115]%N) with (VStr (dkind_name Materials)).
    change (VStr [112;114;111;100;117;99;116;115]%N) with (VStr (dkind_name Products)).
    rewrite !(tie_item_rules _ _ _ _ Hok). unfold item_step.
    destruct (verify_item_rules glob_match n Materials em ls); [|reflexivity]. cbn [res_map2 bind].
    destruct (verify_item_rules glob_match n Products ep ls); reflexivity.
Qed.
Print Assumptions tie_all_item_rules.

(** * The C03 theorem carried over to the regenerated source:
    for rule lists that parse, patterns inside the modelled glob fragment and paths inside the guards of [C03_filter],
    `verify_item_rules` AS WRITTEN returns normally iff the documented ordered filter passes, and raises
    RuleVerificationError iff it fails. *)
From InToto.Proofs Require Import RulesSpec.

Theorem source_item_rules_is_the_documented_filter :
  forall name side (rules : list json) (ms : list meaning) ls item,
    links_ok ls -> lookup name ls = Some item ->
    Forall2 (fun j m => unpack_rule j = Ok m) rules ms ->
    Forall (fun m => supported glob_match (pattern_of m)) ms ->
    (forall a, In a (keys (arts side item)) -> no_bs a /\ ~ (exists x y, a = x ++ 47%N :: 47%N :: y)) ->
    exists v, steps glob_match side item ls ms (keys (arts side item)) v /\
      match v with
      | Pass _ => f_verify_item_rules (VStr name) (VStr (dkind_name side)) (inj (JList rules)) (links_pv ls) = Ok VNone
      | Fail => f_verify_item_rules (VStr name) (VStr (dkind_name side)) (inj (JList rules)) (links_pv ls) = Err ERule
      end.
Proof.
  intros name side rules ms ls item Hok Hl Hparse Hsup Hq.
  rewrite (tie_item_rules name side rules ls Hok). unfold verify_item_rules. rewrite Hl.
  destruct (filter_spec glob_match side item ls rules ms (keys (arts side item))
              (run_rules glob_match side item ls (keys (arts side item)) rules) Hparse Hsup) as [v [Hv Hs]].
  - intros a Ha. split; [exact Ha | exact (Hq a Ha)].
  - reflexivity.
  - exists v. split; [exact Hs|].
    destruct (run_rules glob_match side item ls (keys (arts side item)) rules) as [q|e]; cbn [res_verdict] in Hv.
    + inversion Hv; subst. reflexivity.
    + destruct e; try discriminate. inversion Hv; subst. reflexivity.
Qed.
Print Assumptions source_item_rules_is_the_documented_filter.
