(** Tie/C18.v — the exit-status checkers evaluated on the skeletons of the six main() functions
    regenerated from /repo on THIS run (Gen/Skel.v).  Recompiled on every check run. *)
From Coq Require Import String Ascii.
From InToto.Model Require Import Base Skel.
From InToto.Proofs Require Import SkelSound.
From InToto.Props Require Import C18.
From InToto.Gen Require Import Skel.

Definition s (x : string) : str := map (fun a => N_of_ascii a) (list_ascii_of_string x).

Definition exit_codes_012 (sk : skel) : bool :=
  outcomes_all (fun o => match o with OExited c => Z.eqb c 0 || Z.eqb c 1 || Z.eqb c 2 | _ => true end) sk.

(** the four front ends with a catch-all around one library operation:
    0 only after the operation returned and through no handler; a raising operation -> 1;
    any handler -> non-zero; 2 only before the operation is attempted; codes are 0/1/2 *)
Definition frontend_ok (g : asg) (sk : skel) (a : str) : bool :=
  exit0_only_after g [] sk a && handlers_exit_nonzero sk && failure_exits g [] sk a 1
  && exit_only_before sk 2 a && exit_codes_012 sk && has_call sk a.

Definition A_verify := s "verifylib.in_toto_verify".
Definition A_run := s "runlib.in_toto_run".
Definition A_start := s "in_toto.runlib.in_toto_record_start".
Definition A_stop := s "in_toto.runlib.in_toto_record_stop".
Definition A_mock := s "in_toto.runlib.in_toto_mock".
Definition A_match := s "match_products".
Definition L_start := s "args.command == 'start'".
Definition L_differ := s "only_products or not_in_products or differ".
Definition L_sign_verify := s "args.verify".
Definition A_verify_sig := s "metadata.verify_signature".
Definition A_dump := s "metadata.dump".
Definition L_keys := s "for (keyid, verification_key) in pub_key_dict.items()".

Theorem tie_C18_verify : frontend_ok [] skel_main_verify A_verify = true.
Proof. vm_compute. reflexivity. Qed.

Theorem tie_C18_run : frontend_ok [] skel_main_run A_run = true.
Proof. vm_compute. reflexivity. Qed.

Theorem tie_C18_record :
  frontend_ok [(L_start, true)] skel_main_record A_start = true
  /\ frontend_ok [(L_start, false)] skel_main_record A_stop = true
  /\ has_stable_label skel_main_record L_start = true.
Proof. vm_compute. repeat split; reflexivity. Qed.

Theorem tie_C18_mock : frontend_ok [] skel_main_mock A_mock = true.
Proof. vm_compute. reflexivity. Qed.

(** match-products: no handler at all (any failure is an uncaught exception = status 1);
    0 only after the comparison returned; status by the data condition *)
Theorem tie_C18_match_products :
  exit0_only_after [] [] skel_main_match_products A_match = true
  /\ handlers_exit_nonzero skel_main_match_products = true
  /\ failure_exits [] [] skel_main_match_products A_match 1 = true
  /\ exit_only_before skel_main_match_products 2 A_match = true
  /\ exit_codes_012 skel_main_match_products = true
  /\ exit_iff_label skel_main_match_products L_differ 1 = true
  /\ has_stable_label skel_main_match_products L_differ = true.
Proof. vm_compute. repeat split; reflexivity. Qed.

(** in-toto-sign: --verify: every iteration over the given keys verifies, the loop cannot be left
    early with success, any handler -> non-zero; signing: 0 only after the dump returned *)
Theorem tie_C18_sign :
  iter_requires [(L_sign_verify, true)] [] skel_main_sign L_keys A_verify_sig = true
  /\ loop_runs_to_end skel_main_sign L_keys = true
  /\ handlers_exit_nonzero skel_main_sign = true
  /\ exit0_only_after [(L_sign_verify, false)] [] skel_main_sign A_dump = true
  /\ exit_codes_012 skel_main_sign = true
  /\ has_stable_label skel_main_sign L_sign_verify = true
  /\ iter_requires [] [] skel_sign_verify_metadata L_keys A_verify_sig = true
  /\ loop_runs_to_end skel_sign_verify_metadata L_keys = true
  /\ handlers_exit_nonzero skel_sign_verify_metadata = true
  /\ exit0_only_after [] [] skel_sign_sign_and_dump_metadata A_dump = true
  /\ handlers_exit_nonzero skel_sign_sign_and_dump_metadata = true
  /\ handlers_exit_nonzero skel_sign_load_metadata = true.
Proof. vm_compute. repeat split; reflexivity. Qed.

(** library side of "exit 0 exactly when the link file was written": record start / record stop /
    mock return normally only after the dump of the (preliminary) link returned and through no
    handler; record stop removes the preliminary link only after the final one was dumped, and that
    removal is its last effect.  (in_toto_run writes only when a signing argument is given — its
    `if signer` is re-assigned, hence not a stable condition; the CLI matrix covers it.) *)
Definition A_lib_dump := s "link_metadata.dump".
Definition A_rm_unfinished := s "os.remove(unfinished_fn)".
Theorem tie_C18_library_writes :
  exit0_only_after [] [] skel_in_toto_record_start A_lib_dump = true
  /\ exit0_only_after [] [] skel_in_toto_record_stop A_lib_dump = true
  /\ exit0_only_after [] [] skel_in_toto_mock A_lib_dump = true
  /\ precedes skel_in_toto_record_stop A_lib_dump A_rm_unfinished = true
  /\ last_effect skel_in_toto_record_stop A_rm_unfinished = true
  /\ last_effect skel_in_toto_record_start A_lib_dump = true
  /\ has_call skel_in_toto_run A_lib_dump = true.
Proof. vm_compute. repeat split; reflexivity. Qed.

(** C18 for today's in-toto-verify: status 0 => in_toto_verify returned normally and no except
    clause ran; in_toto_verify raised => status 1 *)
Theorem C18_verify_today : forall rho t o,
  exec rho skel_main_verify t o ->
  (success o = true -> In (ECall A_verify true) t /\ ~ In EHandler t)
  /\ (In (ECall A_verify false) t -> o = OExited 1 \/ o = ORaised).
Proof.
  intros rho t o Hex.
  assert (H := tie_C18_verify). unfold frontend_ok in H.
  repeat rewrite andb_true_iff in H.
  destruct H as [[[[[H1 H2] H3] H4] H5] H6].
  split.
  - intro Hs. exact (C18_exit0_only_after A_verify rho [] [] _ (agrees_nil rho) H1 t o Hex Hs).
  - intro Hf.
    destruct (C18_failure_status A_verify rho [] [] _ 1 (agrees_nil rho) H3 t o Hex Hf) as [Ho|[Ho _]]; auto.
Qed.
Print Assumptions C18_verify_today.
